#!/bin/bash
# Build the framework from files on disk only (offline): Coq development (full .vo), extracted
# model driver, config headers and the base library objects from /repo's working tree.
set -e
cd "$(dirname "$0")/.."
export PATH=/usr/bin:$PATH
python3 tools/coqgen.py
cd coq
coq_makefile -f _CoqProject -o Makefile
timeout 3000 make -j"$(nproc)"
cd ..
python3 - <<'PY'
import sys
sys.path.insert(0, "tools")
import vlib
print(vlib.build_model())
print(vlib.build_lib("base")["lib"])
PY
echo setup-ok

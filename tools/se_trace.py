"""C12: turn the trace printed by harness/h_sessions.c into (a) the operation list for the Coq
session-table model (ocaml/d_sessions.ml "se"), (b) the output the model must produce if the
implementation behaves like it, and (c) the verdicts of the implementation-only oracles.

What is input and what is prediction
  inputs to the model  : which datagram arrived when (X) and, if the idle limit made the code
                         evict a session, which one (the model checks that it is one the
                         property allows: the limit is reached, idle, none older - when several
                         are equally old the property leaves the choice open), which references
                         were taken/dropped
                         (+/-), transmissions (T), delay-queue flag changes, when an idle scan
                         ran (P) and when the context was freed (C)
  predicted by the model: which session handles the datagram (R), SESSION_NEW/DEL events and
                         releases (N/D/F) and their order, the table after every driver step
                         (identity, peer, ref, last_rx_tx, delay-queue flag, iteration order)
"""
import re


def split_result(out):
    parts = out.split(" | ")
    if len(parts) != 3:
        return None
    stats = dict(kv.split("=", 1) for kv in parts[2].split() if "=" in kv)
    return parts[0].split(), parts[1].split(), stats


def parse_snapshot(tok):
    """B[sid:key:ref:last:dq;...] -> list of tuples"""
    body = tok[2:-1]
    if not body:
        return []
    return [tuple(int(x) for x in e.split(":")) for e in body.split(";")]


def canon_snapshot(snap):
    """the table as the model prints it: sorted by identity (= creation order = the model's
    insertion order), so that a change of the hash table's iteration order alone is not a
    difference"""
    return "B[" + ";".join("%d:%d:%d:%d:%d" % e for e in sorted(snap)) + "]"


def windows(tokens):
    """split at the B[...] tokens: [(events, snapshot, btoken, wtoken)]; a following S[...] token
    (session states, stream histories) is kept in the dict STATES keyed by the window index"""
    out = []
    cur = []
    i = 0
    while i < len(tokens):
        t = tokens[i]
        if t.startswith("B["):
            w = "W[]"
            if i + 1 < len(tokens) and tokens[i + 1].startswith("W["):
                w = tokens[i + 1]
                i += 1
            st = None
            if i + 1 < len(tokens) and tokens[i + 1].startswith("S["):
                st = tokens[i + 1]
                i += 1
            out.append((cur, parse_snapshot(t), t, WTok(w, st)))
            cur = []
        else:
            cur.append(t)
        i += 1
    if cur:
        out.append((cur, None, None, WTok("W[]", None)))
    return out


class WTok(str):
    """the W[...] token, with the S[...] token of the same boundary attached"""
    def __new__(cls, w, states):
        o = str.__new__(cls, w)
        o.states = states
        return o


def parse_states(stok):
    d = {}
    if stok:
        body = stok[2:-1]
        if body:
            for e in body.split(";"):
                a, b = e.split(":")
                d[int(a)] = int(b)
    return d


def translate(tokens, timeout, maxidle):
    """-> (model case line, expected model tokens, per-window info)"""
    ops = []
    expect = []
    prev_dq = {}
    prev_state = {}
    info = []
    for evs, snap, btok, wtok in windows(tokens):
        teardown = "C" in evs
        w_ops = []
        pending = None
        last_x = None
        last_y_pos = -1
        for j, t in enumerate(evs):
            if t[0] == "Y":
                last_y_pos = j
        q_ops = []
        for j, t in enumerate(evs):
            k = t[0]
            f = t.split(":")
            if k == "X":
                last_x = f[1]
                # the session evicted during this call (released before the call returns), if any:
                # the model is told which one, and checks that the property allows it
                victim = None
                for t2 in evs[j + 1:]:
                    if t2[0] == "Y":
                        break
                    if t2[0] == "F":
                        victim = t2.split(":")[1]
                        break
                if victim is not None:
                    w_ops.append("xv:%s:%s:%s" % (f[1], f[2], victim))
                else:
                    w_ops.append("x:%s:%s" % (f[1], f[2]))
            elif k == "A":
                w_ops.append("a:%s:%s" % (f[1], f[2]))
            elif k == "R":
                w_ops.append("t:%s:%s" % (f[1], f[2]))
            elif k == "Y":
                if f[1] != "0":
                    expect.append("R:%s:%s" % (last_x, f[1]))
                else:
                    expect.append("R:%s:NULL" % last_x)
            elif k == "N":
                expect.append("N:%s:%s" % (f[1], f[2]))
                prev_state[int(f[1])] = 3 if int(f[2]) >= 1000 else 4
            elif k == "D":
                expect.append("D:%s" % f[1])
            elif k == "F":
                expect.append("F:%s" % f[1])
                sid = int(f[1])
                # the delay queue was empty when the object was released by a scan: tell the
                # model if that is news (an observed fact, taken at the moment of the release)
                if j > last_y_pos and not teardown and len(f) > 7 and f[7] == "1" and prev_dq.get(sid) == 0:
                    q_ops.append("q:%d:1" % sid)
                # ... and so is its state at that moment (a stream session whose peer has gone)
                if j > last_y_pos and not teardown and len(f) > 8 and \
                        int(f[8]) != prev_state.get(sid, int(f[8])):
                    q_ops.append("s:%d:%s" % (sid, f[8]))
                    prev_state[sid] = int(f[8])
            elif k in "+-":
                if teardown and f[2] == "2":
                    continue
                w_ops.append(t)
            elif k == "T":
                if not teardown:
                    w_ops.append("t:%s:%s" % (f[1], f[2]))
            elif k == "P":
                pending = "p:%s" % f[1]
            elif k == "C":
                pending = "F"
        if snap is not None:
            cur_dq = {}
            for (sid, key, ref, last, dq) in snap:
                cur_dq[sid] = dq
                if sid in prev_dq:
                    if prev_dq[sid] != dq:
                        q_ops.append("q:%d:%d" % (sid, dq))
                elif dq == 0:
                    q_ops.append("q:%d:0" % sid)
            prev_dq = cur_dq
            for sid, stv in sorted(parse_states(wtok.states).items()):
                if prev_state.get(sid, stv) != stv:
                    q_ops.append("s:%d:%d" % (sid, stv))
                prev_state[sid] = stv
        ops.extend(w_ops)
        ops.extend(q_ops)
        if pending:
            ops.append(pending)
        if snap is not None:
            ops.append("B")
            expect.append(canon_snapshot(snap))
        info.append((evs, snap, wtok))
    return "se %d %d %s" % (timeout, maxidle, " ".join(ops)), expect, info


def parse_w(wtok):
    body = wtok[2:-1]
    d = {}
    if body:
        for e in body.split(";"):
            f = [int(x) for x in e.split(":")]
            d[f[0]] = tuple(f[1:])
    return d


def oracles(tokens, timeout, maxidle, stats):
    """Implementation-only checks: the boolean form of the property evaluated on what the C
    code did.  -> (list of (tag, message), facts dict)"""
    bad = []
    owner = {}           # sid -> key (from N)
    live = set()
    ref = {}             # sid -> references counted from the +/- events
    appref = {}          # sid -> application references
    last = {}            # sid -> last_rx_tx as implied by X (hit), N and T events
    dq = {}              # sid -> delay queue empty (from the snapshots)
    order = []           # table iteration order of the previous snapshot
    tmo = (timeout if timeout > 0 else 300) * 1000
    facts = {"scan_frees": 0, "evictions": 0, "teardown_frees": 0, "sessions": 0,
             "lib_refs": 0, "app_refs": 0, "app_outstanding_at_free": 0, "explicit_free": False,
             "leaked_sessions": []}
    last_x = None
    last_x_now = None

    def idle(sid):
        return ref.get(sid, 0) == 0 and dq.get(sid, 1) == 1

    for evs, snap, btok, wtok in windows(tokens):
        now_p = None
        for t in evs:
            if t[0] == "P":
                now_p = int(t.split(":")[1])
        teardown = "C" in evs
        got_y = False
        evicted = None
        new_in_window = False
        pre_idle = [sid for sid in order if sid in live and idle(sid)]
        for t in evs:
            f = t.split(":")
            k = t[0]
            if k == "A":
                last_x = None
                last_x_now = int(f[2])
            elif k == "R":
                last[int(f[1])] = int(f[2])
            elif k == "X":
                last_x = int(f[1])
                last_x_now = int(f[2])
                got_y = False
                evicted = None
                new_in_window = False
                pre_idle = [sid for sid in order if sid in live and idle(sid)]
            elif k == "N":
                sid = int(f[1])
                owner[sid] = int(f[2])
                live.add(sid)
                ref[sid] = 0
                dq[sid] = 1
                last[sid] = last_x_now
                facts["sessions"] += 1
                new_in_window = True
                if last_x is not None and int(f[2]) != last_x:
                    bad.append(("new-key", "SESSION_NEW for peer %s while handling a datagram of peer %s"
                                % (f[2], last_x)))
                for o_sid in live:
                    if o_sid != sid and owner.get(o_sid) == int(f[2]):
                        bad.append(("dup-key", "second session %d created for peer %s (session %d exists)"
                                    % (sid, f[2], o_sid)))
                # eviction rule, both directions
                if maxidle > 0 and len(pre_idle) >= maxidle:
                    oldest = min(last.get(x, 0) for x in pre_idle)
                    if evicted is None:
                        bad.append(("no-evict", "%d idle sessions >= max_idle_sessions %d but none was "
                                    "reclaimed when peer %s arrived" % (len(pre_idle), maxidle, last_x)))
                    elif evicted not in pre_idle:
                        bad.append(("evict-wrong", "idle limit reached: session %d reclaimed although "
                                    "it is not idle" % evicted))
                    elif last.get(evicted, 0) != oldest:
                        bad.append(("evict-wrong", "idle limit reached: session %d (last activity %d) "
                                    "reclaimed, an older idle one exists (last activity %d)"
                                    % (evicted, last.get(evicted, 0), oldest)))
                elif evicted is not None:
                    bad.append(("evict-early", "session %d reclaimed on arrival of peer %s with %d idle "
                                "sessions, max_idle_sessions %d" % (evicted, last_x, len(pre_idle), maxidle)))
            elif k == "Y":
                sid = int(f[1])
                got_y = True
                if sid == 0:
                    bad.append(("null", "coap_endpoint_get_session returned NULL for peer %s" % last_x))
                elif sid not in live:
                    bad.append(("dead", "datagram of peer %s handed to released session %d" % (last_x, sid)))
                elif owner.get(sid) != last_x:
                    bad.append(("inject", "datagram of peer %s handled by session %d of peer %s"
                                % (last_x, sid, owner.get(sid))))
                else:
                    if not new_in_window:
                        for o_sid in live:
                            if o_sid < sid and owner.get(o_sid) == last_x:
                                bad.append(("inject", "peer %s has sessions %d and %d" % (last_x, o_sid, sid)))
                    last[sid] = last_x_now
            elif k == "H":
                key, sid = int(f[1]), int(f[2])
                if sid not in live or owner.get(sid) != key:
                    bad.append(("handler", "handler for peer %d ran on session %d (owner %s, live %s)"
                                % (key, sid, owner.get(sid), sid in live)))
            elif k == "D":
                sid = int(f[1])
                if sid not in live:
                    bad.append(("del-dead", "SESSION_DEL for session %d which does not exist" % sid))
                elif ref.get(sid, 0) > 0 and not teardown:
                    bad.append(("del-held", "SESSION_DEL for session %d which is still referenced "
                                "(%d references, %d by the application)"
                                % (sid, ref.get(sid, 0), appref.get(sid, 0))))
            elif k == "F":
                sid = int(f[1])
                r_, nq, nobs, nas, napp = (int(x) for x in f[2:7])
                dq_f = int(f[7]) if len(f) > 7 else 1
                # session->ref at that moment is 1 (coap_session_free holds itself) or 0; what counts
                # are the references taken and not dropped and the holders found in the structures
                if r_ > 1 or nq or nobs or nas or napp or ref.get(sid, 0) != 0:
                    bad.append(("freed-held", "session %d released while referenced: ref=%d queue=%d "
                                "observers=%d async=%d app=%d counted=%d"
                                % (sid, r_, nq, nobs, nas, napp, ref.get(sid, 0))))
                if teardown:
                    facts["teardown_frees"] += 1
                elif last_x is not None and not got_y and "X" in [e[0] for e in evs]:
                    facts["evictions"] += 1
                    if evicted is not None:
                        bad.append(("evict-two", "two sessions reclaimed for one new peer"))
                    evicted = sid
                    if dq_f == 0:
                        bad.append(("freed-dq", "session %d evicted with delayed messages queued" % sid))
                else:
                    facts["scan_frees"] += 1
                    if dq_f == 0:
                        bad.append(("freed-dq", "session %d released with delayed messages queued" % sid))
                    st_f = int(f[8]) if len(f) > 8 else 4
                    if now_p is not None and st_f != 0 and last.get(sid, 0) + tmo > now_p:
                        bad.append(("early", "session %d reclaimed at %d, last activity %d, timeout %d ticks"
                                    % (sid, now_p, last.get(sid, 0), tmo)))
                live.discard(sid)
            elif k == "+":
                sid = int(f[1])
                ref[sid] = ref.get(sid, 0) + 1
                if f[2] == "1":
                    appref[sid] = appref.get(sid, 0) + 1
                    facts["app_refs"] += 1
                else:
                    facts["lib_refs"] += 1
            elif k == "-":
                sid = int(f[1])
                ref[sid] = ref.get(sid, 0) - 1
                if f[2] == "1":
                    appref[sid] = appref.get(sid, 0) - 1
                if ref[sid] < 0:
                    bad.append(("underflow", "session %d released more often than referenced" % sid))
            elif k == "T":
                sid = int(f[1])
                last[sid] = int(f[2])
            elif k == "U":
                bad.append(("uaf", "released session %s used: %s" % (f[2] if len(f) > 2 else "?", f[1])))
            elif k == "C":
                facts["explicit_free"] = True
                out = [sid for sid in live if appref.get(sid, 0) > 0]
                facts["app_outstanding_at_free"] = len(out)
                facts["leaked_sessions"] = sorted(out)
                for sid in sorted(live):
                    if sid not in out:
                        bad.append(("teardown", "session %d not released by coap_free_context" % sid))
        if snap is None:
            continue
        w = parse_w(wtok)
        states = parse_states(wtok.states)
        # coap_session_disconnected drops the observations and the queued messages of the session
        # (only the application and async entries may still hold it)
        for t in evs:
            if t.startswith("K:"):
                ksid = int(t.split(":")[1])
                cnt = w.get(ksid, (0, 0, 0, 0))
                if ksid in live and (cnt[0] or cnt[1]):
                    bad.append(("disc-left", "after coap_session_disconnected session %d is still "
                                "held by %d queued messages and %d observations" % (ksid, cnt[0], cnt[1])))
        keys = {}
        order = []
        for (sid, key, r_, last_, dq_) in snap:
            order.append(sid)
            dq[sid] = dq_
            cnt = w.get(sid, (0, 0, 0, 0))
            if r_ != sum(cnt):
                bad.append(("refcount", "session %d: ref=%d but holders queue=%d observers=%d async=%d "
                            "app=%d" % ((sid, r_) + tuple(cnt))))
            if r_ != ref.get(sid, 0):
                bad.append(("refcount", "session %d: ref=%d but %d references were taken and not "
                            "dropped" % (sid, r_, ref.get(sid, 0))))
            if key in keys:
                bad.append(("dup-key", "peer %d has two sessions: %d and %d" % (key, keys[key], sid)))
            keys[key] = sid
            if sid not in live:
                bad.append(("zombie", "released session %d is still in the endpoint table" % sid))
            if now_p is not None and r_ == 0 and dq_ == 1 and states.get(sid, 4) == 0:
                bad.append(("not-reclaimed", "disconnected session %d (state NONE, unreferenced) still "
                            "present after the scan at %d" % (sid, now_p)))
            if now_p is not None and r_ == 0 and dq_ == 1 and last_ + tmo <= now_p:
                bad.append(("not-reclaimed", "session %d idle since %d still present after the scan at "
                            "%d (timeout %d ticks)" % (sid, last_, now_p, tmo)))
        if not teardown and "C" not in evs:
            for sid in live:
                if sid not in order and not facts["explicit_free"]:
                    bad.append(("lost", "session %d neither released nor in the endpoint table" % sid))
    for k in ("uaf_writes", "bad_frees", "uaf_marks"):
        if int(stats.get(k, "0")):
            bad.append((k, "%s=%s" % (k, stats[k])))
    return bad, facts


def event_log_tokens(tokens):
    """the N/D/F/R projection of the implementation trace, for the extracted monitor (selog)"""
    out = []
    last_x = None
    for t in tokens:
        k = t[0]
        f = t.split(":")
        if k == "X":
            last_x = f[1]
        elif k == "Y":
            out.append("R:%s:%s" % (last_x, f[1]))
        elif k == "N":
            out.append("N:%s:%s" % (f[1], f[2]))
        elif k == "D":
            out.append("D:%s" % f[1])
        elif k == "F":
            out.append("F:%s" % f[1])
    return out


def first_diff(a, b):
    n = min(len(a), len(b))
    for i in range(n):
        if a[i] != b[i]:
            return i
    return n if len(a) != len(b) else -1


# ---------------------------------------------------------------------------- client histories
def c_parse_snapshot(tok):
    body = tok[2:-1]
    if not body:
        return []
    return [tuple(int(x) for x in e.split(":")) for e in body.split(";")]


def c_windows(tokens):
    out, cur, i = [], [], 0
    while i < len(tokens):
        t = tokens[i]
        if t.startswith("B["):
            w = "W[]"
            if i + 1 < len(tokens) and tokens[i + 1].startswith("W["):
                w = tokens[i + 1]
                i += 1
            out.append((cur, c_parse_snapshot(t), w))
            cur = []
        else:
            cur.append(t)
        i += 1
    if cur:
        out.append((cur, None, "W[]"))
    return out


def c_translate(tokens):
    """client trace -> (model line 'sc ...', expected tokens as a list of per-window lists)"""
    ops, expect = [], []
    for evs, snap, wtok in c_windows(tokens):
        teardown = "C" in evs
        w_exp = []
        for t in evs:
            k, f = t[0], t.split(":")
            if t.startswith("NC:"):
                ops.append("n")
                w_exp.append("CN:%s" % f[1])
            elif k == "F":
                w_exp.append("CF:%s" % f[1])
            elif k in "+-" and len(f) == 3:
                if teardown and f[2] == "2":
                    continue
                ops.append(t)
            elif k == "C":
                ops.append("F")
        if teardown:
            w_exp = sorted(w_exp)      # order of releases inside coap_free_context is not compared
        expect.append(w_exp)
        if snap is not None:
            ops.append("B")
            expect.append(["B[" + ";".join("%d:%d" % e for e in sorted(snap)) + "]"])
    return "sc " + " ".join(ops), expect


def c_split_model(tokens_str):
    """model output -> per-window lists comparable with c_translate's expectation"""
    out, cur = [], []
    for t in tokens_str.split():
        if t.startswith("B["):
            out.append(cur)
            out.append([t])
            cur = []
        else:
            cur.append(t)
    if cur:
        out.append(cur)
    return out


def c_oracles(tokens, stats):
    bad = []
    live = set()
    ref = {}
    appref = {}
    facts = {"sessions": 0, "freed_on_release": 0, "freed_at_teardown": 0, "lib_refs": 0,
             "extra_app_refs_at_free": 0, "explicit_free": False, "left": []}
    for evs, snap, wtok in c_windows(tokens):
        teardown = "C" in evs
        for t in evs:
            k, f = t[0], t.split(":")
            if t.startswith("NC:"):
                sid = int(f[1])
                live.add(sid)
                ref[sid] = 1
                appref[sid] = 1
                facts["sessions"] += 1
            elif k == "+":
                sid = int(f[1])
                if sid not in live:
                    bad.append(("uaf", "reference taken on released session %d" % sid))
                ref[sid] = ref.get(sid, 0) + 1
                if f[2] == "1":
                    appref[sid] = appref.get(sid, 0) + 1
                else:
                    facts["lib_refs"] += 1
            elif k == "-":
                sid = int(f[1])
                if sid not in live:
                    bad.append(("uaf", "reference dropped on released session %d" % sid))
                ref[sid] = ref.get(sid, 0) - 1
                if f[2] == "1":
                    appref[sid] = appref.get(sid, 0) - 1
            elif k == "F":
                sid = int(f[1])
                r_, nq, nobs, nas, napp = (int(x) for x in f[2:7])
                if teardown:
                    facts["freed_at_teardown"] += 1
                    if r_ > 1 or nq or napp > 1:
                        bad.append(("freed-held", "client session %d released at teardown: ref=%d "
                                    "queue=%d app=%d" % (sid, r_, nq, napp)))
                else:
                    facts["freed_on_release"] += 1
                    if r_ > 1 or nq or nobs or nas or napp or ref.get(sid, 0) != 0:
                        bad.append(("freed-held", "client session %d released while referenced: ref=%d "
                                    "queue=%d app=%d counted=%d" % (sid, r_, nq, napp, ref.get(sid, 0))))
                live.discard(sid)
            elif k == "H":
                sid = int(f[2])
                if sid not in live:
                    bad.append(("handler", "handler ran on released client session %d" % sid))
            elif k == "U":
                bad.append(("uaf", "released session %s used: %s" % (f[2] if len(f) > 2 else "?", f[1])))
            elif k == "G":
                # several live sessions may go to the same peer (an older one kept by a queued
                # message): any of them is a correct answer, none is not
                if int(f[3]) == 0 or int(f[3]) not in live:
                    bad.append(("get-by-peer", "after a refused duplicate coap_session_get_by_peer finds "
                                "session %s for the peer of the existing client session %s" % (f[3], f[2])))
                facts["dups"] = facts.get("dups", 0) + 1
            elif k == "C":
                facts["explicit_free"] = True
                left = sorted(s for s in live if appref.get(s, 0) > 1)
                facts["left"] = left
                facts["extra_app_refs_at_free"] = len(left)
                for sid in sorted(live):
                    if sid not in left:
                        bad.append(("teardown", "client session %d not released by coap_free_context" % sid))
        if snap is None:
            continue
        w = {}
        body = wtok[2:-1]
        if body:
            for e in body.split(";"):
                g = [int(x) for x in e.split(":")]
                w[g[0]] = (g[1], g[2])
        seen = set()
        for (sid, r_) in snap:
            seen.add(sid)
            nq, napp = w.get(sid, (0, 0))
            if r_ != nq + napp:
                bad.append(("refcount", "client session %d: ref=%d but queue=%d app=%d" % (sid, r_, nq, napp)))
            if r_ != ref.get(sid, 0):
                bad.append(("refcount", "client session %d: ref=%d but %d references counted"
                            % (sid, r_, ref.get(sid, 0))))
            if r_ == 0:
                bad.append(("idle-client", "client session %d has ref 0 and still exists" % sid))
            if sid not in live:
                bad.append(("zombie", "released client session %d still in context->sessions" % sid))
        if not facts["explicit_free"]:
            for sid in live:
                if sid not in seen:
                    bad.append(("lost", "client session %d neither released nor in the table" % sid))
    for k in ("uaf_writes", "bad_frees", "uaf_marks"):
        if int(stats.get(k, "0")):
            bad.append((k, "%s=%s" % (k, stats[k])))
    return bad, facts

#!/usr/bin/env python3
"""Prints the prompt given to an independent sub-agent that seeds a property-breaking change
(it receives only the property text and its own scratch worktree of /repo)."""
import json, sys
pid, wt = sys.argv[1], sys.argv[2]
n = int(sys.argv[3]) if len(sys.argv) > 3 else 3
wide = len(sys.argv) > 4 and sys.argv[4] == "wide"
WIDE = """
Site selection for this round: at least two of the changes must sit OUTSIDE the functions named under anchors.mechanism of the property - in callers, helpers, other transports or configuration paths, rarely used API variants, error/cleanup paths, or code that only runs with a non-default setting (block modes, session limits, keepalive, multicast, proxy, extended tokens, Q-Block, persistence options, logging level) - but must still make the property's statement false.
""" if wide else ""
prop = [json.loads(l) for l in open("/verif/properties.jsonl") if json.loads(l)["id"] == pid][0]
print(f"""You are helping to test a verification effort by seeding realistic bugs. You have your own scratch git worktree of the C library obgm/libcoap (CoAP protocol implementation) at {wt} . Work ONLY inside {wt} (never touch /repo or /verif, and do not read anything under /verif).

Here is a semantic property that the library is supposed to satisfy:

{json.dumps(prop, indent=1)}

Task: produce {n} DIFFERENT, independent changes to the library source (each relative to the clean HEAD of the worktree, each in a different mechanism/code site if possible) such that each change
  (a) still compiles, and the existing unit test suite still passes completely with it:
        cd {wt} && cmake -G Ninja -B _build -DENABLE_TESTS=ON >/dev/null && cmake --build _build >/dev/null && ./_build/testdriver | tail -5      (176 tests, all must pass)
  (b) BREAKS the property above — i.e. after the change there is a concrete input / operation sequence / schedule / history for which the property's statement is false;
  (c) looks like a realistic mistake or plausible refactoring slip a maintainer could make (an off-by-one at an encoding boundary, a dropped or weakened check, a wrong state update on a rare path, a changed order of two steps, two sites that are each fine alone but wrong together) — NOT something ordinary use would expose at once (a change that breaks every message is useless). Prefer changes that need something specific to manifest: a particular boundary value, an unusual but legal input, a multi-step sequence, a particular interleaving or fault point.
  (d) comes with a demonstration: a small standalone C program (linking against the library built in your worktree: {wt}/_build/libcoap-3.a plus -lgnutls; include paths {wt}/include and {wt}/_build/include and {wt}/_build; you may include internal headers via "coap3/coap_libcoap_build.h" after adding -I{wt}/src if needed; call coap_startup() first; the library is built with thread-safe locking so use the public API) that exits 0 / prints PASS on the unchanged library and exits non-zero / prints FAIL with the change applied. Verify both directions yourself.

{WIDE}
Deliver under {wt}/seed_out/ (create it; it is not part of the library):
  m1/patch.diff (output of `git diff` for change 1 against clean HEAD, source files only), m1/demo.c, m1/build_and_run.sh (builds the demo against the worktree's library and runs it), m1/README.md (which part of the property it breaks, what specific input/sequence is needed for it to manifest, what you ran and observed with and without the change); likewise m2/, m3/ ...
After producing each patch, restore the source tree (`git checkout -- src include`) before starting the next one, so every patch applies to the clean HEAD on its own. Leave the worktree's source clean at the end (only seed_out/ and _build/ extra).

Notes: the pinned tree is built with GnuTLS, TCP, WebSockets, OSCORE, Q-Block, async, observe-persist, epoll; the build takes ~20 s. No network access. Keep your final answer short: list the {n} changes with one line each and confirm the pass/fail checks you ran.""")

"""Generators for the Block family (C09): option values, block size selection, slices and
received-range sequences, aimed at the case boundaries of the proofs (value length 0/1/2/3,
NUM = 2^20-1, SZX 6/7, length = k*chunk -1/0/+1, the COAP_RBLOCK_CNT-1 = 3 range limit)."""
import itertools

SZX = [0, 1, 2, 3, 4, 5, 6]
BND_NUM = [0, 1, 2, 15, 16, 17, 255, 256, 257, 4095, 4096, 4097, 65535, 65536, 65537, 1048574,
           1048575]


def chunk(s):
    return 1 << (s + 4)


def opt_cases(r, n_random, exhaustive_upto=0, stride_all=False):
    out = []
    for num in BND_NUM:
        for m in (0, 1):
            for s in SZX:
                out.append("blkopt %d %d %d" % (num, m, s))
    for num in range(exhaustive_upto):
        for m in (0, 1):
            for s in SZX:
                out.append("blkopt %d %d %d" % (num, m, s))
    if stride_all:
        for num in range(0, 1 << 20, int(stride_all)):
            h = (num * 2654435761) >> 7
            out.append("blkopt %d %d %d" % (num, h & 1, (h >> 1) % 7))
    for _ in range(n_random):
        out.append("blkopt %d %d %d" % (r.randrange(1 << 20), r.randrange(2), r.randrange(7)))
    return out


def dec_cases(r, n_random, three_byte_stride=0):
    out = ["blkdec -"]
    out += ["blkdec %02x" % a for a in range(256)]
    out += ["blkdec %04x" % a for a in range(65536)]
    for _ in range(n_random):
        ln = r.choice([3, 3, 3, 4, 4, 5])
        b = bytes(r.randrange(256) for _ in range(ln))
        if r.random() < 0.3:
            b = bytes([r.choice([0, 0x0f, 0x10, 0xff])]) + b[1:]
        out.append("blkdec " + b.hex())
    if three_byte_stride:
        for v in range(0, 1 << 24, three_byte_stride):
            out.append("blkdec %06x" % v)
    return out


def setup_cases(r, n_random):
    out = []
    avs = sorted(set([0, 1, 15, 16, 17] + [chunk(s) + d for s in SZX for d in (-1, 0, 1)] +
                     [1100, 2000, 70000]))
    for num in (0, 1, 3):
        for s in SZX:
            start = num * chunk(s)
            for av in avs:
                for rest in sorted(set([0, 1, 15, 16, 17, chunk(s) - 1, chunk(s), chunk(s) + 1,
                                        max(av - 1, 0), av, av + 1, 5 * chunk(s)])):
                    out.append("blksetup %d %d %d %d" % (num, s, av, start + rest))
    for _ in range(n_random):
        s = r.randrange(7)
        num = r.randrange(6)
        av = r.choice([r.randrange(0, 40), r.randrange(0, 1200), r.randrange(0, 70000)])
        out.append("blksetup %d %d %d %d" % (num, s, av, num * chunk(s) + r.randrange(0, 5000)))
    return out


def fls_cases(r, upto):
    out = ["blkfls %d" % a for a in range(upto)]
    for e in range(4, 62):
        for d in (-1, 0, 1):
            out.append("blkfls %d" % ((1 << e) + d))
    return out


def slice_cases(r, n_random):
    out = []
    for s in SZX:
        c = chunk(s)
        for k in range(0, 4):
            for d in (-1, 0, 1):
                ln = k * c + d
                if ln < 0:
                    continue
                for blk in range(0, k + 2):
                    out.append("blkslice %s %d %d" % ("@%d,%d" % (ln, 3 + s) if ln else "-", s, blk))
    for _ in range(n_random):
        s = r.randrange(7)
        ln = r.choice([r.randrange(1, 5000), r.randrange(1, 66000)])
        nb = (ln + chunk(s) - 1) // chunk(s)
        blk = r.choice([0, nb - 1, nb, nb + 1, r.randrange(0, nb + 1)])
        out.append("blkslice @%d,%d %d %d" % (ln, r.randrange(200), s, max(blk, 0)))
    return out


def rb_exhaustive(alpha, maxlen):
    out = []
    for ln in range(1, maxlen + 1):
        for seq in itertools.product(range(alpha), repeat=ln):
            out.append("blkrb " + " ".join(map(str, seq)))
    return out


def rb_random(r, n):
    out = []
    for _ in range(n):
        hi = r.choice([6, 10, 20, 40, 1000, 1048575])
        ln = r.randrange(1, 40)
        seq = []
        for _ in range(ln):
            x = r.random()
            if seq and x < 0.5:
                seq.append(max(0, min(hi, r.choice(seq) + r.choice([-2, -1, 0, 1, 1, 2]))))
            elif x < 0.6:
                seq.append(r.choice([0, hi]))
            else:
                seq.append(r.randrange(hi + 1))
        if r.random() < 0.3:
            # a permutation of 0..n-1: ends with everything in
            n2 = r.randrange(2, 25)
            seq = list(range(n2))
            r.shuffle(seq)
        out.append("blkrb " + " ".join(map(str, seq)))
    return out


# ------------------------------------------------------------------ end-to-end transfers
def e2e_line(d, ln, seed, typ, cli, srv, app, sc, ss, mtu, sched=""):
    return ("e2e %s %d %d %d %d %d %d %d %d %d %d %s" %
            (d, ln, seed, typ, cli, srv, app, sc, ss, mtu, mtu, sched)).rstrip()


def e2e_boundary(r, ks=(1, 2, 3), full=False):
    """lossless transfers with length = k*chunk -1/0/+1 for every block size 16..1024; the block
    size is requested in turn by the client context, the server context, the client
    application's preset option, or is forced by the path MTU"""
    out = []
    i = 0
    for s in SZX:
        c = chunk(s)
        for k in ks:
            for d in (-1, 0, 1):
                ln = k * c + d
                for dr in ("b1", "b2"):
                    who = i % 3
                    i += 1
                    cli, srv, app = 7, 7, 7
                    if who == 0:
                        cli = s
                    elif who == 1:
                        srv = s
                    else:
                        app = s
                    variants = [(i % 2, (i >> 1) % 2, (i >> 2) % 2)]
                    if full:
                        variants = [(t, a, b) for t in (0, 1) for a in (0, 1) for b in (0, 1)]
                    for (typ, sc, ss) in variants:
                        out.append(e2e_line(dr, ln, r.randrange(250), typ, cli, srv, app, sc, ss, 0))
    return out


def e2e_small_and_large(r, n_large):
    out = []
    for ln in (0, 1, 15, 16, 17, 1023, 1024, 1025):
        for dr in ("b1", "b2"):
            for typ in (0, 1):
                out.append(e2e_line(dr, ln, r.randrange(250), typ, 7, 7, 7, 1, 1, 0))
    for _ in range(n_large):
        ln = r.choice([r.randrange(1, 66000), 65535, 65536, r.randrange(1, 9000)])
        s = r.randrange(3, 7) if ln > 20000 else r.randrange(7)
        out.append(e2e_line(r.choice(["b1", "b2"]), ln, r.randrange(250), r.randrange(2),
                            r.choice([7, s]), r.choice([7, s]), r.choice([7, 7, s]),
                            r.randrange(2), r.randrange(2), r.choice([0, 0, 1500, 300])))
    return out


def e2e_mtu(r):
    """the path MTU decides the block size: 72 (smallest that can carry a 16-byte block next to
    the reserved Echo option) .. 1500"""
    out = []
    for mtu in (64, 71, 72, 73, 80, 88, 100, 128, 160, 200, 300, 600, 1151, 1152, 1153, 1500):
        for dr in ("b1", "b2"):
            ln = r.choice([40, 200, 1000, 2500])
            out.append(e2e_line(dr, ln, r.randrange(250), r.randrange(2), 7, 7, 7, 1, 1, mtu))
            out.append(e2e_line(dr, ln + 1, r.randrange(250), r.randrange(2), 7, 7, 7, 0, 0, mtu))
    return out


def e2e_sched_exhaustive(r, alphabet, n, bodies):
    import itertools
    out = []
    for (dr, ln, s, typ, single) in bodies:
        for acts in itertools.product(alphabet, repeat=n):
            out.append(e2e_line(dr, ln, 77, typ, s, 7, 7, single, single, 0, "".join(acts)))
    return out


def e2e_sched_random(r, n):
    out = []
    for _ in range(n):
        s = r.randrange(7)
        c = chunk(s)
        k = r.randrange(1, 7)
        ln = max(1, k * c + r.choice([-1, 0, 1, r.randrange(-c + 1, c)]))
        cli, srv, app = 7, 7, 7
        w = r.randrange(4)
        if w == 0:
            cli = s
        elif w == 1:
            srv = s
        elif w == 2:
            app = s
        else:
            cli = s
            srv = r.randrange(7)
        sched = "".join(r.choice("....x2rh") for _ in range(r.randrange(1, 16)))
        out.append(e2e_line(r.choice(["b1", "b2"]), ln, r.randrange(250), r.randrange(2), cli, srv, app,
                            r.randrange(2), r.randrange(2), r.choice([0, 0, 0, 128, 300, 1500]), sched))
    return out


# ------------------------------------------------------------------ scripted peer
def peer_cases(r, n, hostile=0.35):
    """Block1 requests into the real server / Block2 responses into the real client, in any order,
    with duplicates, gaps, interleaved Request-Tags / ETags and (hostile share) wrong sizes, wrong
    More bits, changing block sizes, wrong or absent Size options, numbers beyond the body.
    -> (driver line, model line)"""
    out = []
    for _ in range(n):
        d = r.choice(["b1", "b2"])
        s = r.choice([0, 0, 1, 1, 2, 3])
        c = chunk(s)
        k = r.randrange(1, 8)
        ln = max(1, k * c + r.choice([-1, 0, 1, r.randrange(-c + 1, c)]))
        nb = (ln + c - 1) // c
        cfg = r.choice([7, 7, 7, 1, 2]) if d == "b1" else 7
        tags = ["-"] if r.random() < 0.3 else [str(r.randrange(1, 4))]
        if r.random() < 0.4:
            tags.append(str(r.randrange(4, 7)))
        if d == "b1" and r.random() < 0.3:
            # a transfer to the second resource, with the same or another Request-Tag
            tags.append(r.choice([tags[0], str(r.randrange(4, 7)), ""]) + "u")
            tags = tags[-2:] if r.random() < 0.5 else tags
        sizeopt = r.choice(["-", str(ln), str(ln)])
        items = []
        order = list(range(nb))
        if r.random() < 0.6:
            r.shuffle(order)
        seq = []
        for t in tags:
            seq += [(t, b) for b in order]
        if len(tags) > 1:
            x = r.random()
            if x < 0.4:
                r.shuffle(seq)                       # two transfers at the same time
            elif x < 0.8:
                # the first one is abandoned part-way, then the second one runs
                cut = r.randrange(1, max(2, nb))
                seq = [(tags[0], b) for b in order[:cut]] + [(tags[1], b) for b in order]
                if r.random() < 0.3:
                    seq += [(tags[0], b) for b in order[cut:]]
        # duplicates and gaps
        seq2 = []
        for it in seq:
            x = r.random()
            if x < 0.08:
                continue
            seq2.append(it)
            if x > 0.85:
                seq2.append(it)
        if r.random() < 0.3 and seq2:
            seq2 += [r.choice(seq2) for _ in range(r.randrange(1, 4))]
        for (t, b) in seq2[:40]:
            off = b * c
            l = min(c, ln - off)
            m = 1 if off + c < ln else 0
            sz, ss, num = sizeopt, s, b
            if r.random() < hostile:
                h = r.randrange(8)
                if h == 0:
                    l = max(0, l + r.choice([-1, 1, -c // 2, 5]))
                elif h == 1:
                    m = 1 - m
                elif h == 2:
                    sz = r.choice(["-", str(ln - 1), str(ln + 7), "0", str(off + l)])
                elif h == 3 and s > 0:
                    ss = s - 1
                    num = b * 2 + r.randrange(2)
                    off = num * chunk(ss)
                    l = min(chunk(ss), max(0, ln - off))
                    m = 1 if off + chunk(ss) < ln else 0
                elif h == 4 and b == 0 and s < 6:
                    ss = s + 1
                    l = min(chunk(ss), ln)
                    m = 1 if chunk(ss) < ln else 0
                elif h == 5:
                    num = nb + r.randrange(3)
                    off = min(ln, num * c)
                    l = min(c, ln - off)
                elif h == 6:
                    off = max(0, off + r.choice([-3, 3, c]))
                else:
                    l = 0
            items.append("%d/%d/%d/%s/%d/%d/%s" % (num, m, ss, sz, off, l, t))
        if not items:
            continue
        seed = r.randrange(250)
        drv = "peer %s %d %d %d 1 %s" % (d, ln, seed, cfg, " ".join(items))
        mdl = "blkpeer %s %d %d %d %s" % (d, ln, seed, 0 if cfg == 7 else cfg, " ".join(items))
        out.append((drv, mdl))
    return out


def e2e_two_uploads(r, n):
    """two uploads to ONE resource on one session (bodies from different byte streams):
    at the same time, or the first abandoned part-way (NON + a dropped block) and then the second;
    schedules use loss and reordering only"""
    out = []
    for i in range(n):
        s = r.choice([7, 7, 3, 4, 5])
        c = 1024 if s == 7 else chunk(s)
        la = r.randrange(2, 6) * c + r.choice([-1, 0, 1, r.randrange(-c + 1, c)])
        lb = r.randrange(2, 6) * c + r.choice([-1, 0, 1, r.randrange(-c + 1, c)])
        typ = r.randrange(2)
        mode = i % 3
        if mode == 0:
            sched, start = ".", 0                       # concurrent, no loss
        elif mode == 1:
            sched = "".join(r.choice("....xh") for _ in range(r.randrange(1, 14)))
            start = r.choice([0, 0, 2, 4])
        else:
            # abandon A: NON, drop one of its block messages, start B right after
            typ = 1
            k = 2 * r.randrange(1, 3)
            sched, start = "." * k + "x", k + 1
        out.append("e2e b11 %d %d %d %d %d 7 1 1 0 0 %s %d %d" %
                   (la, r.randrange(250), typ, s if r.random() < 0.5 else 7, s if r.random() < 0.5 else 7,
                    sched, lb, start))
    return out


def e2e_slow(r, n):
    """slow but successful CON transfers: the first 3 or 4 transmissions of every request are lost
    (MAX_RETRANSMIT is 4), the next one and all responses arrive; with 4 and more blocks the
    transfer lasts longer than MAX_TRANSMIT_WAIT (93 s) although no exchange is abandoned, so the
    lg_xmit / lg_srcv / lg_crcv expiry timers must be refreshed by progress"""
    out = []
    for i in range(n):
        s = r.choice([2, 3, 4, 5, 6])
        c = chunk(s)
        k = r.randrange(4, 8)
        ln = k * c + r.choice([-1, 0, 1, r.randrange(-c + 1, c)])
        nreq = (ln + c - 1) // c + 1
        sched = ""
        for _ in range(nreq):
            sched += "x" * r.choice([3, 4, 4, 4]) + ".."
        d = "b1s" if i % 2 == 0 else "b2s"
        out.append(e2e_line(d, ln, r.randrange(250), 0, s, 7, 7, r.randrange(2), r.randrange(2), 0, sched))
    return out


def e2e_all_lengths(r, hi, szxs):
    """every body length 0..hi for the given block sizes, no loss, both directions"""
    out = []
    i = 0
    for s in szxs:
        for ln in range(0, hi + 1):
            i += 1
            d = "b1" if i % 2 else "b2"
            out.append(e2e_line(d, ln, (ln * 7 + s) % 250, i % 4 // 2, s, 7, 7, 1, 1, 0))
            if ln % 16 in (0, 1, 15):
                out.append(e2e_line("b2" if d == "b1" else "b1", ln, (ln * 5 + s) % 250, (i + 1) % 2,
                                    7, s, 7, i % 2, i % 2, 0))
    return out


def e2e_wide(r, n):
    """the transfer matrix beyond plain GET/PUT with short tokens: RFC 8974 extended tokens (9..32
    bytes, 13 = first length with an extension byte), downloads asked for by FETCH / POST with a
    request payload, both delivery modes, CON/NON, with and without faults"""
    out = []
    for i in range(n):
        s = r.choice([0, 1, 2, 3, 4])
        c = chunk(s)
        ln = r.randrange(2, 7) * c + r.choice([-1, 0, 1, r.randrange(-c + 1, c)])
        d = r.choice(["b1", "b2", "b2"])
        sched = "." if i % 3 else "".join(r.choice("....x2rh") for _ in range(r.randrange(1, 12)))
        opts = []
        if r.random() < 0.7:
            opts.append("tok=%d" % r.choice([9, 12, 13, 13, 14, 20, 32]))
        if d == "b2" and r.random() < 0.5:
            opts.append("meth=%s" % r.choice(["fetch", "post"]))
            opts.append("rq=%d" % r.choice([1, 5, 13, 40]))
        if not opts:
            opts.append("tok=13")
        cli, srv, app = (s, 7, 7) if d == "b1" else (7, 7, s)
        out.append(e2e_line(d, ln, r.randrange(250), r.randrange(2), cli, srv, app, r.randrange(2), 1, 0, sched)
                   + " " + " ".join(opts))
    return out


def e2e_two_downloads(r, n):
    """two overlapping GETs on one session to ONE resource that differ only in the Uri-Query (the
    second has none, or ?v=2): the server keeps one stored body per (resource, query)"""
    out = []
    for i in range(n):
        s = r.choice([0, 1, 2, 3])
        c = chunk(s)
        la = r.randrange(2, 7) * c + r.choice([-1, 0, 1, r.randrange(-c + 1, c)])
        lb = r.randrange(2, 7) * c + r.choice([-1, 0, 1, r.randrange(-c + 1, c)])
        sched = "." if i % 3 else "".join(r.choice(".....xh") for _ in range(r.randrange(1, 12)))
        start = r.choice([0, 0, 2, 3, 4, 6])
        opts = ["q2=%d" % r.choice([0, 0, 2])]
        if r.random() < 0.6:
            opts.append("nort=1")        # COAP_BLOCK_NO_PREEMPTIVE_RTAG: only the query tells them apart
        if r.random() < 0.3:
            opts.append("tok=%d" % r.choice([13, 20]))
        out.append("e2e b22 %d %d %d 7 7 %d %d 1 0 0 %s %d %d %s" %
                   (la, r.randrange(250), r.randrange(2), s, r.randrange(2), sched, lb, start, " ".join(opts)))
    return out


def peer_g2_cases(r, n):
    """raw Block2 GETs into the real server: one resource, queries none / v=1 / v=2 / v=3 (one body
    each), transfers interleaved block by block, restarted, continued without a stored body"""
    out = []
    for _ in range(n):
        s = r.choice([0, 0, 1, 2])
        c = chunk(s)
        ln = r.randrange(2, 7) * c + r.choice([-1, 0, 1, r.randrange(-c + 1, c)])
        nb = (ln + c - 1) // c
        qs = r.sample(["-", "1", "2", "3"], r.choice([1, 2, 2, 3]))
        pos = {q: 0 for q in qs}
        items = []
        for _ in range(r.randrange(2, 30)):
            q = r.choice(qs)
            x = r.random()
            if x < 0.1:
                pos[q] = 0                      # starts over
            elif x < 0.15:
                pos[q] = r.randrange(nb + 1)    # random access
            elif x < 0.22:
                pos[q] = r.choice([nb, nb + 1, nb + 7, 1000, 1048575])   # beyond the end of the body
            items.append("%d/%d/%s" % (pos[q], s, q))
            pos[q] = pos[q] + 1 if pos[q] + 1 < nb else 0
        out.append("peer g2 %d %d %d %s" % (ln, r.randrange(250), r.choice([7, 7, s]), " ".join(items)))
    return out


def peer_reject_cases(r, n):
    """the server application turns the first upload down (4.01, 4.03; 4.01 + Echo) and a second
    upload of ANOTHER body follows to the same resource, under the same Request-Tag (or none; with
    Echo - where the completed lg_srcv is kept for the client's retry - under a new tag)"""
    out = []
    for _ in range(n):
        s = r.choice([0, 1, 2])
        c = chunk(s)
        ln = r.randrange(2, 6) * c + r.choice([-1, 0, 1, r.randrange(-c + 1, c)])
        nb = (ln + c - 1) // c
        mode = r.choice([3, 3, 7, 5])
        t1 = r.choice(["-", "4", "9"])
        t2 = t1 if mode != 5 else ("8" if t1 != "8" else "7")
        if mode == 5 and t1 == "-":
            t1, t2 = "4", "8"
        items = []
        for (tag, bidx) in ((t1, 11), (t2, 12), (t2, 13)):
            order = list(range(nb))
            if r.random() < 0.4:
                r.shuffle(order)
            for b in order:
                off = b * c
                l = min(c, ln - off)
                items.append("%d/%d/%d/%s/%d/%d/%s/%d" % (b, 1 if off + c < ln else 0, s, ln, off, l, tag, bidx))
        seed = r.randrange(250)
        out.append(("peer b1 %d %d 7 %d %s" % (ln, seed, mode, " ".join(items)),
                    "blkpeer b1 %d %d 0 %s" % (ln, seed, " ".join(items))))
    return out

#!/usr/bin/env python3
"""Replaces the text between the GENERATED markers of DESIGN.md section 10 by tools/status_md.py's
output."""
import os, subprocess, sys
R = os.path.dirname(os.path.dirname(os.path.abspath(__file__)))
p = os.path.join(R, "DESIGN.md")
s = open(p).read()
a, b = "<!-- GENERATED:status begin -->", "<!-- GENERATED:status end -->"
out = subprocess.run([sys.executable, os.path.join(R, "tools", "status_md.py")], capture_output=True, text=True).stdout
i, j = s.index(a), s.index(b)
s = s[:i + len(a)] + "\n" + out + s[j:]
open(p, "w").write(s)
print("DESIGN.md section 10 tables regenerated")

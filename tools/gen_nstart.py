"""C08 case generator: bursts of CON/NON submissions on 1..3 sessions with a scripted peer.

A small simulator of the (repaired) session machine steers the choice of events: ACK / RST /
timer / token events are aimed at messages that are in flight right now, at NONs that were sent,
at messages still held and at unknown ids; duplicates of held message ids exercise the refusal.
The simulator is used for steering only - verdicts come from the extracted Coq model and the
extracted history checker.

Case line:  ns <variant> <nsess> <nstart,maxrt,est0,udp>*nsess <op>*      (see ocaml/d_nstart.ml)
"""


class Sess:
    def __init__(self, nstart, maxrt, est0, client=True):
        self.nstart, self.maxrt, self.est, self.open = nstart, maxrt, bool(est0), True
        self.client = client
        self.mc_pending = False   # a delayed multicast response waits in the send queue
        self.hooks = {}           # mid -> (newmid, newtok): resubmitted by the nack handler
        self.pings = 0            # keepalive pings the library has sent
        self.observed = False     # the peer observes /r on this (server-side) session
        self.notes = 0            # NON notifications sent (the 6th in a row would be a CON)
        self.act = 0
        self.dq = []          # (con, mid, tok, cnt)
        self.sq = []          # (con, mid, tok, cnt)
        self.sent_non = []    # mids of NONs that went out
        self.sent = set()     # every mid that was on the wire
        self.finished = []    # mids of CONs that were acknowledged / reset / given up
        self.used = set()

    def drain(self):
        self.est = True
        while self.dq:
            q = self.dq[0]
            if q[0]:
                if self.act >= self.nstart:
                    break
                self.act += 1
                self.sq.append(q)
            else:
                self.sent_non.append(q[1])
            self.sent.add(q[1])
            self.dq.pop(0)

    def dec_drain(self):
        if self.act:
            self.act -= 1
            if self.est:
                self.drain()

    def remove(self, mid):
        for i, q in enumerate(self.sq):
            if q[1] == mid:
                return self.sq.pop(i)
        return None

    def submit(self, con, mid, tok):
        if not self.open:
            return
        self.used.add(mid)
        if (not self.est) or (con and self.act >= self.nstart):
            if any(q[1] == mid for q in self.dq):
                return
            self.dq.append((con, mid, tok, 0))
        elif con:
            self.act += 1
            self.sq.append((con, mid, tok, 0))
            self.sent.add(mid)
        else:
            self.sent_non.append(mid)
            self.sent.add(mid)

    def ack(self, mid):
        if self.open and self.remove(mid):
            self.finished.append(mid)
            self.dec_drain()

    def nacked(self, mid):
        h = self.hooks.pop(mid, None)
        if h:
            self.submit(True, h[0], h[1])

    def rst(self, mid):
        if self.open and self.remove(mid):
            self.finished.append(mid)
            self.dec_drain()
            self.nacked(mid)

    def ping(self, k):
        """the keepalive period is over"""
        if self.client and self.open and self.est and self.act == 0:
            self.pings += 1
            self.submit(True, 50000 + 1000 * k + self.pings, 0)

    def tick(self, mid):
        if not self.open:
            return
        n = self.remove(mid)
        if not n:
            return
        if n[3] < self.maxrt:
            self.sq.append((n[0], n[1], n[2], n[3] + 1))
        else:
            self.finished.append(mid)
            self.dec_drain()
            self.nacked(mid)

    def sep(self, tok):
        if not self.open:
            return
        hit = [q for q in self.sq if q[2] == tok]
        self.sq = [q for q in self.sq if q[2] != tok]
        for q in hit:
            self.finished.append(q[1])
            self.dec_drain()

    def up(self):
        if self.open:
            self.drain()

    def fail(self, reason):
        if self.open and reason != 4:
            # a client session's socket is closed; a server-side session goes on with empty queues
            self.open, self.est, self.act, self.dq, self.sq = (not self.client), True, 0, [], []


def cfg_tok(s, est0):
    return "%d,%d,%d,1%s" % (s.nstart, s.maxrt, 1 if est0 else 0, "" if s.client else ",s")


def gen_prefail(r):
    """a session that fails before it was ever established: everything submitted so far is held
    (CON / Observe CON / NON, a duplicate id now and then), then the disconnect - nothing is in the
    send queue, the held messages are the only thing to report"""
    nstart, maxrt = r.choice([1, 2, 4]), r.choice([1, 2, 4])
    s = Sess(nstart, maxrt, False, client=r.random() < 0.8)
    mid = r.randrange(1, 40000)
    tok = 10000
    ops = []
    for _ in range(r.randrange(1, 6)):
        mid += 1
        tok += 1
        ty = r.choice("ooccn") if s.client else r.choice("ccn")
        ops.append("S0,%s,%d,%d" % (ty, mid, tok))
        if r.random() < 0.15:
            ops.append("S0,c,%d,%d" % (mid, tok + 500))     # duplicate of a held id: refused
    ops.append("F0,%d" % r.choice([1, 3, 3, 2, 0]))
    if r.random() < 0.5:
        ops.append("S0,c,%d,%d" % (mid + 1, tok + 1))
    prefix = ["ns", "1", "1", cfg_tok(s, False)]
    return prefix, ops, {"in_scope": True, "nsess": 1, "nstart": [nstart], "nsub": len(ops),
                         "natural": False, "errs": False}


def gen_case(r, big=False, natural=False, errs=False):
    """-> (prefix tokens, ops, meta) ; meta: in_scope (peer only answers what it received)"""
    nsess = r.choice([1, 1, 1, 1, 2, 2, 3])
    ss, est0s = [], []
    for _ in range(nsess):
        est0 = r.random() > 0.2
        ss.append(Sess(r.choice([1, 1, 1, 2, 2, 3, 4]), r.choice([1, 1, 2, 2, 4]), est0,
                       client=r.random() > 0.35))
        est0s.append(est0)
    all_clients = all(x.client for x in ss)
    next_mid = [r.randrange(1, 40000) for _ in range(nsess)]   # (50000.. = the library's own pings)
    next_tok = [10000 + 1000 * k for k in range(nsess)]   # away from libcoap's own state tokens (1, 2, ...)
    nsub = r.randrange(1, 21) if not big else r.randrange(10, 21)
    allow_oos = r.random() < 0.12      # a peer outside the property's peer model
    burst = r.random() < 0.35          # submit everything first, then the peer answers
    ops = []
    if natural and r.random() < 0.5:
        ops.append("K%d" % r.choice([2, 5, 5, 8, 30]))    # keepalive: the library pings when idle
    use_hooks = r.random() < 0.35      # the application's nack handler retries from the callback
    use_obs = r.random() < 0.3         # block mode: Observe registrations get their lg_crcv in coap_send
    in_scope = True
    subs = 0
    steps = 0
    limit = nsub * (6 if not burst else 8) + 10
    while steps < limit:
        steps += 1
        k = r.randrange(nsess)
        s = ss[k]
        if errs and r.random() < 0.12:
            ops.append("E")                # the next socket write fails (whoever makes it)
        if burst:
            want_sub = subs < nsub
        else:
            want_sub = subs < nsub and r.random() < 0.45
        if want_sub:
            subs += 1
            con = r.random() < 0.78
            if s.dq and not natural and not errs and r.random() < 0.06:
                mid = r.choice(s.dq)[1]            # duplicate of a held id -> refused
                con = con or s.est                 # (a NON on an established session is not held,
                                                   #  so it would really put the id on the wire twice)
            else:
                next_mid[k] = (next_mid[k] % 45000) + 1
                mid = next_mid[k]
            next_tok[k] += 1
            tok = next_tok[k]
            same = [q[2] for q in s.sq if q[2] != 0]
            if con and same and all_clients and s.open and s.est and s.act < s.nstart and not natural and not errs \
                    and r.random() < 0.15:
                # a second request with the token of one that is in flight (observe registration
                # and its cancel, a retry): cancel by token then removes several nodes at once.
                # Only when it goes out at once: a HELD message with the token of an in-flight one
                # would make the outcome depend on the timer order of the send queue.  Only in
                # contexts without resources (no server-side session): there a Reset also cancels
                # every message with the token of the reset one (coap_cancel), which the model of
                # the RST branch does not have.
                tok = r.choice(same)
            ops.append("S%d,%s,%d,%d" % (k, ("o" if use_obs and s.client and r.random() < 0.5 else "c")
                                          if con else "n", mid, tok))
            fresh = mid not in s.used
            s.submit(con, mid, tok)
            if use_hooks and con and fresh and r.random() < 0.5:
                next_mid[k] = (next_mid[k] % 45000) + 1
                next_tok[k] += 1
                s.hooks[mid] = (next_mid[k], next_tok[k])
                ops.append("H%d,%d,%d,%d" % (k, mid, next_mid[k], next_tok[k]))
            continue
        if subs >= nsub and not any(t.sq or t.dq for t in ss):
            break
        # candidate peer / timer / control events that make sense in the simulated state
        cand = []
        infl = [q[1] for q in s.sq]
        if s.open:
            if infl:
                cand += [(30, "A", r.choice(infl)), (9, "R", r.choice(infl))]
                if not natural:
                    cand += [(16, "T", r.choice(infl)), (6, "P", r.choice(s.sq)[2])]
            if s.sent_non:
                cand.append((6, "R", r.choice(s.sent_non)))      # Reset of a NON that was received
            if s.finished:
                cand.append((4, r.choice("AR"), r.choice(s.finished)))   # duplicate ACK / RST
            if allow_oos:
                # outside the peer model: an id that is still held, or was never used
                cand.append((4, r.choice("AR"), r.choice(s.dq)[1] if s.dq and r.random() < 0.6
                             else r.randrange(1, 65536)))
            cand.append((1, "P", r.randrange(30000, 34000)))
            if not errs:
                # malformed answers with one of our ids: ACK with a code of an invalid class / with a
                # request code (end the exchange like a Reset), NON with an invalid class (peer's ids)
                bm = r.choice(infl) if infl and r.random() < 0.8 else \
                    (r.choice(s.finished) if s.finished else r.randrange(1, 45000))
                cand.append((5, "B", (bm, r.choice([1, 1, 2, 4]))))
            if s.client and not natural and not errs:
                cand.append((5 if (s.est and s.act == 0) else 1, "G", 0))
            if not s.client and s.est and not natural and not errs:
                # the peer observes /r; the resource changes -> NON notification, whatever is in flight
                if not s.observed:
                    cand.append((3, "O", 0))
                elif all(t.notes < 4 for t in ss if t.observed):
                    cand.append((8 if s.sq else 2, "N", 0))
            if not s.client and s.est and not natural and not errs:
                # multicast request from the peer / its delayed response goes out
                cand.append((6, "Y", 0) if s.mc_pending else (3, "M", 0))
            if not natural:
                cand.append((12 if not s.est else 1, "U", 0))
                if not s.mc_pending:
                    # (a disconnect would report the queued multicast response - not a message of
                    #  the application - as "the first one")
                    cand.append((1.5, "F", r.choice([1, 1, 1, 4, 4, 0, 2, 3])))
            else:
                cand.append((25, "W", r.choice([500, 1000, 1900, 2000, 2500, 3000, 3100, 4000, 6200,
                                                9000])))
        if not cand:
            continue
        tot = sum(c[0] for c in cand)
        y = r.random() * tot
        for w, kind, arg in cand:
            y -= w
            if y <= 0:
                break
        if kind == "A" or kind == "R":
            if arg not in s.sent:
                in_scope = False
            ops.append("%s%d,%d" % (kind, k, arg))
            if not natural or arg in infl:
                (s.ack if kind == "A" else s.rst)(arg)
        elif kind == "B":
            ops.append("B%d,%d,%d" % (k, arg[0], arg[1]))
            if arg[1] != 4 and s.open and s.remove(arg[0]):     # like a Reset, without the hook
                s.finished.append(arg[0])
                s.dec_drain()
        elif kind == "T":
            ops.append("T%d,%d" % (k, arg))
            s.tick(arg)
        elif kind == "P":
            if infl and r.random() < 0.3:
                # the peer's own message id happens to equal the id of one of our in-flight CONs
                ops.append("P%d,%d,%d" % (k, arg, r.choice(infl)))
            else:
                ops.append("P%d,%d" % (k, arg))
            s.sep(arg)
        elif kind == "U":
            ops.append("U%d" % k)
            s.up()
        elif kind == "F":
            ops.append("F%d,%d" % (k, arg))
            s.fail(arg)
            if arg != 4:
                s.mc_pending = False
                s.observed = False
        elif kind == "G":
            ops.append("G%d" % k)
            s.ping(k)
        elif kind == "O":
            ops.append("O%d" % k)
            s.observed = True
        elif kind == "N":
            ops.append("N%d" % k)
            for t in ss:
                if t.observed:
                    t.notes += 1
        elif kind == "M":
            ops.append("M%d" % k)
            s.mc_pending = True
        elif kind == "Y":
            ops.append("Y%d" % k)
            s.mc_pending = False
            s.up()
        elif kind == "W":
            ops.append("W%d" % arg)
            # the simulator cannot tell which timers fire; its in-flight set becomes a guess
    if not natural and r.random() < 0.25:
        # probe: let every in-flight message time out until it is given up (each firing must
        # retransmit or NACK; everything held must come out in the end)
        for k, s in enumerate(ss):
            if not s.est and s.open:
                ops.append("U%d" % k)
                s.up()
            guard = 0
            while s.sq and guard < 200:
                guard += 1
                mid = s.sq[0][1]
                ops.append("T%d,%d" % (k, mid))
                s.tick(mid)
    elif not natural and r.random() < 0.6:
        # flush: acknowledge until nothing is in flight any more
        for k, s in enumerate(ss):
            if not s.est and s.open:
                ops.append("U%d" % k)
                s.up()
            guard = 0
            while s.sq and guard < 64:
                guard += 1
                mid = s.sq[0][1]
                ops.append("A%d,%d" % (k, mid))
                s.ack(mid)
    prefix = ["ns", "1", str(nsess)] + [cfg_tok(s, e) for s, e in zip(ss, est0s)]
    meta = {"in_scope": in_scope, "nsess": nsess, "nstart": [s.nstart for s in ss], "nsub": subs,
            "natural": natural, "errs": errs}
    return prefix, ops, meta


def line_of(prefix, ops):
    return " ".join(list(prefix) + list(ops))


def enum_cases(depth, nstart, maxrt, est0, max_sub=3, client=True, hooks=False, sametok=False,
               observe=False):
    """Exhaustive small scope: every history of exactly `depth` events over the alphabet
    {S con, S non, and for every message id submitted so far: A R T P, plus one unknown id for A R,
     U, F1, F4} on one session; ids are 1,2,3.. in submission order, tokens 10000+id.
    Yields (prefix, ops)."""
    prefix = ["ns", "1", "1", "%d,%d,%d,1%s" % (nstart, maxrt, 1 if est0 else 0, "" if client else ",s")]

    def rec(ops, nsub, left, npings=0):
        if left == 0:
            # with hooks: the nack handler of every CON resubmits (id + 10) from the callback
            if hooks:
                out = []
                for o in ops:
                    out.append(o)
                    if o.startswith("S0,c,"):
                        f = o.split(",")
                        out.append("H0,%s,%d,%d" % (f[2], int(f[2]) + 10, int(f[3]) + 10))
                yield out
            else:
                yield list(ops)
            return
        alpha = []
        if nsub < max_sub:
            tk = 10001 if sametok else 10001 + nsub
            alpha += ["S0,%s,%d,%d" % ("o" if observe else "c", nsub + 1, tk), "S0,n,%d,%d" % (nsub + 1, tk)]
        for m in range(1, nsub + 1):
            alpha += ["A0,%d" % m, "R0,%d" % m, "T0,%d" % m, "B0,%d,1" % m]
            if not sametok or m == 1:
                alpha.append("P0,%d" % (10000 + m))
        alpha += ["U0", "F0,1", "F0,4"]
        if client:
            alpha.append("G0")
            for m in range(1, npings + 1):
                pm = 50000 + m
                alpha += ["A0,%d" % pm, "R0,%d" % pm, "T0,%d" % pm]
        for a in alpha:
            # nothing but refused submissions can follow the disconnect of a client session: prune
            if client and ops and ops[-1] == "F0,1" and a[0] != "S":
                continue
            ops.append(a)
            # (an upper bound of the pings sent so far is enough to put their ids into the alphabet)
            yield from rec(ops, nsub + (1 if a[0] == "S" else 0), left - 1,
                           min(2, npings + (1 if a == "G0" else 0)))
            ops.pop()

    for ops in rec([], 0, depth):
        yield prefix, ops


def enum_cases2(depth, cfgs, max_sub=2):
    """Exhaustive small scope with two sessions on one context (shared send queue): every history
    of exactly `depth` events; both sessions use the SAME message ids 1,2 (tokens differ)."""
    prefix = ["ns", "1", "2"] + ["%d,%d,%d,1%s" % (n, rt, 1 if e0 else 0, "" if cl else ",s")
                                 for (n, rt, e0, cl) in cfgs]

    def rec(ops, nsub, dead, left):
        if left == 0:
            yield list(ops)
            return
        for k in (0, 1):
            alpha = []
            if nsub[k] < max_sub:
                alpha += ["S%d,c,%d,%d" % (k, nsub[k] + 1, 10001 + 1000 * k + nsub[k]),
                          "S%d,n,%d,%d" % (k, nsub[k] + 1, 10001 + 1000 * k + nsub[k])]
            if not dead[k]:
                for m in range(1, nsub[k] + 1):
                    alpha += ["A%d,%d" % (k, m), "R%d,%d" % (k, m), "T%d,%d" % (k, m),
                              "P%d,%d" % (k, 10000 + 1000 * k + m)]
                alpha += ["U%d" % k, "F%d,1" % k]
            for a in alpha:
                ops.append(a)
                ns2 = list(nsub)
                d2 = list(dead)
                if a[0] == "S":
                    ns2[k] += 1
                if a[0] == "F" and cfgs[k][3]:
                    d2[k] = True
                yield from rec(ops, ns2, d2, left - 1)
                ops.pop()

    for ops in rec([], [0, 0], [False, False], depth):
        yield prefix, ops

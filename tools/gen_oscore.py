"""Case generators for C14 (OSCORE protection).  Formats: see ocaml/d_oscore.ml.

A case is a full exchange: security context (master secret, salt, id context, client id, server
id), a request with the client's sender sequence number, a response with the server's sequence
number and the "always send Partial IV" switch.  Values are aimed at the case boundaries of the
proofs and of the encodings: id lengths 0..7, Partial IV lengths 1..5 (sequence numbers at 2^8k
+-1 and at the top of the range), option deltas/lengths at 12/13/14 and 268/269, payload sizes
around the AES block size, class U / class E / both (Observe) options, empty OSCORE option.
"""

BND_SEQ = [0, 1, 2, 23, 24, 255, 256, 257, 65535, 65536, (1 << 24) - 1, 1 << 24, (1 << 32) - 1,
           1 << 32, (1 << 32) + 1, (1 << 40) - 4, (1 << 40) - 3, (1 << 40) - 2]
PAYLOAD_SIZES = [0, 0, 1, 2, 7, 15, 16, 17, 31, 32, 33, 47, 48, 64, 100, 255, 256, 300]
BIG_PAYLOADS = [500, 1000, 1023, 1024]

REQ_CODES = [1, 2, 3, 4, 5, 6, 7]
RESP_CODES = [65, 66, 67, 68, 69, 95, 128, 129, 130, 131, 132, 133, 140, 141, 143, 160, 161, 163, 165]


def rb(r, n):
    return bytes(r.getrandbits(8) for _ in range(n))


def tok(b):
    return b.hex() if b else "-"


def gen_ctx(r):
    secret = rb(r, r.choice([16, 16, 16, 1, 8, 32, 40]))
    salt = None if r.random() < 0.3 else rb(r, r.choice([8, 8, 1, 16, 32, 64, 70]))
    idctx = None if r.random() < 0.5 else rb(r, r.choice([8, 1, 2, 4, 16, 23, 24, 30]))
    while True:
        cid = rb(r, r.choice([0, 1, 1, 2, 3, 4, 5, 6, 7]))
        sid = rb(r, r.choice([0, 1, 1, 2, 3, 4, 5, 6, 7]))
        if cid != sid:
            break
    # ids that differ only in length / leading zeros exercise the nonce's length byte
    if r.random() < 0.15:
        cid = b"\x00" * r.choice([1, 2, 3])
        sid = b"\x00" * (len(cid) + 1)
    return secret, salt, idctx, cid, sid


def ctx_tokens(c):
    secret, salt, idctx, cid, sid = c
    return [secret.hex(), salt.hex() if salt is not None and len(salt) else "-",
            idctx.hex() if idctx is not None else "-", tok(cid), tok(sid)]


def uint_bytes(v):
    out = b""
    while v:
        out = bytes([v & 0xff]) + out
        v >>= 8
    return out


def seg(r, lo=0, hi=40):
    n = r.choice([lo, lo + 1, 3, 5, 12, 13, 14, hi]) if r.random() < 0.5 else r.randint(lo, hi)
    n = max(lo, min(hi, n))
    return rb(r, n)


def gen_options(r, request, observe):
    """ascending (number, value) list that the public API accepts and the parser re-reads"""
    o = []
    if request:
        if r.random() < 0.25:
            o.append((1, rb(r, r.randint(0, 8))))
        if r.random() < 0.4:
            o.append((3, seg(r, 1, 30)))
    if r.random() < 0.3:
        for _ in range(r.choice([1, 1, 2])):
            o.append((4, rb(r, r.randint(1, 8))))
    if request and r.random() < 0.1:
        o.append((5, b""))
    if observe:
        if request:
            o.append((6, r.choice([b"", b"\x01", b""])))
        else:
            o.append((6, uint_bytes(r.choice([0, 1, 2, 255, 256, 65535, 65536, (1 << 24) - 1]))))
    if request and r.random() < 0.3:
        o.append((7, uint_bytes(r.choice([0, 5683, 5684, 65535, 80]))))
    if not request and r.random() < 0.2:
        for _ in range(r.choice([1, 2])):
            o.append((8, seg(r, 0, 20)))
    if request and r.random() < 0.7:
        for _ in range(r.choice([1, 1, 2, 3, 5])):
            o.append((11, seg(r, 0, 40)))
    if r.random() < 0.4:
        o.append((12, uint_bytes(r.choice([0, 40, 41, 42, 50, 60, 255, 256, 65535]))))
    if not request and r.random() < 0.3:
        o.append((14, uint_bytes(r.choice([0, 1, 60, 255, 256, (1 << 32) - 1]))))
    if request and r.random() < 0.3:
        for _ in range(r.choice([1, 2])):
            o.append((15, seg(r, 1, 40)))
    proxy = request and r.random() < 0.2
    if proxy or (request and r.random() < 0.1):
        o.append((16, bytes([r.choice([1, 16, 255])])))
    if request and r.random() < 0.2:
        o.append((17, uint_bytes(r.choice([0, 40, 60, 65535]))))
    if not request and r.random() < 0.15:
        o.append((20, seg(r, 0, 20)))
    if r.random() < 0.25:
        o.append((23, uint_bytes(r.choice([0, 6, 14, 0x16, 0xfff6, 0xfffff6]))))
    if r.random() < 0.2:
        o.append((27, uint_bytes(r.choice([0, 6, 0x0e, 0xfff6]))))
    if r.random() < 0.15:
        o.append((28, uint_bytes(r.choice([0, 1024, 70000]))))
    if proxy:
        o.append((39, r.choice([b"coap", b"coaps", b"http", b"coap+tcp"])))
    if r.random() < 0.15:
        o.append((60, uint_bytes(r.choice([0, 1024, 70000]))))
    if r.random() < 0.15:
        o.append((252, rb(r, r.choice([1, 8, 40]))))
    if request and r.random() < 0.1:
        o.append((258, r.choice([b"", b"\x02", b"\x1a"])))
    if request and r.random() < 0.1:
        o.append((292, rb(r, r.randint(0, 8))))
    if r.random() < 0.1:
        o.append((r.choice([2048, 2050, 65000, 65534]), rb(r, r.choice([0, 1, 13, 269, 300]))))
    return o


def gen_msg(r, request, token, observe, big):
    ty = r.choice([0, 1])
    code = r.choice(REQ_CODES if request else RESP_CODES)
    if not request and observe:
        code = r.choice([69, 69, 67, 65])
    mid = r.choice([0, 1, 255, 256, 65535, r.randint(0, 65535)])
    opts = gen_options(r, request, observe)
    n = r.choice(BIG_PAYLOADS) if big else r.choice(PAYLOAD_SIZES)
    payload = rb(r, n)
    if code == 129:
        # 4.01 + Echo is the RFC 9175 freshness challenge: libcoap answers it itself (retransmits
        # the request with the Echo value) and hands nothing to the application
        opts = [o for o in opts if o[0] != 252]
    return dict(type=ty, code=code, mid=mid, token=token, opts=opts, payload=payload)


def msg_tokens(m):
    t = [str(m["type"]), str(m["code"]), str(m["mid"]), tok(m["token"]), str(len(m["opts"]))]
    for n, v in m["opts"]:
        t += [str(n), tok(v)]
    t.append(tok(m["payload"]))
    return t


def gen_exchange(r, big=False):
    c = gen_ctx(r)
    token = rb(r, r.choice([0, 1, 2, 4, 4, 8, 8, 8, 12, 13]))
    obs = r.random() < 0.3
    req = gen_msg(r, True, token, obs, big and r.random() < 0.5)
    resp = gen_msg(r, False, token, obs and r.random() < 0.8, big)
    cseq = r.choice(BND_SEQ) if r.random() < 0.7 else r.randint(0, (1 << 40) - 3)
    sseq = r.choice(BND_SEQ) if r.random() < 0.7 else r.randint(0, (1 << 40) - 3)
    sendpiv = 1 if r.random() < 0.4 else 0
    return dict(ctx=c, req=req, cseq=cseq, resp=resp, sendpiv=sendpiv, sseq=sseq)


# options the live server / client library act on themselves (proxying, block-wise transfer,
# No-Response, conditional requests): kept out of the live exchanges, where the oracle is "the
# application handler sees exactly this message"
LIVE_SKIP_REQ = {1, 5, 16, 23, 27, 28, 39, 60, 258}
LIVE_SKIP_RESP = {23, 27, 28, 60}


def gen_live_exchange(r):
    x = gen_exchange(r, big=False)
    x["req"]["opts"] = [o for o in x["req"]["opts"] if o[0] not in LIVE_SKIP_REQ]
    x["resp"]["opts"] = [o for o in x["resp"]["opts"] if o[0] not in LIVE_SKIP_RESP]
    if not any(n == 6 for n, _ in x["req"]["opts"]):
        x["resp"]["opts"] = [o for o in x["resp"]["opts"] if o[0] != 6]
    # coap_send refuses tokens above 8 bytes unless extended tokens were negotiated
    x["req"]["token"] = x["req"]["token"][:8]
    x["resp"]["token"] = x["req"]["token"]
    # FETCH / PATCH / iPATCH without Content-Format are answered 4.15 by the library itself
    if x["req"]["code"] > 4:
        x["req"]["code"] = r.choice([1, 2, 3, 4])
    x["sendpiv"] = 0
    x["live"] = True
    return x


def live_line(cmd, x):
    return " ".join([cmd] + ctx_tokens(x["ctx"]) + msg_tokens(x["req"]) + [str(x["cseq"])] +
                    msg_tokens(x["resp"]) + [str(x["sseq"])])


def line_of(x):
    return " ".join(["oscx"] + ctx_tokens(x["ctx"]) + msg_tokens(x["req"]) + [str(x["cseq"])] +
                    msg_tokens(x["resp"]) + [str(x["sendpiv"]), str(x["sseq"])])


def dump_of(m, opts=None, mtype=None, mid=None):
    """the canonical dump (harness/common/dump.h) of an abstract message"""
    def show(b):
        if not b:
            return "-"
        if len(b) <= 48:
            return b.hex()
        h = 0x811c9dc5
        for x in b:
            h = ((h ^ x) * 0x01000193) & 0xffffffff
        return "#%d:%08x" % (len(b), h)
    os_ = m["opts"] if opts is None else opts
    o = ",".join("%d:%s" % (n, show(v)) for n, v in os_) if os_ else "-"
    return "t=%d c=%d m=%d k=%s o=%s p=%s" % (m["type"] if mtype is None else mtype, m["code"],
                                               m["mid"] if mid is None else mid, show(m["token"]),
                                               o, show(m["payload"]))


# ---- a small CoAP/UDP reader for the oracle (positions of the OSCORE option value and of the
# ciphertext inside a protected datagram) ----
def locate(dg):
    """-> dict(opt=(start,end) of the OSCORE option value, optpos=index of its header byte,
    payload=(start,end), piv=bytes) or None"""
    if len(dg) < 4:
        return None
    tkl = dg[0] & 15
    i = 4
    if tkl == 13:
        tl = dg[4] + 13
        i = 5
    elif tkl == 14:
        tl = dg[4] * 256 + dg[5] + 269
        i = 6
    elif tkl == 15:
        return None
    else:
        tl = tkl
    i += tl
    num = 0
    res = {"opt": None, "payload": (len(dg), len(dg)), "hdr_end": i}
    while i < len(dg):
        if dg[i] == 0xff:
            res["payload"] = (i + 1, len(dg))
            res["marker"] = i
            break
        start = i
        d = dg[i] >> 4
        l = dg[i] & 15
        i += 1
        if d == 13:
            d = dg[i] + 13
            i += 1
        elif d == 14:
            d = dg[i] * 256 + dg[i + 1] + 269
            i += 2
        if l == 13:
            l = dg[i] + 13
            i += 1
        elif l == 14:
            l = dg[i] * 256 + dg[i + 1] + 269
            i += 2
        num += d
        if num == 9:
            res["opt"] = (i, i + l)
            res["optpos"] = start
            v = dg[i:i + l]
            n = (v[0] & 7) if v else 0
            res["piv"] = bytes(v[1:1 + n])
        i += l
    return res


def structured_variants(dg, is_request):
    """re-spellings / targeted changes of the OSCORE option value (the bit flips cannot insert or
    remove bytes): -> list of (tag, datagram, must_reject).  must_reject=False marks spellings that
    RFC 8613 itself cannot tell from the original (they are only compared with the reference)."""
    loc = locate(dg)
    if not loc or not loc.get("opt"):
        return []
    a, b = loc["opt"]
    pos = loc["optpos"]
    d = dg[pos] >> 4
    if d >= 13:                 # the OSCORE option's delta is at most 9
        return []
    v = bytes(dg[a:b])
    out = []

    def put(tag, nv, must):
        l = len(nv)
        if l < 13:
            hdr = bytes([(d << 4) | l])
        elif l < 269:
            hdr = bytes([(d << 4) | 13, l - 13])
        else:
            return
        out.append((tag, dg[:pos] + hdr + nv + dg[b:], must))

    if not v:
        put("zeroflag", b"\x00", True)
        return out
    n = v[0] & 7
    h = v[0] & 0x10
    k = v[0] & 0x08
    if not k:
        put("trailing", v + b"\xaa", True)
    put("reserved", bytes([v[0] | 0x40]) + v[1:], True)
    if 1 <= n <= 4:
        # same nonce; the AAD of a request contains the Partial IV bytes, that of a response does not
        put("pivzero", bytes([v[0] + 1]) + b"\x00" + v[1:], is_request)
    if k and not h:
        put("emptyctx", bytes([v[0] | 0x10]) + v[1:1 + n] + b"\x00" + v[1 + n:], False)
        # a kid context where the security context has no ID Context
        put("addctx", bytes([v[0] | 0x10]) + v[1:1 + n] + b"\x01\xaa" + v[1 + n:], True)
    if h and len(v) > 1 + n:
        # the kid context of a request selects the security context together with the kid
        # (RFC 8613 8.2 step 2): every proper prefix, none at all, a longer one, a changed one
        sl = v[1 + n]
        ctx = v[2 + n:2 + n + sl]
        rest = v[2 + n + sl:]
        head = v[:1 + n]
        if len(ctx) == sl:
            for L in range(sl):
                put("ctxprefix%d" % L, head + bytes([L]) + ctx[:L] + rest, True)
            put("ctxremoved", bytes([v[0] & ~0x10 & 0xff]) + v[1:1 + n] + rest, True)
            put("ctxextended", head + bytes([sl + 1]) + ctx + b"\x00" + rest, True)
            if sl:
                put("ctxbyte", head + bytes([sl]) + ctx[:-1] + bytes([ctx[-1] ^ 0x80]) + rest, True)
                put("ctxsuffix", head + bytes([sl - 1]) + ctx[1:] + rest, True)
    if k and len(v) > 1 + n + (1 + v[1 + n] if h else 0):
        put("kidshort", v[:-1], True)
    if n >= 1:
        put("pivbyte", v[:n] + bytes([v[n] ^ 0x01]) + v[n + 1:], True)
    return out


# ---- several requests / responses on one token (the request binding is refreshed) ----
SEQ_PATTERNS = [
    ["Q0", "R10", "R10", "Q1", "R00"],          # register, notifications, cancel (RFC 7641 3.6), final response
    ["Q0", "R10", "Q0", "R00"],                 # re-registration answered without Observe / Partial IV
    ["Q0", "R10", "Q0", "R10", "R01", "Q1", "R01"],
    ["Q-", "Q-", "R00"],                        # a second request on the token before the response
    ["Q0", "Q1", "R00"],
    ["Q0", "R10", "Q1", "R00", ],
    ["Q0", "R11", "Q0", "Q0", "R00"],
    ["Q-", "R00", "Q-", "R01", "Q0", "R10", "Q-", "R00"],
]


def gen_sequence(r):
    c = gen_ctx(r)
    token = rb(r, r.choice([1, 2, 4, 8]))
    steps = list(r.choice(SEQ_PATTERNS))
    if r.random() < 0.3:        # random tail, every response still preceded by a request
        for _ in range(r.randint(1, 4)):
            steps += [r.choice(["Q-", "Q0", "Q1"]), r.choice(["R00", "R01", "R10"])]
    cseq = r.choice([0, 1, 254, 255, 65535, (1 << 32) - 2, r.randint(0, 1 << 30)])
    sseq = r.choice([0, 1, 254, 255, 65535, (1 << 24) - 2, r.randint(0, 1 << 30)])
    return " ".join(["oscseq"] + ctx_tokens(c) + [tok(token), str(r.choice([0, 1])), str(cseq), str(sseq)] + steps)


# ---- two security contexts at one server session, interleaved requests, delayed responses ----
MULTI_PATTERNS = [
    ["QA-", "QB-", "RA00", "RB00"],                       # request A, request B, delayed response to A
    ["QA-", "QB-", "RB00", "RA00"],
    ["QA0", "RA10", "QB-", "RA10", "RB00", "RA10"],       # notification for A after B's request
    ["QA0", "QB0", "RB10", "RA10", "QA1", "RB10", "RA00", "RB01"],
    ["QB-", "QA-", "QB-", "RA01", "RB00"],
    ["QA-", "RA00", "QB-", "RB00", "QA-", "QB-", "RA00", "RB01"],
]


def gen_multi(r):
    a = gen_ctx(r)
    b = gen_ctx(r)
    sa, sb = list(a), list(b)
    mode = r.random()
    if mode < 0.25 and a[2] is not None:
        # same ids, told apart by the id context only (same master secret allowed)
        sb[3], sb[4] = a[3], a[4]
        sb[2] = bytes([a[2][0] ^ 0x55]) + a[2][1:]
    else:
        # the server finds the context by the client's id: make them differ
        while sb[3] == sa[3]:
            sb[3] = rb(r, r.choice([1, 2, 3]))
            if sb[3] == sb[4]:
                sb[3] = sb[3] + b"\x01"
    ta = rb(r, r.choice([1, 2, 4, 8]))
    tb = ta
    while tb == ta:
        tb = rb(r, r.choice([1, 2, 4, 8]))
    steps = list(r.choice(MULTI_PATTERNS))

    def peer(c, tokn):
        return ctx_tokens(tuple(c)) + [str(r.choice([0, 1, 255, 65535, r.randint(0, 1 << 30)])),
                                       str(r.choice([0, 1, 254, 65535, r.randint(0, 1 << 30)])), tok(tokn)]
    return " ".join(["oscmulti"] + peer(sa, ta) + peer(sb, tb) + steps)

#!/usr/bin/env python3
"""Development aid for C15: the seven repairs as text replacements.
   tools/c15_patches.py <n> <repo-worktree>            apply repair n (1..7) to a tree without it
   tools/c15_patches.py <n> <repo-worktree> --reverse  take repair n out of a tree that has it
Used by tools/c15_variants.py to build the code variants that correspond to the rp_variant
flags of coq/Oscore/Replay.v.  Repairs: 1 bit index + window bound (cb9fc9c), 2 shift guard
(571e76a), 3 rollback of last_seq 0 (05246a2), 4 no last_seq write before authentication
(b8dc44c), 5 arming without B.1.2 (3130828), 6 rollback for responses (5c1cf0c), 7 no last_seq
write in the response branch (3c123b6), 8 rollback on every exit before authentication (b199955; to take 6 out, take 8 out first)."""
import sys
n = int(sys.argv[1])
R = sys.argv[2]
REV = len(sys.argv) > 3 and sys.argv[3] == "--reverse"


def rep(path, old, new):
    if REV:
        old, new = new, old
    p = R + "/" + path
    s = open(p).read()
    assert s.count(old) == 1, (path, s.count(old), old[:60])
    open(p, "w").write(s.replace(old, new))


if n == 1:
    rep("src/oscore/oscore.c", """    uint64_t shift = ctx->last_seq - incoming_seq - 1;
    uint64_t pattern;

    if (shift > ctx->osc_ctx->replay_window_size || shift > 63) {""", """    uint64_t shift = ctx->last_seq - incoming_seq;
    uint64_t pattern;

    if (shift >= ctx->osc_ctx->replay_window_size || shift > 63) {""")
if n == 2:
    rep("src/oscore/oscore.c", """    ctx->sliding_window = ctx->sliding_window << shift;
""", """    /* A shift by the width of the type (or more) is undefined */
    ctx->sliding_window = shift < 64 ? ctx->sliding_window << shift : 0;
""")
if n == 3:
    rep("src/oscore/oscore.c", """  if (ctx->rollback_sliding_window != 0) {
    ctx->sliding_window = ctx->rollback_sliding_window;
    ctx->rollback_sliding_window = 0;
  }
  if (ctx->rollback_last_seq != 0) {
    ctx->last_seq = ctx->rollback_last_seq;
    ctx->rollback_last_seq = 0;
  }""", """  /*
   * A saved window always has B0 set, so 0 means nothing is saved.
   * 0 is a valid saved sequence number, so restore both together.
   */
  if (ctx->rollback_sliding_window != 0) {
    ctx->sliding_window = ctx->rollback_sliding_window;
    ctx->last_seq = ctx->rollback_last_seq;
    ctx->rollback_sliding_window = 0;
    ctx->rollback_last_seq = 0;
  }""")
if n == 4:
    rep("src/coap_oscore.c", """  if (coap_request) {
    uint64_t incoming_seq;
    /*
     * 8.2 Step 2""", """  if (coap_request) {
    /*
     * 8.2 Step 2""")
    rep("src/coap_oscore.c", """
    incoming_seq =
        coap_decode_var_bytes8(cose->partial_iv.s, cose->partial_iv.length);
    rcp_ctx->last_seq = incoming_seq;
  } else { /* !coap_request */
    /*
     * 8.4 Step 2""", """  } else { /* !coap_request */
    /*
     * 8.4 Step 2""")
if n == 5:
    rep("src/coap_oscore.c", """#if COAP_SERVER_SUPPORT
  /* Appendix B.1.2 request Trap */
  if (coap_request && osc_ctx->rfc8613_b_1_2) {
    if (rcp_ctx->initial_state == 1) {""", """#if COAP_SERVER_SUPPORT
  /*
   * Without Appendix B.1.2 the first request that authenticates
   * starts the Replay Window (RFC8613 7.4).
   */
  if (coap_request && !osc_ctx->rfc8613_b_1_2 &&
      rcp_ctx->initial_state == 1) {
    if (!oscore_validate_sender_seq(rcp_ctx, cose)) {
      coap_log_warn("OSCORE: Replayed or old message\\n");
      build_and_send_error_pdu(session,
                               pdu,
                               COAP_RESPONSE_CODE(401),
                               "Replay detected",
                               NULL,
                               NULL,
                               0);
      goto error_no_ack;
    }
  }
  /* Appendix B.1.2 request Trap */
  if (coap_request && osc_ctx->rfc8613_b_1_2) {
    if (rcp_ctx->initial_state == 1) {""")
if n == 6:
    rep("src/coap_oscore.c", """  uint8_t rcvd_piv[sizeof(cose->partial_iv_data)];
  size_t rcvd_piv_len = 0;
""", """  uint8_t rcvd_piv[sizeof(cose->partial_iv_data)];
  size_t rcvd_piv_len = 0;
  int seq_validated = 0;
""")
    rep("src/coap_oscore.c", """      if (rcp_ctx->initial_state == 0 &&
          !oscore_validate_sender_seq(rcp_ctx, cose)) {
        coap_log_warn("OSCORE: Replayed or old message\\n");
        goto error;
      }
      last_seq =""", """      if (rcp_ctx->initial_state == 0) {
        if (!oscore_validate_sender_seq(rcp_ctx, cose)) {
          coap_log_warn("OSCORE: Replayed or old message\\n");
          goto error;
        }
        /* The replay window is now updated, undo that if decryption fails */
        seq_validated = 1;
      }
      last_seq =""")
    rep("src/coap_oscore.c", """    } else {
      coap_handle_event_lkd(session->context,
                            COAP_EVENT_OSCORE_DECRYPTION_FAILURE,
                            session);
    }
    goto error;""", """    } else {
      if (seq_validated)
        oscore_roll_back_seq(rcp_ctx);
      coap_handle_event_lkd(session->context,
                            COAP_EVENT_OSCORE_DECRYPTION_FAILURE,
                            session);
    }
    goto error;""")
if n == 7:
    rep("src/coap_oscore.c", """      if (rcp_ctx->last_seq>= OSCORE_SEQ_MAX) {
        coap_log_warn("OSCORE Replay protection, SEQ larger than SEQ_MAX.\\n");
        goto error;
      }
      if (last_seq > rcp_ctx->last_seq)
        rcp_ctx->last_seq = last_seq;
""", """      if (last_seq >= OSCORE_SEQ_MAX) {
        coap_log_warn("OSCORE Replay protection, SEQ larger than SEQ_MAX.\\n");
        goto error;
      }
""")
if n == 8:
    rep("src/coap_oscore.c", """    if (rcp_ctx->initial_state == 0 &&
        !oscore_validate_sender_seq(rcp_ctx, cose)) {
      coap_log_warn("OSCORE: Replayed or old message\\n");
      build_and_send_error_pdu(session,
                               pdu,
                               COAP_RESPONSE_CODE(401),
                               "Replay detected",
                               NULL,
                               NULL,
                               0);
      goto error_no_ack;
    }
  } else { /* !coap_request */""", """    if (rcp_ctx->initial_state == 0) {
      if (!oscore_validate_sender_seq(rcp_ctx, cose)) {
        coap_log_warn("OSCORE: Replayed or old message\\n");
        build_and_send_error_pdu(session,
                                 pdu,
                                 COAP_RESPONSE_CODE(401),
                                 "Replay detected",
                                 NULL,
                                 NULL,
                                 0);
        goto error_no_ack;
      }
      /* The replay window is now updated, undo that unless the request authenticates */
      seq_validated = 1;
    }
  } else { /* !coap_request */""")
    rep("src/coap_oscore.c", """        /* The replay window is now updated, undo that if decryption fails */
        seq_validated = 1;""", """        /* The replay window is now updated, undo that unless the response authenticates */
        seq_validated = 1;""")
    rep("src/coap_oscore.c", """                               0);
      oscore_roll_back_seq(rcp_ctx);
      goto error_no_ack;
    } else {
      if (seq_validated)
        oscore_roll_back_seq(rcp_ctx);
      coap_handle_event_lkd(session->context,
                            COAP_EVENT_OSCORE_DECRYPTION_FAILURE,
                            session);
    }
    goto error;
  }

  assert((size_t)pltxt_size < pdu->alloc_size + pdu->max_hdr_size);
""", """                               0);
      goto error_no_ack;
    } else {
      coap_handle_event_lkd(session->context,
                            COAP_EVENT_OSCORE_DECRYPTION_FAILURE,
                            session);
    }
    goto error;
  }

  assert((size_t)pltxt_size < pdu->alloc_size + pdu->max_hdr_size);

  /* The message is authentic: the update of the replay window stands */
  seq_validated = 0;
""")
    rep("src/coap_oscore.c", """error:
  coap_send_ack_lkd(session, pdu);
error_no_ack:
  if (association && association->is_observe == 0)
    oscore_delete_association(session, association);
  coap_delete_pdu(decrypt_pdu);""", """error:
  coap_send_ack_lkd(session, pdu);
error_no_ack:
  /*
   * Whatever stopped the processing of a message that is not authenticated
   * (decryption failure, no memory, ...), it must not stay in the replay window.
   */
  if (seq_validated)
    oscore_roll_back_seq(rcp_ctx);
  if (association && association->is_observe == 0)
    oscore_delete_association(session, association);
  coap_delete_pdu(decrypt_pdu);""")
print(("reverted" if REV else "applied"), n)

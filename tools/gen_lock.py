"""C13 case generator: structured thread programs + schedules for the deterministic lock driver.
program token syntax: see ocaml/d_lock.ml."""
import itertools

KINDS = "kKrRi"


def gen_items(r, depth, budget):
    out = []
    n = r.choice([0, 1, 1, 2, 2, 3])
    for _ in range(n):
        if budget[0] <= 0:
            break
        x = r.random()
        if x < 0.45 or depth <= 0:
            out.append("w")
            budget[0] -= 2
        else:
            k = r.choice(KINDS)
            budget[0] -= 2
            inner = "" if (k == "i" and r.random() < 0.8) else gen_calls(r, depth - 1, budget, r.choice([0, 1, 1, 2]))
            out.append("%s(%s)" % (k, inner))
    return "".join(out)


def gen_calls(r, depth, budget, ncalls):
    out = []
    for _ in range(ncalls):
        if budget[0] <= 0:
            break
        budget[0] -= 2
        out.append("C(%s)" % gen_items(r, depth, budget))
    return "".join(out)


def prog_ops(p):
    """number of primitive steps of a program token"""
    return sum(2 for c in p if c in "CkKrRiw")


def gen_case(r):
    n = r.choice([2, 2, 2, 3, 3, 4, 5, 8])
    progs = []
    for _ in range(n):
        budget = [r.choice([6, 10, 16, 30])]
        p = gen_calls(r, r.choice([0, 1, 2, 2, 3, 4]), budget, r.choice([1, 1, 2, 3]))
        progs.append(p or "-")
    total = sum(prog_ops(p) for p in progs)
    style = r.choice(["uniform", "bursty", "rr", "one-first", "short"])
    sched = []
    if style == "uniform":
        sched = [r.randrange(n) for _ in range(int(total * 1.3) + 2)]
    elif style == "bursty":
        while len(sched) < total + 4:
            t = r.randrange(n)
            sched += [t] * r.choice([1, 2, 3, 5, 8])
    elif style == "rr":
        sched = [i % n for i in range(total + n)]
    elif style == "one-first":
        t = r.randrange(n)
        sched = [t] * r.randrange(0, prog_ops(progs[t]) + 1) + [r.randrange(n) for _ in range(total)]
    else:
        sched = [r.randrange(n) for _ in range(r.randrange(0, 6))]
    s = ",".join(map(str, sched)) if sched else "-"
    return "lk %d %s %s" % (n, " ".join(progs), s), style


# small programs whose interleavings are enumerated exhaustively (2 threads)
CATALOGUE = ["C(w)", "C(k()w)", "C(K(C(w)))", "C(r()w)", "C(r(C(w)))", "C(i()w)", "C(k(C(r(C(w)))))",
             "C(w)C(w)", "C(R(C(K()))w)"]


def interleavings(a, b, limit=None):
    """all schedules that run both threads to completion when nobody ever blocks (blocked
    attempts are inserted by the drain order anyway); plus schedules with repeated attempts"""
    na, nb = prog_ops(a), prog_ops(b)
    count = 0
    for pos in itertools.combinations(range(na + nb), na):
        s = ["1"] * (na + nb)
        for p in pos:
            s[p] = "0"
        yield ",".join(s)
        count += 1
        if limit and count >= limit:
            return

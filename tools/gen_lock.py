"""C13 case generator: structured thread programs + schedules for the deterministic lock driver.
program token syntax: see ocaml/d_lock.ml."""
import itertools

KINDS = "kKrRi"


def gen_items(r, depth, budget):
    out = []
    n = r.choice([0, 1, 1, 2, 2, 3])
    for _ in range(n):
        if budget[0] <= 0:
            break
        x = r.random()
        if x < 0.45 or depth <= 0:
            out.append("w")
            budget[0] -= 2
        else:
            k = r.choice(KINDS)
            budget[0] -= 2
            inner = "" if (k == "i" and r.random() < 0.8) else gen_calls(r, depth - 1, budget, r.choice([0, 1, 1, 2]))
            out.append("%s(%s)" % (k, inner))
    return "".join(out)


def gen_calls(r, depth, budget, ncalls):
    out = []
    for _ in range(ncalls):
        if budget[0] <= 0:
            break
        if r.random() < 0.15:
            # the real API function coap_handle_event(): wrapper + keep-ret macro + event handler
            budget[0] -= 4
            inner = gen_calls(r, depth - 1, budget, r.choice([0, 1, 1, 2])) if depth > 0 else ""
            out.append("E(%s)" % inner)
        else:
            budget[0] -= 2
            out.append("C(%s)" % gen_items(r, depth, budget))
    return "".join(out)


def prog_ops(p):
    """number of primitive steps of a program token"""
    return sum(4 if c == "E" else 2 for c in p if c in "CEkKrRiw")


def expand_real_calls(p):
    """E(x) -> C(K(x)) : the same program without the real API function (for the driver build that
    does not link the library)"""
    out = []
    stack = []
    for c in p:
        if c == "E":
            out.append("C(K")
            stack.append("pendingE")
        elif c == "(":
            out.append("(")
            if stack and stack[-1] == "pendingE":
                stack[-1] = "E"
            else:
                stack.append("(")
        elif c == ")":
            k = stack.pop()
            out.append("))" if k == "E" else ")")
        else:
            out.append(c)
    return "".join(out)


def gen_case(r):
    n = r.choice([2, 2, 2, 3, 3, 4, 5, 8])
    progs = []
    for _ in range(n):
        budget = [r.choice([6, 10, 16, 30])]
        p = gen_calls(r, r.choice([0, 1, 2, 2, 3, 4]), budget, r.choice([1, 1, 2, 3]))
        progs.append(p or "-")
    total = sum(prog_ops(p) for p in progs)
    style = r.choice(["uniform", "bursty", "rr", "one-first", "short"])
    sched = []
    if style == "uniform":
        sched = [r.randrange(n) for _ in range(int(total * 1.3) + 2)]
    elif style == "bursty":
        while len(sched) < total + 4:
            t = r.randrange(n)
            sched += [t] * r.choice([1, 2, 3, 5, 8])
    elif style == "rr":
        sched = [i % n for i in range(total + n)]
    elif style == "one-first":
        t = r.randrange(n)
        sched = [t] * r.randrange(0, prog_ops(progs[t]) + 1) + [r.randrange(n) for _ in range(total)]
    else:
        sched = [r.randrange(n) for _ in range(r.randrange(0, 6))]
    s = ",".join(map(str, sched)) if sched else "-"
    return "lk %d %s %s" % (n, " ".join(progs), s), style


# small programs whose interleavings are enumerated exhaustively (2 threads)
CATALOGUE = ["C(w)", "C(k()w)", "C(K(C(w)))", "C(r()w)", "C(r(C(w)))", "C(i()w)", "C(k(C(r(C(w)))))",
             "C(w)C(w)", "C(R(C(K()))w)", "E(C(w))"]


def interleavings(a, b, limit=None, rng=None):
    """schedules over {0,1} with exactly as many entries per thread as it has primitive steps
    (an entry of a blocked thread is a blocked attempt; the drain completes the run).
    All of them when their number is <= limit (or limit is None), otherwise `limit` of them:
    the first limit/2 in lexicographic order and limit/2 drawn with rng."""
    import math
    na, nb = prog_ops(a), prog_ops(b)
    total = math.comb(na + nb, na)
    count = 0
    for pos in itertools.combinations(range(na + nb), na):
        s = ["1"] * (na + nb)
        for p in pos:
            s[p] = "0"
        yield ",".join(s)
        count += 1
        if limit is not None and total > limit and count >= limit // 2:
            break
    if limit is not None and total > limit:
        for _ in range(limit - count):
            s = ["0"] * na + ["1"] * nb
            rng.shuffle(s)
            yield ",".join(s)

"""Case generators and the implementation-only oracle for C15 (OSCORE anti-replay, sender PIVs).
Case formats: see harness/h_replay.c."""
import itertools

SEQ_MAX = (1 << 40) - 1
U64 = (1 << 64) - 1
WINDOWS = ["0", "1", "2", "3", "4", "31", "32", "33", "62", "63", "64", "65", "100", "4294967295"]
GEN_KINDS = "gex"         # genuine
FORGE_KINDS = "fFPKOSMA"   # fail authentication (S: ciphertext cut short), or are turned away before it (K, O, M)
SHORT_LENS = [0, 1, 2, 7, 8, 9, 10]     # around the tag length (8) of AES-CCM-16-64-128


def tok_seq(tok):
    """sequence number of a token <kind><hexseq>[.<len>] (after an optional leading 2)"""
    return int(tok[1:].split(".")[0], 16)


def weff(wcfg):
    w = 32 if wcfg == "-" else int(wcfg)
    if w == 0:
        w = 32
    return min(w, 64)


# ------------------------------------------------------------------ unit level (rpu)

def rpu_exhaustive(wcfg, alphabet, maxlen, minlen=1):
    for n in range(minlen, maxlen + 1):
        for ops in itertools.product(alphabet, repeat=n):
            yield "rpu fixed %s %s" % (wcfg, " ".join(ops))


def rpu_sweep(ws, span=140, base=70):
    """window arithmetic around one accepted number: accept <base>, then every pair (b, c) of
    numbers in 0..span - all relative positions (older/newer, inside/outside W, 63/64/65)"""
    for w in ws:
        for b in range(0, span + 1):
            for c in range(0, span + 1):
                yield "rpu fixed %s v%x v%x v%x" % (w, base, b, c)


UNIT_ALPHABET = ["v%x" % x for x in list(range(10)) + [64, 65, 200]] + ["r"]


# exponents of the integer widths that occur in the transcribed functions (uint8_t PIV bytes,
# uint16_t, int/uint32_t replay_window_size and ssn_freq, 40-bit sequence numbers, uint64_t
# counters and window word) - differences of 2^k and 2^k +- (small | window) are generated
# in every kind of history
WIDTH_K = [8, 16, 24, 31, 32, 33, 39]
WIDTH_K_UNIT = WIDTH_K + [40, 48, 63]


def width_delta(r, w, ks=WIDTH_K):
    k = r.choice(ks)
    e = r.choice([0, 0, 1, -1, 2, -2, 3, w - 1, w, w + 1, -(w - 1), -w, -(w + 1), 62, 63, 64, 65, -63, -64])
    m = r.choice([1, 1, 1, 2, 3])
    return max(1, m * (1 << k) + e)


def near(r, last, w, ks=WIDTH_K):
    """a sequence number aimed at the case boundaries of oscore_validate_sender_seq"""
    c = r.random()
    if c < 0.22:
        # a jump / a look back by a multiple of a power of two (+- window)
        d = width_delta(r, w, ks)
        return last + d if (r.random() < 0.5 or last - d < 0) else last - d
    c = r.random()
    if c < 0.30:
        d = r.choice([0, 1, 2, 3, w - 1, w, w + 1, 62, 63, 64, 65, 66])
        return max(0, last - d)
    if c < 0.60:
        d = r.choice([1, 2, 3, 31, 32, 62, 63, 64, 65, 66, 127, 128, 129, 200])
        return last + d
    if c < 0.70:
        return r.choice([0, 1, SEQ_MAX - 3, SEQ_MAX - 2, SEQ_MAX - 1, SEQ_MAX, SEQ_MAX + 1,
                         1 << 40, (1 << 40) + 5, 1 << 63, U64 - 1, U64])
    if c < 0.85:
        return r.randrange(0, 200)
    return max(0, last + r.randrange(-70, 70))


def width_probe_numbers(a, k, e, mult=1):
    """accept a, jump ahead by mult*2^k+e, then look back at a and its neighbours, and at the
    numbers that are one window / one word behind the new highest one"""
    hi = a + mult * (1 << k) + e
    return a, hi


def rpu_width_probes(ws, ks=WIDTH_K_UNIT):
    for w in ws:
        ww = weff(w)
        for k in ks:
            for mult in (1, 2):
                for e in sorted(set([0, 1, 2, 5, ww - 1, ww, ww + 1, 63, 64, -1, -2, -ww, -64])):
                    for a in (8, 0, 300):
                        hi = a + mult * (1 << k) + e
                        if hi <= a or hi >= (1 << 64):
                            continue
                        yield "rpu fixed %s v%x v%x v%x v%x v%x v%x v%x" % (
                            w, a, hi, a, a + 1, max(0, hi - 1), max(0, hi - ww), a)


def rpd_width_probes(ws, ks=WIDTH_K):
    for w in ws:
        ww = weff(w)
        for b12 in (0, 1):
            for k in ks:
                for mult in (1, 2):
                    for e in sorted(set([0, 2, 10, ww - 1, ww, 63, 64, -1, -ww])):
                        a = 8
                        hi = a + mult * (1 << k) + e
                        if hi <= a + 2 or hi >= SEQ_MAX:
                            continue
                        first = ("e%x" if b12 else "g%x") % a
                        # accept a, accept hi, replay a (same datagram), the never-seen a+1 and
                        # hi-1, a forgery claiming a+2, then a again
                        yield rpd_line(w, b12, 0, [first, "g%x" % hi, first, "g%x" % (a + 1),
                                                   "g%x" % (hi - 1), "f%x" % (a + 2), "P%x" % a, first])


def rpx_width_probes(ks=WIDTH_K):
    for b12 in (0, 1):
        for k in ks:
            for e in (0, 2, 10, 31, 32, 63, 64):
                a = 8
                hi = a + (1 << k) + e
                if hi >= SEQ_MAX:
                    continue
                first = ("e%x" if b12 else "g%x") % a
                # the jump is made by a notification; then the old request and an old
                # notification number come back, genuine and made up
                yield rpx_line("32", b12, [first, "q%x" % (a + 1), "N%x" % hi, first, "N%x" % (a + 1),
                                           "R%x" % a, "T%x" % (a + 2), "g%x" % (a + 2), first])


def rpu_random(r):
    wcfg = r.choice(WINDOWS)
    w = weff(wcfg)
    ops = []
    last = r.choice([0, 0, 5, 70, 1000, SEQ_MAX - 70])
    for _ in range(r.choice([2, 4, 6, 9, 14])):
        if ops and r.random() < 0.25:
            ops.append("r")
            continue
        s = near(r, last, w, WIDTH_K_UNIT)
        s = min(max(s, 0), U64)
        ops.append("v%x" % s)
        if s < SEQ_MAX and s > last:
            last = s
    return "rpu fixed %s %s" % (wcfg, " ".join(ops))


# ------------------------------------------------------------------ request level (rpd)

def forgeable(kind, seq):
    if kind == "P":
        return 0 <= seq <= SEQ_MAX + 0 and seq < (1 << 40)
    return 0 <= seq < SEQ_MAX


def rpd_line(wcfg, b12, con, msgs):
    return "rpd fixed %s %d %d %s" % (wcfg, b12, con, " ".join(msgs))


def rpd_exhaustive(wcfg, b12, alphabet, maxlen, minlen=1):
    for n in range(minlen, maxlen + 1):
        for ms in itertools.product(alphabet, repeat=n):
            yield rpd_line(wcfg, b12, 0, ms)


REQ_ALPHABET = ["g0", "g1", "g2", "g3", "g43", "e1", "f2", "P44", "F0", "K3", "2g1", "S4.3", "S2.8"]
# recipient management interleaved with deliveries (ids 2 and 3 are configured; 3 is the head of
# the chain, 2 its tail; 4 is new)
MGMT_ALPHABET = ["g1", "g2", "e1", "2g1", "f3", "+2", "+3", "+4", "-2", "-3", "-4"]


def rpd_random(r):
    wcfg = r.choice(WINDOWS + ["-"])
    w = weff(wcfg)
    b12 = r.choice([0, 1, 1, 0, 2])       # 2: rfc8613_b_1_2 not in the configuration (default: on)
    con = 1 if r.random() < 0.2 else 0
    msgs = []
    sent = []
    last = r.choice([0, 0, 3, 70, 500, SEQ_MAX - 80])
    n = r.choice([3, 5, 8, 12, 20])
    mgmt = r.random() < 0.35                     # histories with recipient management calls
    for i in range(n):
        c = r.random()
        if mgmt and r.random() < 0.2:
            msgs.append(r.choice(["+2", "+2", "+3", "+3", "+4", "-2", "-3", "-4"]))
            continue
        if sent and c < 0.25:
            msgs.append(r.choice(sent))          # replay on the wire
            continue
        if c < 0.50:
            kind = r.choice(FORGE_KINDS)
        elif b12 and c < 0.65:
            kind = r.choice("ex")
        else:
            kind = "g"
        if b12 and i == 0 and r.random() < 0.6:
            kind = "e"                           # arm the window early in most histories
        s = near(r, last, w)
        if kind == "P":
            s = min(s, SEQ_MAX)
        elif s >= SEQ_MAX:
            s = SEQ_MAX - 1 - r.randrange(0, 3)      # the highest number a sender can use
        tok = "%s%x" % (kind, s)
        if kind == "S":
            tok += ".%d" % r.choice(SHORT_LENS)
        if kind == "A":
            tok += ".%d" % r.randrange(1, 26)
        if kind != "F" and r.random() < 0.15:
            tok = "2" + tok                      # the other recipient context of the server
        msgs.append(tok)
        if kind in GEN_KINDS:
            sent.append(tok)
            if s > last and tok[0] != "2":
                last = s
    return rpd_line(wcfg, b12, con, msgs)


def strip_hashes(out):
    """C output -> what the model prints (the ciphertext hashes of the nonce tags removed)"""
    import re
    return re.sub(r"#[0-9a-f]{8}", "", out)


def nonce_tags(o):
    """step result -> (result without tags, [(kind 'o'|'r', own piv or None, hash)])"""
    core, _, rest = o.partition("~")
    tags = []
    for t in (rest.split("~") if rest else []):
        body, _, h = t.partition("#")
        tags.append((body[0], body[1:] or None, h))
    return core, tags


def oracle_nonces(steps):
    """steps: [(request ident, [(kind, ownpiv, hash)])] - one (Sender Key, nonce) for two different
    ciphertexts is a nonce reuse"""
    seen = {}
    bad = []
    for i, (req, tags) in enumerate(steps):
        for kind, own, h in tags:
            ident = ("own", own) if kind == "o" else ("req",) + tuple(req)
            if ident in seen and seen[ident][1] != h:
                bad.append("step %d: the node protected two different messages with the same nonce (%s; first at step %d)"
                           % (i, "its own Partial IV %s" % own if kind == "o" else "the nonce of request PIV %x" % req[-1], seen[ident][0]))
            seen.setdefault(ident, (i, h))
    return bad


def parse_rpd(line, out):
    """-> (wcfg, b12, [(ctx, kind, seq, verdict, (state ctx0, state ctx1))]) or None.
    Management tokens +<id> / -<id>: kind '+' / '-', seq = id, verdict = return value."""
    t = line.split()
    msgs = t[5:]
    res = out.split()
    if len(res) != len(msgs) or not msgs:
        return None
    steps = []
    for m, o in zip(msgs, res):
        o = nonce_tags(o)[0]
        parts = o.split("/")
        f = parts[0].split(",")
        if len(f) != 4:
            return None
        st0 = tuple(f[1:])
        st1 = tuple(parts[1].split(",")) if len(parts) > 1 else ("0", "0", "1")
        if m[0] in "+-":
            rid = int(m[1:], 16)
            steps.append(({2: 0, 3: 1}.get(rid, -1), m[0], rid, f[0], (st0, st1)))
            continue
        who = 1 if m[0] == "2" else 0
        mm = m[who:]
        steps.append((who, mm[0], tok_seq(mm), f[0], (st0, st1)))
    return t[2], int(t[3]), steps


ABSENT = ("-", "-", "-")
INIT = ("0", "0", "1")


def oracle_rpd(line, out):
    """The property, evaluated on what the implementation did.  -> list of failure strings."""
    p = parse_rpd(line, out)
    if p is None:
        return ["unparsable result: %s" % out[:80]]
    wcfg, b12, steps = p
    bad = oracle_nonces([((st[0], st[2]), nonce_tags(o)[1]) for st, o in zip(steps, out.split())
                         if st[1] not in "+-"])
    accepted = ([], [])          # per lifetime of a recipient context
    prev = (INIT, INIT)
    for i, (who, kind, seq, verdict, st) in enumerate(steps):
        if kind in "+-":
            # recipient management: an id that exists is not added again and its window is not
            # touched; delete + add gives a new context (initial state, new lifetime)
            for c in (0, 1):
                if c != who and st[c] != prev[c]:
                    bad.append("step %d: %s%x changed the replay state of another recipient context %s -> %s"
                               % (i, kind, seq, ",".join(prev[c]), ",".join(st[c])))
            if who >= 0:
                present = prev[who] != ABSENT
                if kind == "+":
                    if present and (verdict != "0" or st[who] != prev[who]):
                        bad.append("step %d: recipient id %x added again (returned %s): the replay state of "
                                   "the existing context went %s -> %s" % (i, seq, verdict, ",".join(prev[who]), ",".join(st[who])))
                    if not present and (verdict != "1" or st[who] != INIT):
                        bad.append("step %d: adding recipient id %x returned %s, state %s" % (i, seq, verdict, ",".join(st[who])))
                    if not present and verdict == "1":
                        del accepted[who][:]
                else:
                    if present != (verdict == "1") or st[who] != ABSENT:
                        bad.append("step %d: deleting recipient id %x returned %s, state %s" % (i, seq, verdict, ",".join(st[who])))
            prev = st
            continue
        acc = accepted[who]
        if st[1 - who] != prev[1 - who]:
            bad.append("step %d: a message for one recipient context changed the replay state of the other %s -> %s"
                       % (i, ",".join(prev[1 - who]), ",".join(st[1 - who])))
        if prev[who] == ABSENT:
            if verdict == "A" or st[who] != ABSENT:
                bad.append("step %d: a message for a recipient id that does not exist was accepted / created state" % i)
        elif kind in FORGE_KINDS:
            if verdict == "A":
                bad.append("step %d: message failing authentication (claimed PIV %x) reached the handler" % (i, seq))
            if st[who] != prev[who]:
                bad.append("step %d: forged message (claimed PIV %x) changed the replay state %s -> %s"
                           % (i, seq, ",".join(prev[who]), ",".join(st[who])))
        else:
            if verdict == "A":
                if seq in acc:
                    bad.append("step %d: PIV %x accepted a second time" % (i, seq))
                acc.append(seq)
            elif prev[who][2] == "0" and seq < SEQ_MAX and acc and seq > max(acc):
                bad.append("step %d: genuine PIV %x newer than everything accepted was rejected (%s)"
                           % (i, seq, verdict))
            elif (prev[who][2] == "0" and seq < SEQ_MAX and acc and seq not in acc
                  and max(acc) - seq < weff(wcfg)):
                bad.append("step %d: genuine PIV %x inside the window and never accepted was rejected (%s)"
                           % (i, seq, verdict))
        prev = st
    return bad


def rps_of(line):
    """the same history for the specification-only handler"""
    t = line.split()
    return "rps %s %s %s" % (t[2], t[3], " ".join(t[5:]))


# ------------------------------------------------------------------ sender (sst)

FREQS = [0, 1, 2, 3, 4, 7, 10, 100, 255, 256, 65535, 65536, 65537, (1 << 31) - 1, 1 << 31, (1 << 31) + 1,
         4294967294, 4294967295]


def sst_random(r):
    f = r.choice(FREQS)
    ff = f or 1
    c = r.random()
    if c < 0.5:
        start = r.choice([0, 1, ff - 1, ff, ff + 1, 2 * ff - 1, 2 * ff, 5 * ff + 1, r.randrange(0, 1000)])
    elif c < 0.65:
        # around the widths of next_seq / ssn_freq arithmetic
        k = r.choice([8, 16, 31, 32, 33, 39])
        start = max(0, r.choice([1, 1, 2, 3]) * (1 << k) + r.choice([0, 1, -1, 2, -2, ff, -ff, ff - 1, -(ff - 1)]))
        start = min(start, 1 << 40)
    elif c < 0.8:
        start = SEQ_MAX - r.choice([0, 1, 2, 3, 4, 5, 9, 12, 40])
    elif c < 0.9:
        start = r.choice([1 << 40, (1 << 40) + 1, 1 << 41, 1 << 63])   # outside the domain: nothing is ever sent
    else:
        start = r.randrange(0, 1 << 40)
    ops = []
    for _ in range(r.choice([3, 6, 10, 16, 30])):
        if r.random() < 0.2:
            ops.append("c%d" % r.choice(FREQS))
        else:
            ops.append("p")
    return "sst %d %x %s" % (f, start, " ".join(ops))


def sst_exhaustive(maxlen):
    for f in (1, 2, 3):
        for start in (0, 1, 2, 5):
            for n in range(1, maxlen + 1):
                for ops in itertools.product(["p", "c1", "c3"], repeat=n):
                    yield "sst %d %x %s" % (f, start, " ".join(ops))


def oracle_sst(line, out):
    t = line.split()
    ops = t[3:]
    res = out.split()
    if len(res) != len(ops):
        return ["unparsable result: %s" % out[:80]]
    bad = []
    seen = {}
    for i, o in enumerate(res):
        piv = o.split("/")[0]
        if piv in ("-",):
            continue
        if piv in seen:
            bad.append("step %d: Partial IV %s used again (first at step %d)" % (i, piv, seen[piv]))
        seen[piv] = i
        if piv == "nopiv":
            bad.append("step %d: request protected without a Partial IV" % i)
    return bad


# ------------------------------------------------------------------ whole exchanges (rpe)

def rpe_cases(quick):
    ws = ["1", "2", "3", "32", "64"] if quick else WINDOWS
    ns = [1, 2, 3, 5, 8] if quick else [1, 2, 3, 4, 5, 8, 13, 20]
    for w in ws:
        for b12 in (0, 1):
            for con in (0, 1):
                for n in ns:
                    for rep in (0, 1, 3, 5, 7):
                        if rep and n > 8:
                            continue
                        yield "rpe %s %d %d %d %d" % (w, b12, con, n, rep)
    # the client's sender sequence number jumps (it resumed from a persisted number) by
    # 2^k + e before some requests; every earlier datagram is replayed after every request
    for w in (["32"] if quick else ["2", "32", "64"]):
        for b12 in (0, 1):
            for k in WIDTH_K:
                for e in ((0, 10) if quick else (0, 1, 10, 31, 32, 64)):
                    yield "rpe %s %d %d %d %d %d %d %x" % (w, b12, 0, 4, 1, 1, 0, (1 << k) + e)
    # the client process dies and restarts from the saved sender sequence number
    for w in (["2", "32"] if quick else ["1", "2", "32", "64"]):
        for b12 in (0, 1):
            for freq in ([1, 3, 10] if quick else [0, 1, 2, 3, 7, 10, 100]):
                for every in ([1, 2, 3] if quick else [1, 2, 3, 5]):
                    for rep in (0, 1):
                        yield "rpe %s %d %d %d %d %d %d" % (w, b12, 0, 7 if quick else 12, rep, freq, every)


def parse_rpe(line, out):
    """-> (rpd line for the model, [impl step strings], summary dict) or None"""
    if "|" not in out:
        return None
    t = line.split()
    left, right = out.split("|", 1)
    toks, steps = [], []
    for item in left.split():
        if ":" not in item:
            return None
        tok, st = item.split(":", 1)
        kind = {"g": "g", "e": "e", "r": "g", "f": "f", "t": "f"}.get(tok[0])
        if kind is None:
            return None
        toks.append(kind + tok[1:])
        steps.append(st)
    summ = dict(x.split("=", 1) for x in right.split())
    return rpd_line(t[1], int(t[2]), int(t[3]), toks), steps, summ


def oracle_rpe(line, out):
    p = parse_rpe(line, out)
    if p is None:
        return ["unparsable result: %s" % out[:100]]
    rline, steps, summ = p
    nreq = int(line.split()[4])
    bad = oracle_rpd(rline, " ".join(steps)) if steps else []
    ok = int(summ.get("ok", "-1"))
    if ok != nreq:
        bad.append("%d requests sent through the client API, %d answered 2.05 (codes %s)"
                   % (nreq, ok, summ.get("codes")))
    if int(summ.get("noncedup", "0")) != 0:
        bad.append("the server protected two different datagrams with the same nonce")
    if int(summ.get("spivdup", "0")) != 0:
        bad.append("the server protected two datagrams with the same Partial IV")
    if int(summ.get("handler", "0")) < nreq:
        bad.append("%d requests sent, the request handler ran %s times" % (nreq, summ.get("handler")))
    return bad


# ------------------------------------------------------------------ client-and-server endpoint (rpx)

RESP_GENUINE = "qN"
RESP_FORGED = "TRZW"
RPX_ALPHABET = ["g1", "g3", "e2", "f4", "q2", "N4", "N6", "T5", "R6", "R3", "Z7", "W1", "S5.2", "R7.4"]


def rpx_ok(ops):
    """N/T/R need an outstanding Observe registration (q); at most 4 of those"""
    seen_q = False
    nq = 0
    for o in ops:
        if o[0] == "q":
            seen_q = True
            nq += 1
        elif o[0] in "NTRW" and not seen_q:
            return False
    return nq <= 4


def rpx_line(wcfg, b12, ops):
    return "rpx fixed %s %d %s" % (wcfg, b12, " ".join(ops))


def rpx_exhaustive(wcfg, b12, alphabet, maxlen):
    for n in range(1, maxlen + 1):
        for ops in itertools.product(alphabet, repeat=n):
            if rpx_ok(ops):
                yield rpx_line(wcfg, b12, ops)


def rpx_random(r):
    wcfg = r.choice(WINDOWS)
    w = weff(wcfg)
    b12 = r.choice([0, 1])
    ops, sent = [], []
    last = r.choice([0, 0, 3, 70, 500, SEQ_MAX - 80])
    have_q = False
    nq = 0
    for i in range(r.choice([3, 5, 8, 12, 18])):
        c = r.random()
        if sent and c < 0.15:
            ops.append(r.choice(sent))
            continue
        if (not have_q and c < 0.5) or (c < 0.22 and nq < 3):
            kind = "q"
        elif c < 0.55 and have_q:
            kind = r.choice("NNNTTRRW")
        elif c < 0.62:
            kind = "Z"
        elif c < 0.75:
            kind = r.choice("fPKOSSM")
        elif b12 and c < 0.85:
            kind = r.choice("ex")
        else:
            kind = "g"
        s = near(r, last, w)
        if kind in "PRZW":
            s = min(s, SEQ_MAX)
        elif s >= SEQ_MAX:
            s = SEQ_MAX - 1 - r.randrange(0, 3)
        tok = "%s%x" % (kind, s)
        if kind == "S" or (kind == "R" and r.random() < 0.5):
            tok += ".%d" % r.choice([x for x in SHORT_LENS if x or kind == "S"])
        if kind == "q":
            have_q = True
            nq += 1
        ops.append(tok)
        if kind in "geN":
            sent.append(tok)
        if kind in "gexqN" and s > last:
            last = s
    return rpx_line(wcfg, b12, ops)


def oracle_rpx(line, out):
    t = line.split()
    ops = t[4:]
    res = out.split()
    if len(res) != len(ops) or not ops:
        return ["unparsable result: %s" % out[:80]]
    wcfg = t[2]
    bad = oracle_nonces([((tok_seq(op),), nonce_tags(o)[1]) for op, o in zip(ops, res)])
    accepted = []
    prev = ("0", "0", "1")
    for i, (op, o) in enumerate(zip(ops, res)):
        f = nonce_tags(o)[0].split(",")
        if len(f) != 4:
            return ["unparsable result: %s" % out[:80]]
        kind, seq, verdict, st = op[0], tok_seq(op), f[0], tuple(f[1:])
        what = "response" if kind in RESP_GENUINE + RESP_FORGED else "request"
        if kind in FORGE_KINDS or kind in RESP_FORGED:
            if verdict == "A":
                bad.append("step %d: %s failing authentication (claimed PIV %x) was delivered" % (i, what, seq))
            if st != prev:
                bad.append("step %d: forged %s (claimed PIV %x) changed the replay state %s -> %s"
                           % (i, what, seq, ",".join(prev), ",".join(st)))
        else:
            armed = prev[2] == "0"
            if verdict == "A":
                if what == "request" or armed:
                    if seq in accepted:
                        bad.append("step %d: PIV %x accepted a second time (%s)" % (i, seq, what))
                    accepted.append(seq)
            elif what == "response" and not armed and seq < SEQ_MAX:
                bad.append("step %d: genuine response PIV %x was not delivered (context in its initial state)" % (i, seq))
            elif armed and seq < SEQ_MAX and accepted and seq > max(accepted):
                bad.append("step %d: genuine %s PIV %x newer than everything accepted was rejected (%s)"
                           % (i, what, seq, verdict))
            elif (armed and seq < SEQ_MAX and accepted and seq not in accepted
                  and max(accepted) - seq < weff(wcfg)):
                bad.append("step %d: genuine %s PIV %x inside the window and never accepted was rejected (%s)"
                           % (i, what, seq, verdict))
        prev = st
    return bad

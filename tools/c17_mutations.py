import sys, re
which = sys.argv[1]
p = "/var/tmp/verif.wt.C17/src/coap_subscribe.c"
q = "/var/tmp/verif.wt.C17/src/coap_resource.c"
s = open(p).read(); r = open(q).read()
def sub_in(fn_start, old, new, text):
    i = text.index(fn_start)
    j = text.index(old, i)
    return text[:j] + new + text[j+len(old):]
if which == "M1":   # counter updater: no fflush, rename before fclose
    s = sub_in("coap_op_obs_cnt_track_observe(coap_context_t *context,",
      '''  if (fflush(fp_new) == EOF)
    goto fail;
  fclose(fp_new);
  if (fp_orig)
    fclose(fp_orig);
  /* Either old or new is in place */
  (void)rename(new, (const char *)context->obs_cnt_save_file->s);''',
      '''  /* Either old or new is in place */
  (void)rename(new, (const char *)context->obs_cnt_save_file->s);
  fclose(fp_new);
  if (fp_orig)
    fclose(fp_orig);''', s)
elif which == "M2":  # rounding off by one
    s = s.replace("context->observe_save_freq - 1;", "context->observe_save_freq - 2;")
elif which == "M3":  # save one notification late
    r = r.replace("if ((r->observe % r->context->observe_save_freq) == 0)", "if ((r->observe % r->context->observe_save_freq) == 1)")
elif which == "M4":  # observe_deleted keeps the record when it is the last one of the file (rare path)
    s = sub_in("coap_op_observe_deleted(coap_session_t *session,",
      "    if (observe_key != d_observe_key) {", "    if (observe_key != d_observe_key || oscore_info) {", s)
elif which == "M5":  # startup order: observations before dynamic resources
    a = s.index("  if (dyn_resource_save_file) {", s.index("coap_persist_startup_lkd(coap_context_t *context,"))
    b = s.index("  if (obs_cnt_save_file) {", a)
    c = s.index("  if (observe_save_file) {", b)
    d = s.index("  return 1;", c)
    s = s[:a] + s[c:d] + s[a:b] + s[b:c] + s[d:]
elif which == "M6":  # dyn updater writes the new file in place (no temporary)
    s = sub_in("coap_op_dyn_resource_added(coap_session_t *session,", '''  (void)rename(new, (const char *)context->dyn_resource_save_file->s);''',
       '''  (void)rename(new, (const char *)context->dyn_resource_save_file->s);
  (void)remove(new);''', s)
elif which == "M7":  # resource_deleted: the record behind a deleted one is dropped too (needs >= 2 dynamic resources, delete not the last)
    s = sub_in("coap_op_resource_deleted(coap_context_t *context,", "  coap_binary_t *raw_packet = NULL;\n", "  coap_binary_t *raw_packet = NULL;\n  int skip_next = 0;\n", s)
    s = sub_in("coap_op_resource_deleted(coap_context_t *context,", '''    if (!coap_string_equal(resource_name, name)) {
      /* Copy across non-matching entry */''', '''    if (skip_next) {
      skip_next = 0;
    } else if (coap_string_equal(resource_name, name)) {
      skip_next = 1;
    } else {
      /* Copy across non-matching entry */''', s)
elif which == "H1":  # harmless: build the temporary name with snprintf, loop restructured
    s = s.replace('''  strcpy(new, (const char *)context->obs_cnt_save_file->s);
  strcat(new, ".tmp");''', '''  snprintf(new, context->obs_cnt_save_file->length + 5, "%s.tmp",
           (const char *)context->obs_cnt_save_file->s);''')
    s = sub_in("coap_op_observe_deleted(coap_session_t *session,", '''  while (1) {
    if (!coap_op_observe_read(fp_orig, &observe_key, &e_proto, &e_listen_addr,
                              &s_addr_info, &raw_packet, &oscore_info))
      break;''', '''  while (coap_op_observe_read(fp_orig, &observe_key, &e_proto, &e_listen_addr,
                              &s_addr_info, &raw_packet, &oscore_info)) {''', s)
elif which == "H2":  # harmless: a larger line buffer does not change behaviour on the files used... (changes fgets cap!)
    pass
open(p, "w").write(s); open(q, "w").write(r)

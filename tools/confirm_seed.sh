#!/bin/bash
# confirm_seed.sh <seed worktree of /repo> <dir with patch.diff, build_and_run.sh>
# Confirms: patch applies to clean HEAD, library builds, 176 unit tests pass with it, the demo
# FAILS with it and PASSES without it.  Leaves the worktree source clean.
set -u
WT=$1; M=$2
cd "$WT" || exit 2
git checkout -q -- src include 2>/dev/null
git apply --check "$M/patch.diff" || { echo "CONFIRM: patch does not apply"; exit 1; }
git apply "$M/patch.diff"
cmake -G Ninja -B _build -DENABLE_TESTS=ON >/dev/null 2>&1
cmake --build _build >/dev/null 2>&1 || { echo "CONFIRM: build failed with patch"; git checkout -q -- src include; exit 1; }
T=$(./_build/testdriver 2>&1 | grep -E "^ *tests" | awk '{print $2,$3,$4,$5}')
echo "CONFIRM: tests with patch: $T"
( cd "$M" && timeout 300 bash "$M/build_and_run.sh" >/tmp/confirm_seed.$$.with 2>&1 ); RW=$?
echo "CONFIRM: demo with patch rc=$RW: $(tail -1 /tmp/confirm_seed.$$.with)"
git checkout -q -- src include
cmake --build _build >/dev/null 2>&1
( cd "$M" && timeout 300 bash "$M/build_and_run.sh" >/tmp/confirm_seed.$$.without 2>&1 ); RO=$?
echo "CONFIRM: demo without patch rc=$RO: $(tail -1 /tmp/confirm_seed.$$.without)"
rm -f /tmp/confirm_seed.$$.*
if [ $RW -ne 0 ] && [ $RO -eq 0 ]; then echo "CONFIRM: OK"; exit 0; fi
echo "CONFIRM: NOT CONFIRMED"; exit 1

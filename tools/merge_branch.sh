#!/bin/bash
# merge_branch.sh Cxx : merge branch w/Cxx into main, regenerate the manifest, rebuild, run the
# quick check in /verif against /repo and validate manifest + evidence.  Coordinator use only.
set -u
P=$1
cd /verif
git checkout -q -- evidence/$P.json 2>/dev/null
if ! git merge --no-edit -q w/$P; then
  # conflicts in evidence files only (both sides re-ran the check): take the branch's, it is
  # rewritten below anyway
  BAD=$(git diff --name-only --diff-filter=U | grep -v '^evidence/' || true)
  if [ -n "$BAD" ]; then echo "MERGE CONFLICT in: $BAD"; exit 1; fi
  for f in $(git diff --name-only --diff-filter=U); do git checkout --theirs -- "$f"; git add "$f"; done
  git commit -q --no-edit
fi
python3 tools/manifest_gen.py
bash tools/setup.sh > .build/setup.$P.log 2>&1 || { echo "SETUP FAILED"; tail -20 .build/setup.$P.log; exit 1; }
if [ -f tools/checks/$(echo $P | tr A-Z a-z).py ]; then
  /usr/bin/time -f "wall %e s" python3 tools/check.py $P --tier quick > .build/check.$P.out 2> .build/check.$P.err; RC=$?
  echo "check rc=$RC"; cat .build/check.$P.out | head -20; tail -3 .build/check.$P.err
  python3-vt - <<PY
import jsonschema, json
jsonschema.validate(json.load(open('MANIFEST.json')), json.load(open('/root/.vp/MANIFEST.schema.json')))
e = json.load(open('evidence/$P.json'))
jsonschema.validate(e, json.load(open('/root/.vp/EVIDENCE.schema.json')))
c = e['coverage']
print('evidence ok: level', e['level'], 'obl', c.get('obligations'), 'disch', c.get('discharged'), 'eval', c.get('evaluations'), 'distinct', c.get('distinct_nontrivial'), 'viol', e.get('violations'))
PY
fi
grep -rn "Admitted\|admit\.\|Axiom\|Parameter \|Conjecture" coq --include=*.v | grep -v "^coq/Extract.v" | head -5

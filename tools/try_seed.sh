#!/bin/bash
# try_seed.sh <patch.diff> <tier> <Cxx> [Cyy ...] : run checks against a scratch worktree of /repo
# with the patch applied (never touches /repo's working tree); prints the VIOLATION lines.
set -u
P=$(readlink -f "$1"); TIER=$2; shift 2
W=/var/tmp/verif.wt.seed.$$
git -C /repo worktree add -q "$W" HEAD || exit 2
( cd "$W" && git apply "$P" ) || { echo "patch failed"; git -C /repo worktree remove --force "$W"; exit 2; }
cd /verif
for pid in "$@"; do
  OUT=$(VERIF_REPO=$W timeout 3000 python3 tools/check.py $pid --tier $TIER 2>&1); RC=$?
  echo "== $pid rc=$RC"; echo "$OUT" | grep -E "VIOLATION|KNOWN-FINDING|violation detail" | head -8
done
git -C /repo worktree remove --force "$W"
H=$(python3 -c "import hashlib;print(hashlib.md5('$W'.encode()).hexdigest()[:8])")
rm -rf /verif/.build/alt-$H

"""C20 - /.well-known/core lists exactly the registered resources in any window/filter
(DESIGN.md section 6, C20).  Proof: coq/Properties_C20.v.  Tie: the extracted printers
(lf_print_wellknown, lf_print_link, lf_get_wellknown) against coap_print_wellknown /
coap_print_link of the library objects built from the working tree, on generated resource
tables x filters x all (offset, buflen) windows.  Oracle (implementation only): every window is
the slice of what the code printed into a large buffer (C driver) and that full print is the
RFC 6690 listing of the registered resources restricted by the filter (tools/gen_link.py)."""
import concurrent.futures
import re

import vlib
import tie
import gen_link

RULE = ("case = (registration op sequence, filter, window set) run through coap_print_wellknown or "
        "coap_print_link; window set = all (offset, buflen) in [0,L+2]^2 or, for long listings, "
        "the pairs around every link/attribute boundary; non-trivial = the table has >= 2 listed "
        "resources or the filter selects a proper non-empty subset, and >= 9 windows were compared; "
        "distinct = distinct case lines")

WORKERS = 4
# exclusive UDP ports (no SO_REUSEADDR) and a frozen library clock: see harness/h_link.c
WRAPS = ["setsockopt", "coap_ticks"]


def par_run(exe, lines, env=None, timeout=1500):
    """run_lines_robust over WORKERS interleaved shards -> (outputs aligned with lines, crashes)"""
    if not lines:
        return [], []
    shards = [list(range(k, len(lines), WORKERS)) for k in range(WORKERS)]
    outs = [None] * len(lines)
    crashes = []

    def work(idx):
        return idx, vlib.run_lines_robust(exe, [lines[i] for i in idx], timeout=timeout, env=env)

    with concurrent.futures.ThreadPoolExecutor(max_workers=WORKERS) as ex:
        for idx, (o, cr) in ex.map(work, [s for s in shards if s]):
            for j, i in enumerate(idx):
                outs[i] = o[j]
            for (j, rc, err) in cr:
                crashes.append((idx[j], rc, err))
    return outs, crashes


ORACLE = re.compile(r"(?: blocks=(\S+))? oracle=(\S+)$")


def split_oracle(c_out):
    """-> (what the model prints too, the driver's own verdict | None)"""
    m = ORACLE.search(c_out)
    if not m:
        return c_out, None
    return c_out[:m.start()], m.group(2)


def blocks_of(c_out):
    m = ORACLE.search(c_out)
    return [int(x) for x in m.group(1).split(",")] if m and m.group(1) else []


UNESC = set(b"ABCDEFGHIJKLMNOPQRSTUVWXYZabcdefghijklmnopqrstuvwxyz0123456789-._~!$'()*+,;=:@/?")


def escape_query(q):
    return b"".join(bytes([c]) if c in UNESC else b"%%%02X" % c for c in q)


def parse_get(line):
    """lfget <mode> {ops} {F <q>}* {B szx}* -> (mode, ops, q|None (options joined by '&'), [szx])"""
    t = line.split()
    mode = int(t[1])
    fi = t.index("F") if "F" in t else len(t)
    _, _, ops, _, _ = parse_case("lfwk " + " ".join(t[2:fi]) + " F ~")
    qs = [b"" if t[i + 1] == "-" else bytes.fromhex(t[i + 1])
          for i in range(fi, len(t) - 1) if t[i] == "F" and t[i + 1] != "~"]
    q = b"&".join(qs) if qs else None
    if q == b"":
        q = None
    szx = [int(t[i + 1]) for i in range(fi, len(t) - 1) if t[i] == "B"]
    return mode, ops, q, szx


def get_oracle(line, c_out):
    """GET through the server: every reassembled body is the listing restricted by the query,
    blocks have the requested size -> None | reason"""
    mode, ops, q, szxs = parse_get(line)
    want = gen_link.py_listing(ops, q)
    body, orc = split_oracle(c_out)
    unk = [o[0] for o in ops if o[0] in ("U", "UG", "UW")]
    if unk and unk[-1] == "UW":
        # the application asked for the request with COAP_RESOURCE_HANDLE_WELLKNOWN_CORE: its
        # unknown-resource GET handler (2.03 in the harness) answers, not the built-in listing
        return None if c_out.strip() == "203" else "unknown-resource handler with the WELLKNOWN_CORE flag not asked: " + c_out[:60]
    if not body.startswith("205 "):
        return "response " + c_out[:60]
    if orc != "ok":
        return "block check failed in the driver: %s" % orc
    fs = body.split()
    got = [b"" if fs[1] == "-" else bytes.fromhex(fs[1])]
    for f in fs[2:]:
        v = f.split("=", 1)[1]
        if v.startswith("CODE") or v == "NONE":
            return "block-wise GET answered with " + v
        got.append(b"" if v == "-" else bytes.fromhex(v))
    for k, g in enumerate(got):
        if g != want:
            how = "GET without Block2" if k == 0 else "block-wise GET with szx %d" % szxs[k - 1]
            return "%s delivers %d bytes %r.., the listing has %d bytes %r.." % (how, len(g), g[:40], len(want), want[:40])
    bl = blocks_of(c_out)
    cap = 64 if mode == 3 else 1024       # mode 3: libcoap block mode with max block size 64
    exp = [max(1, -(-len(want) // cap))] + [max(1, -(-len(want) // min(cap, 16 << z))) for z in szxs]
    if mode & 4:
        return None       # libcoap client: the block exchange is inside the library, bodies only
    if mode != 1:
        # block mode 0, or a capped block size: a GET without Block2 is answered in one PDU
        # whenever the listing fits - only the block-wise GETs have a prescribed block count
        bl, exp = bl[1:], exp[1:]
    if bl != exp:
        return "number of blocks %s, expected %s" % (bl, exp)
    return None


def get_known(run, line, c_out):
    """does a failing GET case match an open finding? -> finding | None"""
    mode, ops, q, szxs = parse_get(line)
    body, orc = split_oracle(c_out)
    fs = body.split()
    if len(fs) < 2 or fs[0] != "205" or orc != "ok":
        return None
    got = [b"" if f.split("=")[-1] == "-" else bytes.fromhex(f.split("=")[-1]) for f in fs[1:]]
    want = gen_link.py_listing(ops, q)

    def sig(kind):
        return run.match_known(lambda f: f.get("signature", {}).get("kind") == kind)
    if q is not None and any(c not in UNESC for c in q) and \
            all(g == gen_link.py_listing(ops, escape_query(q)) for g in got):
        return sig("escaped-query")
    if not (mode & 1) and len(want) > 1000 and all(len(g) < len(want) and want.startswith(g) and len(g) > 1000 for g in got):
        return sig("no-block-mode-truncation")
    return None


def parse_case(line):
    """-> (cmd, lkidx, ops, filter bytes|None, windows|None)"""
    t = line.split()
    cmd = t[0]
    i = 1
    lk = -1
    if cmd == "lflk":
        lk = int(t[1])
        i = 2
    ops = []

    def b(x):
        return b"" if x == "-" else bytes.fromhex(x)
    while i < len(t) and t[i] in ("R", "D", "U", "UG", "UW", "P", "M"):
        if t[i] == "M":
            ops.append(("M", int(t[i + 1])))
            i += 2
            continue
        if t[i] in ("U", "UG", "UW", "P"):
            ops.append((t[i], None))
            i += 1
            continue
        if t[i] == "D":
            ops.append(("D", b(t[i + 1])))
            i += 2
            continue
        p, fl, na = b(t[i + 1]), int(t[i + 2]), int(t[i + 3])
        i += 4
        attrs = []
        for _ in range(na):
            attrs.append((b(t[i]), None if t[i + 1] == "~" else b(t[i + 1])))
            i += 2
        ops.append(("R", p, fl, attrs))
    q = None
    if i < len(t) and t[i] == "F":
        q = None if t[i + 1] == "~" else b(t[i + 1])
        i += 2
    wins = None
    if i + 1 < len(t) and t[i] == "W" and t[i + 1] == "list":
        ws = t[i + 2:]
        wins = [(int(ws[k]), int(ws[k + 1])) for k in range(0, len(ws) - 1, 2)]
    return cmd, lk, ops, q, wins


def expected_full(line):
    """the listing (wk) or the link (lk) the property demands, from the case alone"""
    cmd, lk, ops, q, _ = parse_case(line)
    if cmd == "lfwk":
        return gen_link.py_listing(ops, q)
    tbl = gen_link.table_of_ops(ops)
    return gen_link.py_link(tbl[lk]) if 0 <= lk < len(tbl) else None


def impl_oracle(line, c_out):
    """property evaluated on the implementation's output alone -> None | reason"""
    body, orc = split_oracle(c_out)
    if c_out.startswith("CRASH") or c_out.startswith("<not run>"):
        return "driver crashed: " + c_out
    cmd = line.split()[0]
    if cmd == "lfget":
        return get_oracle(line, c_out)
    if cmd not in ("lfwk", "lflk"):
        return None
    want = expected_full(line)
    if want is None:
        return None
    m = re.match(r"n=(\d+)", body)
    if not m:
        return "no total reported: " + body[:80]
    if int(m.group(1)) != len(want):
        return "reported total %s, listing has %d bytes" % (m.group(1), len(want))
    if orc is not None and orc != "ok":
        return "window check failed in the driver: " + orc
    mf = re.search(r" full=(\S+)", body)
    if mf:
        got = b"" if mf.group(1) == "-" else bytes.fromhex(mf.group(1))
        if got != want:
            return "full print differs from the listing: got %r want %r" % (got[:80], want[:80])
    for mw in re.finditer(r" w=(\d+),(\d+):([0-9a-f-]+),(\d+),(.)(?:,(\d+))?(,OVERRUN)?", body):
        off, bl = int(mw.group(1)), int(mw.group(2))
        got = b"" if mw.group(3) == "-" else bytes.fromhex(mw.group(3))
        if mw.group(7):
            return "buffer overrun at window (%d,%d)" % (off, bl)
        if got != want[off:off + bl]:
            return "window (%d,%d): got %r want %r" % (off, bl, got[:60], want[off:off + bl][:60])
        if int(mw.group(4)) != len(want):
            return "window (%d,%d): total %s, listing has %d bytes" % (off, bl, mw.group(4), len(want))
        if bl > 0 and (mw.group(5) == "T") != (off + bl < len(want)):
            return "window (%d,%d): TRUNC flag %s, listing has %d bytes" % (off, bl, mw.group(5), len(want))
        if mw.group(5) == "E":
            return "window (%d,%d): error status" % (off, bl)
    return None


def locate_window(model, drv, line):
    """for a disagreeing 'W all' case: the first (offset, buflen) on which the two differ"""
    cmd, lk, ops, q, wins = parse_case(line)
    if wins is not None:
        return None
    want = expected_full(line) or b""
    n = len(want) + 2
    pairs = [(o, b) for o in range(n + 1) for b in range(n + 1)]
    head = " ".join(line.split()[:-2])
    for k in range(0, len(pairs), 1200):
        chunk = pairs[k:k + 1200]
        ln = head + " W list " + " ".join("%d %d" % p for p in chunk)
        om, _ = vlib.run_lines_robust(model, [ln])
        oc, _ = vlib.run_lines_robust(drv, [ln])
        wm = om[0].split(" w=")
        wc = split_oracle(oc[0])[0].split(" w=")
        for a, b in zip(wm[1:], wc[1:]):
            if a != b:
                return "model w=%s impl w=%s" % (a, b)
        if wm[0] != wc[0]:
            return "model %s impl %s" % (wm[0], wc[0])
    return None


def shrink_case(model, drv, line, bad):
    """drop resources / attributes while bad(line) still holds"""
    cmd, lk, ops, q, wins = parse_case(line)
    if cmd != "lfwk":
        return line

    def mk(o):
        return gen_link.case_line("lfwk", o, q, wins)
    changed = True
    steps = 0
    while changed and steps < 60:
        changed = False
        for i in range(len(ops)):
            cand = ops[:i] + ops[i + 1:]
            steps += 1
            if bad(mk(cand)):
                ops = cand
                changed = True
                break
        if changed:
            continue
        for i, op in enumerate(ops):
            if op[0] != "R":
                continue
            for j in range(len(op[3])):
                cand = list(ops)
                cand[i] = ("R", op[1], op[2], op[3][:j] + op[3][j + 1:])
                steps += 1
                if bad(mk(cand)):
                    ops = cand
                    changed = True
                    break
            if changed:
                break
    return mk(ops)


def gen_cases(run, r):
    quick = run.tier == "quick"
    lines, kinds = [], []
    ntab = 150 if quick else 1200
    nfil = 10 if quick else 14
    all_limit = 170 if quick else 330
    for ti in range(ntab):
        ops = gen_link.gen_table(r)
        tbl = gen_link.table_of_ops(ops)
        seen = set()
        for fi in range(nfil if tbl else 3):
            kind, q = gen_link.gen_filter(r, ops) if fi else ("none", None)
            if (kind, q) in seen:
                continue
            seen.add((kind, q))
            L = len(gen_link.py_listing(ops, q))
            if L <= all_limit:
                lines.append(gen_link.case_line("lfwk", ops, q))
            else:
                lines.append(gen_link.case_line("lfwk", ops, q, gen_link.boundary_windows(r, ops, q)))
            kinds.append(kind)
        # GET /.well-known/core through a server endpoint, with and without block mode
        for k in range(5 if quick else 6):
            kind, q = gen_link.gen_filter(r, ops) if k % 3 else ("none", None)
            if q is not None and len(q) > 200:
                continue
            if q == b"":
                q = None      # coap_pdu_parse rejects an empty Uri-Query option (C03's limit table)
            L = len(gen_link.py_listing(ops, q))
            mode = [1, 0, 3, 5, 4][k % 5] if quick else [1, 0, 3, 5, 4, 7][r.randrange(6)]
            if k % 3 and q is not None and r.random() < 0.5:
                # a filter that survives coap_get_query unchanged (F20c is exercised by the others)
                q = bytes(c for c in q if c in UNESC) or None
            szx = [z for z in range(7) if L <= 600 or z >= 2]
            # an application resource registered under .well-known/core takes the request itself
            # (the built-in handler is not called): not part of the GET cases
            gops = [o for o in ops if o[1] != gen_link.WK and o[0] in ("R", "D")]
            # server configurations: no unknown-resource handler / PUT only / with a GET handler /
            # with a GET handler and COAP_RESOURCE_HANDLE_WELLKNOWN_CORE (then it answers, 2.03)
            u = r.random()
            if u < 0.30:
                gops = gops + [("UG", None)]
            elif u < 0.40:
                gops = [("U", None)] + gops
            elif u < 0.46:
                gops = gops + [("UW", None)]
            t = ["lfget", str(mode)] + gen_link.ops_tokens(gops) + ["F", "~" if q is None else gen_link.tok(q)]
            if q is not None and r.random() < 0.12:
                t += ["F", gen_link.tok(r.choice([b"if=x", b"a", b"rt=temp*", b"&", b"x=%41"]))]
            for z in szx:
                t += ["B", str(z)]
            lines.append(" ".join(t))
            kinds.append("get-" + kind)
        # single links through coap_print_link
        for k in range(min(len(tbl), 2 if quick else 4)):
            i = r.randrange(len(tbl))
            if len(gen_link.py_link(tbl[i])) <= all_limit:
                lines.append(gen_link.case_line("lflk %d" % i, ops, None))
                kinds.append("link")
    # many resources: uthash expands its bucket array (iteration must stay in registration order)
    for n in ([40, 400] if quick else [40, 400, 1500, 5000]):
        ops = [("M", n)]
        L = len(gen_link.py_listing(ops, None))
        wins = [(0, 64), (L // 2, 40), (L - 30, 64), (0, 0), (L, 5), (17, L), (0, L + 2)]
        lines.append(gen_link.case_line("lfwk", ops, None, wins))
        kinds.append("many")
        lines.append(gen_link.case_line("lfwk", ops, b"rt=t3", [(0, 100), (L // 7, 33), (0, L)]))
        kinds.append("many")
    return lines, kinds


def main(run):
    run.cov["trusted_base"] = vlib.TRUSTED_COMMON + [
        "model: Link/LinkFormat.v (macros, coap_print_link, match, coap_print_wellknown_lkd, "
        "hnd_get_wellknown_lkd transcribed by hand; uthash iteration order = registration order is "
        "checked by the tie, not proved)",
        "tools/gen_link.py py_listing: Python reference of the listing used by the implementation-only oracle"]
    run.assumptions = [
        "0 <= buflen <= COAP_PRINT_STATUS_MAX (0x0FFFFFFF)",
        "a resource registered under .well-known/core itself is the application's replacement for the "
        "listing and is not listed; a filter without '=' selects nothing, one with an empty name all",
        "filter matching looks at the first attribute of that name in link_attr order (last added)"]
    run.prove()
    if run.tier == "thorough" and getattr(run, "proof_broken", None) is None:
        # independent re-check of the compiled proofs by the stand-alone checker
        rc, out = vlib.sh(["coqchk", "-silent", "-o", "-Q", ".", "LibcoapV", "LibcoapV.Properties_C20"],
                          cwd=vlib.COQ, timeout=1500, check=False)
        ok = rc == 0 and "* Axioms: <none>" in out and "type-in-type: <none>" in out
        run.cov["coqchk"] = "ok: axioms <none>" if ok else "FAILED"
        if not ok:
            run.violation("coqchk does not accept Properties_C20", out[-4000:], tag="coqchk", no_input=True)
    model = vlib.build_model()
    drv = vlib.build_driver("h_link", ["h_link.c"], wraps=WRAPS)
    r = tie.rng_for(run, "c20")

    corpus = list(vlib.read_corpus("C20"))
    lines = ["lfconst"] + corpus
    kinds = ["const"] + ["corpus"] * len(corpus)
    if getattr(run, "replay", None):
        # --replay <file>: only the cases named in a replay file ("case: ..." lines) or a case file
        rl = []
        for l in open(run.replay):
            l = l.strip()
            for pre in ("case: ", "original case: "):
                if l.startswith(pre):
                    l = l[len(pre):]
            if l.split(" ")[0] in ("lfwk", "lflk", "lfget"):
                rl.append(l)
        lines, kinds, corpus = ["lfconst"] + rl, ["const"] + ["replay"] * len(rl), []
    else:
        gl, gk = gen_cases(run, r)
        lines += gl
        kinds += gk

    om, _ = par_run(model, lines)
    oc, crashes = par_run(drv, lines)
    run.cov["driver_crashes"] = len(crashes)

    # sanitizer pass (overreads of the filter / attribute values show only here): corpus and the
    # filtered cases with a short window list - the filter code runs once per call
    san_lines = []
    if True:
        for ln, k in zip(lines, kinds):
            if k in ("const", "link"):
                continue
            if ln.startswith("lfget "):
                san_lines.append(ln)      # the handler (decoding, probe, print, block hand-off) under ASan
                continue
            cmd, lk, ops, q, wins = parse_case(ln)
            if q is None:
                continue
            san_lines.append(gen_link.case_line("lfwk", ops, q, [(0, 7), (3, 0), (1, 4096)]))
        if run.tier == "quick":
            san_lines = san_lines[:len(corpus) + 500]
        asan = vlib.build_driver("h_link", ["h_link.c"], variant="asan", wraps=WRAPS)
        env = {"ASAN_OPTIONS": "detect_leaks=0:abort_on_error=0:exitcode=99",
               "UBSAN_OPTIONS": "halt_on_error=1:exitcode=98"}
        osan, san_crashes = par_run(asan, san_lines, env=env)
        osm, _ = par_run(model, san_lines)
        run.cov["sanitizer_cases"] = len(san_lines)
        nb = 0
        for (i, rc, err) in san_crashes:
            nb += 1
            if nb <= 2:
                # vlib keeps only the tail of stderr: run the case once more for the full report
                try:
                    _, _, err = vlib.run_lines(asan, [], [san_lines[i]], timeout=120, env=env)
                except Exception:
                    pass
                m = re.search(r"ERROR: (?:AddressSanitizer|UndefinedBehaviorSanitizer): (\S+)", err) or \
                    re.search(r"runtime error: ([^\n]+)", err)
                frames = [f for f in re.findall(r"#\d+ 0x[0-9a-f]+ in (\S+)", err)
                          if "Interceptor" not in f and f not in ("bcmp", "memcmp")]
                what = "sanitizer trap (%s) in %s" % (m.group(1) if m else "rc=%d" % rc,
                                                     " <- ".join(frames[:3]) or "?")
                run.violation("memory error while listing: " + what,
                              "case: %s\nvariant: asan (clang -fsanitize=address,undefined)\n%s\n" % (san_lines[i], err[:6000]),
                              tag="asan%d" % nb)
        for i, ln in enumerate(san_lines):
            if osan[i].startswith("CRASH") or osan[i].startswith("<not run>"):
                continue
            why = impl_oracle(ln, osan[i])
            if (why or split_oracle(osan[i])[0] != osm[i]) and ln.startswith("lfget "):
                o2, _c = vlib.run_lines_robust(asan, [ln, ln], env=env)
                if not all(split_oracle(o)[0] == split_oracle(osan[i])[0] for o in o2):
                    run.cov["flaky_not_reproduced"] = run.cov.get("flaky_not_reproduced", 0) + 1
                    continue
            if why or split_oracle(osan[i])[0] != osm[i]:
                nb += 1
                if nb <= 3:
                    run.violation("asan build disagrees: %s" % (why or "model/impl differ"),
                                  "case: %s\nmodel: %s\nimpl(asan): %s\n" % (ln, osm[i], osan[i]),
                                  tag="asanout%d" % nb, no_input=not why)

    nbad = 0
    nwin = 0
    for i, ln in enumerate(lines):
        mo, co = om[i], oc[i]
        body, orc = split_oracle(co)
        k = kinds[i]
        run.hist("kind", k)
        if k == "const":
            run.count(ln, False)
            if mo != co:
                run.violation("constants of the model differ from the headers: model %s, code %s" % (mo, co),
                              "case: lfconst\nmodel: %s\nimpl: %s\n" % (mo, co), tag="const", no_input=True)
            continue
        if ln.startswith("lfget "):
            mode, ops, q, szxs = parse_get(ln)
            tbl = gen_link.table_of_ops(ops)
            want = gen_link.py_listing(ops, q)
            run.count(ln, want.count(b"</") >= 2 and len(szxs) >= 3)
            run.hist("get_mode", mode)
            run.hist("get_listing_bytes", "0" if not want else "<=16" if len(want) <= 16 else "<=64" if len(want) <= 64 else "<=1024" if len(want) <= 1024 else ">1024")
            why = get_oracle(ln, co)
            if i % 41 == 3:
                run.sample({"case": ln[:300], "impl": co[:160], "listing": want.decode("latin-1")[:120]})
            if why is None and mo == body:
                continue
            # a GET verdict is reported only if it reproduces: the case alone, in a fresh driver
            # process, twice, failing the same way both times
            reruns = []
            for _ in range(2):
                o2, _c = vlib.run_lines_robust(drv, [ln])
                reruns.append(o2[0])
            same = all((get_oracle(ln, o) is not None) == (why is not None) and split_oracle(o)[0] == body
                       for o in reruns)
            if not same:
                run.cov["flaky_not_reproduced"] = run.cov.get("flaky_not_reproduced", 0) + 1
                vlib.log("note (C20): GET case did not reproduce alone (first: %s; reruns: %s): %s"
                         % (why or "model/impl differ", [get_oracle(ln, o) for o in reruns], ln[:120]))
                continue
            kf = get_known(run, ln, co) if why else None
            if kf is not None and (mo == body or not (mode & 1)):
                run.known(kf, "case: " + ln[:160])
                run.hist("known_finding", kf["id"])
                continue
            nbad += 1
            if nbad <= 3:
                txt = ("case: %s\nquery option: %r\nexpected listing: %r\nmodel (proved): %s\nimpl: %s\n"
                       "oracle on the implementation: %s\n" % (ln, q, want, mo, co, why or "ok"))
                if why:
                    run.violation("GET /.well-known/core violates the property (%s): %s" % (k, why), txt, tag="get%d" % nbad)
                else:
                    run.violation("model and implementation disagree on the GET path (%s), oracle holds" % k,
                                  txt, tag="gettie%d" % nbad, no_input=True)
            continue
        cmd, lk, ops, q, wins = parse_case(ln)
        tbl = gen_link.table_of_ops(ops)
        want = expected_full(ln) or b""
        m = re.search(r" cnt=(\d+)", body)
        w = int(m.group(1)) if m else (len(wins) if wins else 0)
        nwin += w
        listed = want.count(b"</")
        nontriv = w >= 9 and (listed >= 2 or (q is not None and 0 < listed < len(tbl)))
        run.count(ln, nontriv)
        run.hist("resources", len(tbl))
        run.hist("listing_bytes", "0" if not want else "<=40" if len(want) <= 40 else "<=170" if len(want) <= 170 else ">170")
        run.hist("windows", "all" if wins is None else "boundary")
        run.hist("selected", "none" if listed == 0 else "all" if listed == len(tbl) else "some")
        if i % 97 == 5:
            run.sample({"case": ln[:300], "impl": co[:160], "listing": want.decode("latin-1")[:120]})
        why = impl_oracle(ln, co)
        if why is None and mo == body:
            continue
        nbad += 1
        if nbad > 3:
            continue

        def bad(l2):
            o2, _ = vlib.run_lines_robust(drv, [l2])
            m2, _ = vlib.run_lines_robust(model, [l2])
            return impl_oracle(l2, o2[0]) is not None or split_oracle(o2[0])[0] != m2[0]
        small = shrink_case(model, drv, ln, bad)
        o2, _ = vlib.run_lines_robust(drv, [small])
        m2, _ = vlib.run_lines_robust(model, [small])
        why2 = impl_oracle(small, o2[0])
        loc = locate_window(model, drv, small)
        cmd2, lk2, ops2, q2, _ = parse_case(small)
        txt = ("case: %s\nfilter: %r\nexpected listing: %r\nmodel (proved): %s\nimpl: %s\n"
               "first differing window: %s\noracle on the implementation: %s\noriginal case: %s\n"
               % (small, q2, expected_full(small), m2[0], o2[0], loc, why2 or why or "ok", ln))
        if why2 or why:
            run.violation("listing violates the property (%s, filter kind %s): %s" % (cmd, k, why2 or why),
                          txt, tag="list%d" % nbad)
        else:
            run.violation("model and implementation disagree (%s, filter kind %s), oracle holds: %s"
                          % (cmd, k, loc), txt, tag="tie%d" % nbad, no_input=True)
    # "lists exactly": the proved link-format reader (LinkParse.lf_parse, extracted) applied to what the
    # implementation printed must give back the registered + selected resources
    plines, pexp, psrc = [], [], []
    for i, ln in enumerate(lines):
        if not ln.startswith("lfwk "):
            continue
        mf = re.search(r" full=(\S+)", oc[i])
        if not mf:
            continue
        cmd, lk, ops, q, wins = parse_case(ln)
        exp = gen_link.py_canon_dump(ops, q)
        if exp is None:
            run.hist("readback", "not-clean")
            continue
        plines.append("lfparse " + mf.group(1))
        pexp.append(exp)
        psrc.append(ln)
    pout, _ = par_run(model, plines)
    nrb = 0
    for ln, exp, got, src in zip(plines, pexp, pout, psrc):
        run.hist("readback", "ok" if got == exp else "differs")
        if got != exp:
            nrb += 1
            if nrb <= 2:
                run.violation("reading the printed listing back does not give the registered resources: got %s, expected %s"
                              % (got[:120], exp[:120]),
                              "case: %s\nprinted: %s\nread back: %s\nregistered+selected: %s\n" % (src, ln, got, exp),
                              tag="readback%d" % nrb)
    run.cov["readback_cases"] = len(plines)
    run.cov.setdefault("flaky_not_reproduced", 0)
    run.cov["disagreements"] = nbad
    run.cov["windows_compared"] = nwin
    run.cov["corpus_cases"] = len(corpus)

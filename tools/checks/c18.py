"""C18 - any allocation failure is survived (DESIGN.md section 6, C18).

Decided on the code by exhaustive fault enumeration: for every scenario of the catalogue in
harness/h_fault.c the N allocation attempts of a clean run are counted, then the scenario is run N
more times failing exactly the k-th attempt (thorough: every pair, and the singles again under
ASan+UBSan).  Every run is judged by
  - the process status (no crash / trap / hang / exit),
  - the extracted, proved verdict (coq/Fault/AllocOracle.v) on the allocation trace after the
    complete tear-down (no leak, no double free, no wild free, realloc chains consistent),
  - guard zones and freed-block poison of the shim (base variant) / ASan (asan variant),
  - the API return values: a result that differs from the clean run must carry a failure
    indication (error return, error response, dropped message); scenario-specific content checks,
  - ownership of every PDU handed to coap_send,
  - a canary exchange with memory available afterwards.
A failing run is identified by (scenario, kind, allocation site = function names of the
backtrace), so known findings are matched by site and not by k.
"""
import concurrent.futures
import os
import re
import subprocess

import vlib
import tie
import gen_fault

LEVEL = "fault_enumeration"
RULE = ("for each scenario of the fixed catalogue: one clean run counts the N allocation attempts "
        "(coap_malloc_type + coap_realloc_type, ld --wrap), then N runs fail exactly the k-th "
        "attempt, k = 1..N (also every pair k1 < k2 <= N(k1): quick for the scenarios with N <= 100, "
        "thorough for N <= 200; thorough runs the singles again under ASan); evaluations = runs of a scenario with a fault pattern + PDU-layer tie cases; a run "
        "is non-trivial when the fault was actually injected (the k-th attempt was reached) and "
        "the scenario went on to its tear-down; distinct = distinct (variant, scenario, k1, k2)")

WRAPS = ["coap_ticks", "coap_socket_send", "coap_socket_recv",
         "coap_malloc_type", "coap_realloc_type", "coap_free_type", "coap_io_process_lkd", "malloc"]

MEMTAG = ["STRING", "ATTRIBUTE_NAME", "ATTRIBUTE_VALUE", "PACKET", "NODE", "CONTEXT", "ENDPOINT",
          "PDU", "PDU_BUF", "RESOURCE", "RESOURCEATTR", "DTLS_SESSION", "SESSION", "OPTLIST",
          "CACHE_KEY", "CACHE_ENTRY", "LG_XMIT", "LG_CRCV", "LG_SRCV", "DIGEST_CTX",
          "SUBSCRIPTION", "SUBSCRIPTION_KEY", "COSE", "COSE_KEY", "OSCORE_COM", "OSCORE_SEN",
          "OSCORE_REC", "OSCORE_EX", "OSCORE_EP", "OSCORE_BUF", "MEM_TAG_LAST"]

HARNESS_FUNCS = re.compile(r"^(sc_|child_main|main$|world_|mk|send_tracked|simple_exchange|canary|"
                           r"finish_with|prologue|pump|vn_|run_fa|h_|on_|dump_|route_lkd|one_request|__wrap_|\?\?|_start|__libc)")


RECEIVE_DROP = re.compile(r"^(coap_pdu_init<coap_handle_dgram|coap_pdu_resize<coap_pdu_parse<coap_handle_dgram|"
                          r"coap_pdu_resize<coap_pdu_check_resize<coap_pdu_parse<coap_handle_dgram)")


def parse_result(line):
    """one result line of 'fa' -> dict"""
    d = {"raw": line}
    m = re.match(r"(OK|HANG|CRASH sig=\d+|EXIT code=-?\d+)", line)
    d["status"] = m.group(1) if m else "GARBLED"
    for key in ("site", "n", "inj", "canary", "guard", "poison", "live", "tm", "un", "fds", "leaked", "cs", "sends", "res",
                "trace", "sites"):
        m = re.search(r" %s=(\S+)" % key, line)
        d[key] = m.group(1) if m else "?"
    return d


def parse_notice(site):
    """site field: '<k>:<M|R>:<type>:<size>:<addr>:<addr>...' joined by '|' -> list"""
    out = []
    if site in ("-", "?"):
        return out
    for part in site.split("|"):
        f = part.split(":")
        if len(f) >= 4:
            out.append({"k": int(f[0]), "op": f[1], "type": int(f[2]), "size": int(f[3]),
                        "bt": f[4:]})
    return out


class Resolver:
    """return addresses -> function names (addr2line -i on the non-PIE driver, so that inlined
    helpers such as coap_malloc_node are named the same under gcc and clang), cached"""

    def __init__(self, exe):
        self.exe = exe
        self.cache = {}

    def resolve(self, addrs):
        need = [a for a in addrs if a not in self.cache]
        if need:
            # a return address belongs to the instruction after the call: look up address - 1
            q = ["0x%x" % (int(a, 16) - 1) for a in need]
            p = subprocess.run(["addr2line", "-f", "-i", "-a", "-e", self.exe] + q,
                               stdout=subprocess.PIPE)
            groups = []
            for ln in p.stdout.decode().split("\n"):
                if ln.startswith("0x"):
                    groups.append([])
                elif groups and ln and ":" not in ln.split("/")[0] and not ln.startswith("/") \
                        and not ln.startswith("??:"):
                    groups[-1].append(ln.strip())
            for i, a in enumerate(need):
                self.cache[a] = groups[i] if i < len(groups) and groups[i] else ["??"]
        out = []
        for a in addrs:
            out.extend(self.cache[a])
        return out

    def chain(self, bt, depth=8):
        """function names of the libcoap part of a backtrace, innermost first"""
        names = self.resolve(bt)
        out = []
        for n in names:
            if HARNESS_FUNCS.match(n):
                break
            if not out or out[-1] != n:
                out.append(n)
        return "<".join(out[:depth]) if out else "?"


def tokens(res):
    return [t for t in re.split(r"[;_]", res) if t]


def failure_indicated(res, res0):
    """does a result that differs from the clean one carry an indication of failure?
    (error return, error response, dropped message - the outcomes the property allows)"""
    a, b = tokens(res), tokens(res0)
    ka = [t.split("=")[0] for t in a]
    kb = [t.split("=")[0] for t in b]
    if ka != kb:
        return True                       # a step is missing/extra: an earlier step failed visibly
    for x, y in zip(a, b):
        if x == y or "=" not in x:
            continue
        k, v = x.split("=", 1)
        v0 = y.split("=", 1)[1]
        if re.fullmatch(r"[01]+", v) and re.fullmatch(r"[01]+", v0) and len(v) == len(v0):
            if any(c == "0" and c0 == "1" for c, c0 in zip(v, v0)):
                return True               # an API call returned failure
        if k == "code" and v.isdigit() and (int(v) >= 128 or int(v) == 0):
            return True                   # error response / no response
        if k in ("resp", "got", "put") or re.fullmatch(r"resp\d+", k):
            if v.isdigit() and v0.isdigit() and int(v) < int(v0):
                return True               # dropped message
        if k == "nack" and v.isdigit() and v0.isdigit() and int(v) > int(v0):
            return True
    return False


def judge(d, clean, verdict, own=None, rs=None):
    """-> list of (kind, detail) for one faulted run"""
    bad = []
    st = d["status"]
    if st != "OK":
        bad.append(("crash" if st.startswith("CRASH") else st.split()[0].lower(), st))
        return bad
    if verdict != "Clean":
        what = verdict
        if verdict.startswith("Leak") and d.get("leaked", "?") not in ("?", "-"):
            what += " (" + ", ".join("block %s: %s, %s bytes, allocated in %s" % (
                x.split(":")[0],
                MEMTAG[int(x.split(":")[1])] if int(x.split(":")[1]) < len(MEMTAG) else x.split(":")[1],
                x.split(":")[2],
                ("<".join(n for n in rs.resolve([a for a in x.split(":")[3].split("/") if a.startswith("0x")])
                          if n != "??") if rs and len(x.split(":")) > 3 else "?"))
                for x in d["leaked"].split(",")) + ")"
        bad.append((verdict.split()[0].lower(), what))
    if d["guard"] not in ("0",) or d["poison"] not in ("0",):
        bad.append(("heap-corruption", "guard=%s poison=%s" % (d["guard"], d["poison"])))
    if d.get("fds", "0") not in ("0", "?"):
        bad.append(("fd-leak", "%s file descriptor(s) more open after the complete tear-down than before "
                    "the scenario" % d["fds"]))
    if d["canary"] == "0":
        bad.append(("canary", "the exchange after the fault, with memory available, failed"))
    m = re.search(r"bad=([^;]+)", d["res"])
    if m:
        bad.append(("wrong-result", m.group(1)))
    elif d["res"] != clean["res"] and not failure_indicated(d["res"], clean["res"]):
        bad.append(("silent", "result differs from the clean run without any failure indication"))
    if d["sends"] not in ("-", "?") and own is not None:
        # own: verdict of the extracted acceptor fa_obs_ok (coq/Fault/SendOwner.v) per coap_send
        for s, ok in zip(d["sends"].split(","), own):
            pid, fl = s.split(":")
            if ok != "1":
                bad.append(("ownership", "PDU %s after coap_send: mid valid=%s, still allocated=%s, in "
                            "sendqueue=%s, in delayqueue=%s is not an outcome of the send-path model"
                            % ((pid,) + tuple(fl))))
    return bad


def run_chunks(exe, lines, env=None, jobs=4):
    """run case lines through the driver in parallel chunks; outputs aligned with lines"""
    if not lines:
        return []
    n = max(1, min(jobs, len(lines) // 8 or 1))
    size = (len(lines) + n - 1) // n
    chunks = [lines[i:i + size] for i in range(0, len(lines), size)]
    with concurrent.futures.ThreadPoolExecutor(max_workers=n) as ex:
        res = list(ex.map(lambda c: vlib.run_lines_robust(exe, c, timeout=1200, env=env)[0], chunks))
    out = []
    for r in res:
        out.extend(r)
    return out


def verdicts(model, traces):
    lines = ["faverdict " + t for t in traces]
    out, _ = vlib.run_lines_robust(model, lines, timeout=900)
    return out


def ownerships(model, ds):
    """extracted acceptor on the observed (valid, allocated, sendqueue, delayqueue) tuples"""
    lines = []
    for d in ds:
        if d["sends"] in ("-", "?"):
            lines.append("fasend -")
        else:
            lines.append("fasend " + ",".join(x.split(":")[1] for x in d["sends"].split(",")))
    out, _ = vlib.run_lines_robust(model, lines, timeout=900)
    return out


def site_matches(site, chain):
    """a known site (function names innermost first) matches when it is a contiguous part of
    the chain of the failed allocation"""
    if site == "*":
        return True
    a, b = site.split("<"), chain.split("<")
    return any(b[i:i + len(a)] == a for i in range(len(b) - len(a) + 1))


def match_known(run, scenario, kind, chains, detail=""):
    """known finding = (scenarios, kinds, sites, detail substring); chains = the chains of the
    injected failures of the run (one, or two for a pair)"""
    def sig(f):
        s = f.get("signature", {})
        scs = s.get("scenarios") or ([s["scenario"]] if s.get("scenario") else ["*"])
        # "<name>_l1" / "_l2" are the same scenario with long Uri-Path / Uri-Query options
        if "*" not in scs and scenario not in scs and re.sub(r"_l\d$", "", scenario) not in scs:
            return False
        kinds = s.get("kinds") or ([s["kind"]] if s.get("kind") else None)
        if kinds and kind not in kinds:
            return False
        if s.get("detail") and s["detail"] not in detail:
            return False
        sites = s.get("sites") or ([s["site"]] if s.get("site") else [])
        return any(site_matches(site, c) for site in sites for c in chains)
    return run.match_known(sig)


# the allocator entry points and the helpers that do nothing but allocate one object: a call of
# any of them is an allocation site
ALLOC_FUNCS = ("coap_malloc_type|coap_realloc_type|coap_new_string|coap_new_binary|coap_new_bin_const|"
               "coap_new_str_const|coap_resize_binary|coap_pdu_init|coap_pdu_resize|coap_pdu_check_resize|"
               "coap_new_node|coap_new_optlist|coap_pdu_duplicate_lkd|coap_new_pdu_lkd")
REACHED = set()      # return addresses of allocation calls attempted while armed (base variant)


def note_reached(ds, variant):
    if variant != "base":
        return
    for d in ds:
        if d.get("cs", "?") not in ("?", "-"):
            REACHED.update(d["cs"].split(","))
        for nt in parse_notice(d["site"]):
            if nt["bt"] and nt["op"] != "U":
                REACHED.add(nt["bt"][0])


def allocation_sites(exe):
    """every call of coap_malloc_type / coap_realloc_type in the library as linked into the
    driver (whole archive): return address -> (function, file:line)"""
    p = subprocess.run(["objdump", "-d", "--no-show-raw-insn", exe], stdout=subprocess.PIPE)
    sites = {}
    lines = p.stdout.decode("latin-1").split("\n")
    for i, ln in enumerate(lines):
        m = re.match(r"\s*([0-9a-f]+):\s+call\s+[0-9a-f]+ <(?:__wrap_)?(" + ALLOC_FUNCS + r")>", ln)
        if not m:
            continue
        # the return address is the address of the next instruction
        for nx in lines[i + 1:i + 4]:
            m2 = re.match(r"\s*([0-9a-f]+):", nx)
            if m2:
                sites["0x" + m2.group(1)] = m.group(2)
                break
    return sites


def site_coverage(run, exe):
    sites = allocation_sites(exe)
    unreached = sorted(a for a in sites if a not in REACHED)
    named = []
    if unreached:
        q = ["0x%x" % (int(a, 16) - 1) for a in unreached]
        p = subprocess.run(["addr2line", "-f", "-e", exe] + q, stdout=subprocess.PIPE)
        out = p.stdout.decode().split("\n")
        for i, a in enumerate(unreached):
            fn = out[2 * i] if 2 * i < len(out) else "??"
            loc = out[2 * i + 1] if 2 * i + 1 < len(out) else "??"
            loc = re.sub(r"^.*/src/", "src/", loc).split(" ")[0]
            named.append("%s %s (%s)" % (fn, loc, sites[a]))
    # harness functions (the shim's own callers) are not library sites
    named = sorted(set(n for n in named if not HARNESS_FUNCS.match(n) and "/harness/" not in n))
    run.cov["allocation_sites_in_library"] = len(sites)
    run.cov["allocation_sites_attempted"] = len([a for a in sites if a in REACHED])
    run.cov["unreached_allocation_sites"] = named
    by_file = {}
    for n in named:
        f = n.split(" ")[1].split(":")[0]
        by_file[f] = by_file.get(f, 0) + 1
    run.cov["unreached_allocation_sites_by_file"] = by_file


def enumerate_variant(run, model, exe, variant, scen_list, pairs, stats, env=None):
    rs = Resolver(exe)
    failures = {}       # (scenario, kind, chain) -> list of cases
    for sc in scen_list:
        # --- clean runs: N, reference result, site list; determinism of the replay
        out = run_chunks(exe, ["fa %s 0 0 S" % sc, "fa %s 0 0 S" % sc], env=env, jobs=1)
        c1, c2 = parse_result(out[0]), parse_result(out[1])
        info = stats.setdefault(sc, {})
        if c1["status"] != "OK" or not c1["n"].isdigit():
            run.violation("scenario %s does not run cleanly without faults (%s)" % (sc, c1["status"]),
                          "case: fa %s 0 0\n%s\n" % (sc, out[0][:2000]), tag="clean_%s_%s" % (variant, sc),
                          no_input=True)
            continue
        if c1["sites"] != c2["sites"] or c1["res"] != c2["res"] or c1["trace"] != c2["trace"]:
            # once more before anything is reported (a loaded machine must not be able to raise this)
            out = run_chunks(exe, ["fa %s 0 0 S" % sc, "fa %s 0 0 S" % sc], env=env, jobs=1)
            c1, c2 = parse_result(out[0]), parse_result(out[1])
            run.hist("stability_retries", "clean runs of %s differed once" % sc)
        if c1["sites"] != c2["sites"] or c1["res"] != c2["res"] or c1["trace"] != c2["trace"]:
            run.violation("scenario %s is not deterministic: two clean runs differ" % sc,
                          "run1: %s\nrun2: %s\n" % (out[0][:3000], out[1][:3000]),
                          tag="nondet_%s_%s" % (variant, sc), no_input=True)
            continue
        N = int(c1["n"])
        sites = c1["sites"].split(",") if c1["sites"] not in ("-", "?") else []
        v0 = verdicts(model, [c1["trace"]])[0]
        clean_bad = judge(c1, c1, v0, ownerships(model, [c1])[0])
        if clean_bad or len(sites) != N:
            run.violation("scenario %s: the clean run itself is not clean: %s" % (sc, clean_bad),
                          "case: fa %s 0 0\nverdict: %s\n%s\n" % (sc, v0, out[0][:3000]),
                          tag="cleanbad_%s_%s" % (variant, sc), no_input=True)
            continue
        # --- corpus first (historic failing cases; k beyond N is simply not reached), then singles
        cases = []
        for ln in vlib.read_corpus("C18"):
            f = ln.split()
            if f[0] == "fa" and f[1] == sc and (int(f[2]), int(f[3])) not in cases and \
                    (int(f[3]) or int(f[2]) > N):
                cases.append((int(f[2]), int(f[3])))
        ncorpus = len(cases)
        cases += [(k, 0) for k in range(1, N + 1)]
        lines = ["fa %s %d %d" % (sc, k, k2) for k, k2 in cases]
        outs = run_chunks(exe, lines, env=env)
        ds = [parse_result(o) for o in outs]
        # --- pairs: k2 ranges over the attempts of the run that failed k1
        if pairs is True or (pairs and N <= pairs):
            plines = []
            for (k1, kk2), d in zip(list(cases), ds):
                if kk2 or k1 > N:
                    continue
                n1 = int(d["n"]) if d["n"].isdigit() else 0
                for k2 in range(k1 + 1, n1 + 1):
                    if (k1, k2) in cases:
                        continue
                    cases.append((k1, k2))
                    plines.append("fa %s %d %d" % (sc, k1, k2))
            pouts = run_chunks(exe, plines, env=env)
            lines += plines
            ds += [parse_result(o) for o in pouts]
        note_reached(ds + [c1], variant)
        vs = verdicts(model, [d["trace"] if d["status"] == "OK" else "-" for d in ds])
        ows = ownerships(model, ds)
        ninj = 0
        nfail = 0
        single_keys = set()
        for (k1, k2), ln, d, v, ow in zip(cases, lines, ds, vs, ows):
            notices = parse_notice(d["site"])
            injected = len(notices)
            nontriv = injected >= (2 if k2 else 1) or (injected >= 1 and d["status"] != "OK")
            run.count("%s %s" % (variant, ln), nontriv)
            ninj += 1 if injected else 0
            # replay stability: the k-th attempt of this run is the k-th attempt of the clean run
            if k2 == 0 and notices and k1 <= N:
                want = sites[k1 - 1].split(":")
                got = notices[0]
                def same(w, g):
                    return (w[0], int(w[1]), int(w[2]), w[3]) == \
                        (g["op"], g["type"], g["size"], g["bt"][0] if g["bt"] else "?")
                if not same(want, got):
                    # run the clean run and this case once more, back to back, before reporting
                    ro = run_chunks(exe, ["fa %s 0 0 S" % sc, ln], env=env, jobs=1)
                    rc, rd = parse_result(ro[0]), parse_result(ro[1])
                    rsites = rc["sites"].split(",") if rc["sites"] not in ("-", "?") else []
                    rn = parse_notice(rd["site"])
                    run.hist("stability_retries", "attempt of %s compared twice" % sc)
                    if rn and k1 <= len(rsites):
                        want, got = rsites[k1 - 1].split(":"), rn[0]
                if not same(want, got):
                    run.violation("replay not stable: attempt %d of scenario %s is %s in the clean run "
                                  "but %s:%d:%d in the faulted run" % (k1, sc, sites[k1 - 1], got["op"],
                                                                      got["type"], got["size"]),
                                  "case: %s\n%s\n" % (ln, d["raw"][:2000]),
                                  tag="unstable_%s_%s_%d" % (variant, sc, k1), no_input=True)
            if k2 == 0 and not notices and d["status"] == "OK" and k1 <= N:
                run.violation("fault %d of scenario %s was never injected although the clean run makes "
                              "%d attempts" % (k1, sc, N), "case: %s\n%s\n" % (ln, d["raw"][:2000]),
                              tag="noinj_%s_%s_%d" % (variant, sc, k1), no_input=True)
            # tie between the shim's own bookkeeping and the proved verdict
            if d["status"] == "OK":
                live = int(d["live"]) if d["live"].isdigit() else -1
                nleak = len(v.split()[1].split(",")) if v.startswith("Leak") else 0
                if (v == "Clean" and live != 0) or (v.startswith("Leak") and live != nleak):
                    run.violation("allocation table of the shim (live=%d) disagrees with the verdict %s"
                                  % (live, v), "case: %s\n%s\n" % (ln, d["raw"][:4000]),
                                  tag="tie_%s_%s_%d_%d" % (variant, sc, k1, k2), no_input=True)
            bad = judge(d, c1, v, ow, rs)
            if d["sends"] not in ("-", "?"):
                run.hist("coap_send_outcomes", ",".join(x.split(":")[1] for x in d["sends"].split(",")))
            if not bad:
                continue
            chains = [rs.chain(nt["bt"]) for nt in notices] or ["?"]
            # A failed allocation for an *incoming* datagram is a lost datagram.  What the protocol
            # does under message loss alone (a request that is processed twice because its ACK was
            # lost: libcoap servers do not deduplicate) is C07's subject, not an allocation defect.
            # Only the "delivered N times" verdict is excused, and only in runs that contain such a
            # lost datagram; every other check applies unchanged.
            drops = [bool(RECEIVE_DROP.match(c)) for c in chains]
            if any(drops):
                excused = [b for b in bad if b[0] == "wrong-result" and "delivered-" in b[1]]
                if all(drops):
                    # nothing but lost datagrams: what block-wise transfer / observe then hand to
                    # the application is C09's / C11's question (they drive drop schedules); memory
                    # safety, leaks, ownership and the canary are still judged here
                    excused = [b for b in bad if b[0] in ("wrong-result", "silent")]
                if excused:
                    for b in excused:
                        run.hist("loss_equivalent_runs", "%s %s: %s" % (sc, b[0], re.sub(r"\d+", "N", b[1])[:50]))
                        if k2 == 0:     # a pair that contains this lost datagram and shows the same
                            single_keys.add((b[0], re.sub(r"\d+", "N", b[1])[:60] if b[0] == "wrong-result"
                                             else "", chains[0]))
                    bad = [b for b in bad if b not in excused]
                    if not bad:
                        continue
            nfail += 1
            last = notices[-1] if notices else None
            for kind, detail in bad:
                dkey = re.sub(r"\d+", "N", detail)[:60] if kind in ("wrong-result",) else ""
                if k2 == 0:
                    single_keys.add((kind, dkey, chains[0]))
                elif any((kind, dkey, c) in single_keys for c in chains):
                    run.hist("pair_failures", "explained by a single failure at the same site")
                    continue            # nothing new: one of the two failures alone does this
                key = (sc, kind, dkey, " & ".join(chains))
                failures.setdefault(key, []).append(
                    {"case": ln, "detail": detail, "status": d["status"], "verdict": v, "chains": chains,
                     "site": " & ".join("%s %s size %d" % (nt["op"], MEMTAG[nt["type"]] if nt["type"] < len(MEMTAG)
                                                           else nt["type"], nt["size"]) for nt in notices) or "?",
                     "backtrace": " || ".join(" <- ".join(rs.resolve(nt["bt"])) for nt in notices) or "?",
                     "res": d["res"][:600], "clean_res": c1["res"][:600]})
                run.hist("failure_kind", kind)
            run.hist("site_type", MEMTAG[last["type"]] if last and last["type"] < len(MEMTAG) else "?")
        info[variant] = {"N": N, "runs": len(cases), "corpus_cases": ncorpus, "exhaustive": True,
                         "pairs": bool(pairs is True or (pairs and N <= pairs)), "injected": ninj,
                         "failing_runs": nfail}
        run.hist("scenario_runs", sc)
        if len(run.cov["samples"]) < 6:
            j = min(len(lines) - 1, N // 2)
            run.sample({"case": lines[j], "variant": variant,
                        "result": re.sub(r" trace=\S+", " trace=<%d events>" %
                                         (ds[j]["trace"].count(",") + 1), ds[j]["raw"])[:400],
                        "verdict": vs[j]})
    return failures


def uthash_enum(run, model, exe, variant, scen_list, stats, env=None):
    """libcoap's direct malloc() calls (uthash: hash head, bucket array, bucket expansion) do not
    go through coap_malloc_type; the driver sees them through --wrap=malloc.  Fail the j-th one,
    j = 1..U of the clean run, judged like every other run."""
    rs = Resolver(exe)
    failures = {}
    for sc in scen_list:
        out = run_chunks(exe, ["fa %s 0 0" % sc], env=env, jobs=1)
        c = parse_result(out[0])
        if c["status"] != "OK" or not c["un"].isdigit():
            continue
        U = int(c["un"])
        lines = ["fa %s 0 0 U%d" % (sc, j) for j in range(1, U + 1)]
        ds = [parse_result(o) for o in run_chunks(exe, lines, env=env)]
        vs = verdicts(model, [d["trace"] if d["status"] == "OK" else "-" for d in ds])
        ows = ownerships(model, ds)
        nfail = 0
        for ln, d, v, ow in zip(lines, ds, vs, ows):
            notices = parse_notice(d["site"])
            run.count("%s %s" % (variant, ln), bool(notices))
            bad = judge(d, c, v, ow, rs)
            if not bad:
                continue
            nfail += 1
            chains = [rs.chain(nt["bt"]) for nt in notices] or ["?"]
            for kind, detail in bad:
                key = (sc, kind, "uthash", " & ".join(chains))
                failures.setdefault(key, []).append(
                    {"case": ln, "detail": "uthash malloc: " + detail, "status": d["status"], "verdict": v,
                     "chains": chains, "site": "direct malloc(%s) of libcoap (uthash)" %
                     (notices[0]["size"] if notices else "?"),
                     "backtrace": " || ".join(" <- ".join(rs.resolve(nt["bt"])) for nt in notices) or "?",
                     "res": d["res"][:600], "clean_res": c["res"][:600]})
                run.hist("failure_kind", "uthash-" + kind)
        stats.setdefault(sc, {}).setdefault(variant, {})["uthash_mallocs"] = U
        stats[sc][variant]["uthash_failing_runs"] = nfail
    return failures


def report(run, failures, variant, rerun=None):
    nv = 0
    for (sc, kind, dkey, chain), cs in sorted(failures.items()):
        c = cs[0]
        f = match_known(run, sc, kind, c["chains"], c["detail"])
        if f:
            run.known(f, "%s %s at %s (%d runs, e.g. '%s')" % (sc, kind, chain, len(cs), c["case"]))
            continue
        if kind == "leak" and rerun is not None:
            c["detail"] = rerun(c["case"]) or c["detail"]
        nv += 1
        if nv > 12:
            vlib.log("further failing site: %s %s %s (%d runs)" % (sc, kind, chain, len(cs)))
            continue
        txt = ("property: C18\nvariant: %s\nscenario: %s\nfailure kind: %s\nallocation site: %s\n"
               "failing runs at this site: %d\n\nreplay (stdin of .build/obj/%s/h_fault):\n  %s\n\n"
               "what happened: %s (%s)\nfailed allocation: %s\nbacktrace: %s\nverdict on the allocation "
               "trace: %s\nresult      : %s\nclean result: %s\n\nall cases at this site: %s\n" %
               (variant, sc, kind, chain, len(cs), variant, c["case"], c["detail"], c["status"],
                c["site"], c["backtrace"], c["verdict"], c["res"], c["clean_res"],
                " | ".join(x["case"] for x in cs[:40])))
        run.violation("%s: %s when allocation at %s fails (%s)" % (sc, kind, chain, c["detail"][:120]),
                      txt, tag="%s_%s_%s_%d" % (variant, sc, kind, nv))
    return nv


def pdu_tie(run, model, exe):
    """coq/Fault/PduAtomic.v against coap_pdu_init/add_token/add_option/add_data under failure
    patterns: same return values, same accessor dump, same number of allocation attempts"""
    r = tie.rng_for(run, "fapdu")
    lines = [ln for ln in vlib.read_corpus("C18") if ln.startswith("fapdu ")]
    n = 1500 if run.tier == "quick" else 30000
    for i in range(n):
        lines.append(gen_fault.gen_pdu_case(r))
    # twin without faults for every case with an implicit Hop-Limit step (Proxy-Uri/-Scheme)
    twins = {}
    for ln in list(lines):
        f = ln.split()
        if f[6] != "-" and re.search(r" O (35|39) ", ln):
            tw = " ".join(f[:6] + ["-"] + f[7:])
            twins[ln] = tw
            lines.append(tw)
    om, oc, crashes = tie.run_both(model, exe, lines)
    impl = dict(zip(lines, oc))
    nbad = 0
    nstrict = 0
    for ln, a, b in zip(lines, om, oc):
        nontriv = "0" in a.split(" ")[0] and "1" in a.split(" ")[0]
        run.count(ln, nontriv)
        run.hist("pdu_tie", "fault-hit" if nontriv else "no-fault-hit")
        bad = None
        if b.startswith("CRASH"):
            bad = "PDU builder crashes under an allocation failure"
        elif " HEAP " in b:
            bad = "PDU builder leaks or corrupts the heap under an allocation failure"
        elif " atomic=0 " in b:
            bad = "a failing PDU operation changed the message"
        elif a != b:
            bad = "PDU builder differs from the proved model under allocation failure"
        if bad:
            nbad += 1
            if nbad <= 3:
                run.violation(bad, "case: %s\nmodel: %s\nimpl : %s\n" % (ln, a, b), tag="pdu%d" % nbad,
                              no_input=(bad.startswith("PDU builder differs")))
            continue
        # the implementation-only oracle for the strict form: all operations succeeded as in the
        # fault-free run, but the message is a different one
        if ln in twins:
            t = impl[twins[ln]]
            if b.split(" ")[0] == t.split(" ")[0] and "0" not in b.split(" ")[0][5:] and \
                    b.split("built=")[1] != t.split("built=")[1]:
                nstrict += 1
                f = run.match_known(lambda f: f.get("signature", {}).get("api") == "coap_add_option" and
                                    f["signature"].get("step") == "implicit Hop-Limit")
                if f:
                    run.known(f, "e.g. %s -> %s (fault-free: %s)" % (ln, b.split("built=")[1], t.split("built=")[1]))
                else:
                    run.violation("coap_add_option succeeded under an allocation failure with a message "
                                  "that differs from the fault-free one",
                                  "case: %s\nimpl with the fault : %s\nimpl without fault: %s\n" % (ln, b, t),
                                  tag="pdustrict%d" % nstrict)
    run.cov["pdu_tie"] = {"cases": len(lines), "disagreements": nbad, "strict_atomicity_exceptions": nstrict}
    if lines:
        run.sample({"case": lines[-1], "impl": oc[-1][:300]}, limit=8)


def replay(run, model, exe, path):
    """re-run the case(s) named in a replay file written by this check"""
    txt = open(path).read()
    cases = re.findall(r"^\s*(?:case:\s*)?(fa \S+ \d+ \d+|fapdu .*)$", txt, re.M)
    m = re.search(r"^variant: (\w+)", txt, re.M)
    variant = m.group(1) if m else "base"
    env = None
    if variant == "asan":
        exe = vlib.build_driver("h_fault", ["h_fault.c"], "asan", extra=["-no-pie"], wraps=WRAPS)
        env = ASAN_ENV
    rs = Resolver(exe)
    for ln in cases[:1]:
        if ln.startswith("fapdu"):
            a, b, _ = tie.run_both(model, exe, [ln])
            vlib.log("case : %s\nmodel: %s\nimpl : %s" % (ln, a[0], b[0]))
            if a[0] != b[0] or b[0].startswith("CRASH") or " HEAP " in b[0] or " atomic=0 " in b[0]:
                run.violation("replayed PDU-layer case still fails", "case: %s\nmodel: %s\nimpl : %s\n" %
                              (ln, a[0], b[0]), tag="replay")
            continue
        sc = ln.split()[1]
        outs, _ = vlib.run_lines_robust(exe, ["fa %s 0 0" % sc, ln], env=env)
        c, d = parse_result(outs[0]), parse_result(outs[1])
        v = verdicts(model, [d["trace"] if d["status"] == "OK" else "-"])[0]
        bad = judge(d, c, v, ownerships(model, [d])[0], rs)
        chains = [rs.chain(nt["bt"]) for nt in parse_notice(d["site"])]
        vlib.log("case   : %s\nstatus : %s\nverdict: %s\nsites  : %s\nresult : %s\nclean  : %s\njudged : %s" %
                 (ln, d["status"], v, " & ".join(chains), d["res"], c["res"], bad or "ok"))
        for kind, detail in bad:
            f = match_known(run, sc, kind, chains or ["?"], detail)
            if f:
                run.known(f, "%s %s at %s" % (sc, kind, " & ".join(chains)))
            else:
                run.violation("%s: %s (%s)" % (sc, kind, detail), "replay (stdin of the driver):\n  %s\n%s\n" %
                              (ln, d["raw"][:3000]), tag="replay")
    run.count("replay", True)
    run.sample({"replayed": cases[:1]})


ASAN_ENV = {"ASAN_OPTIONS": "detect_leaks=0:abort_on_error=1:allocator_may_return_null=1",
            "UBSAN_OPTIONS": "halt_on_error=1:abort_on_error=1"}


def main(run):
    run.cov["trusted_base"] = vlib.TRUSTED_COMMON + [
        "harness/common/fa_alloc.h: the ld --wrap shim that numbers blocks, logs the events and "
        "injects the failures (its block table is cross-checked against the proved verdict on "
        "every run); harness/h_fault.c: the scenario catalogue and its result strings",
        "addr2line for naming allocation sites (naming only; the verdict does not depend on it)",
        "model: Fault/AllocOracle.v (trace oracle), Fault/PduAtomic.v (PDU builder with an "
        "allocation oracle; abstract message from Wire/Build.v)"]
    run.assumptions = [
        "failed are the allocations made through coap_malloc_type/coap_realloc_type and (single "
        "failures only) libcoap's direct malloc() calls (uthash); GnuTLS and libc are out of scope",
        "single failures (thorough: pairs); not arbitrary failure sets",
        "the scenario catalogue is fixed (harness/h_fault.c); UDP only, no DTLS/TCP/WebSocket/OSCORE"]
    run.prove()
    model = vlib.build_model()
    # the whole archive is linked in, so that allocation sites of members no scenario touches
    # (TCP, WebSocket, proxy, ...) show up in the coverage report as unreached
    lib = vlib.build_lib("base")
    exe = vlib.build_driver("h_fault", ["h_fault.c"], "base",
                            extra=["-no-pie", "-Wl,--whole-archive", lib["lib"], "-Wl,--no-whole-archive"],
                            wraps=WRAPS)
    if getattr(run, "replay", None):
        replay(run, model, exe, run.replay)
        return
    out, _ = vlib.run_lines_robust(exe, ["fascen"])
    scen = out[0].split()
    stats = {}
    thorough = run.tier == "thorough"
    # pairs: thorough = scenarios with at most 200 attempts (all but oscore_b2, 293, whose 40 000
    # pairs take 6 minutes); quick = the scenarios with at most 100 attempts
    fails = enumerate_variant(run, model, exe, "base", scen, 200 if thorough else 100, stats)
    def rerun_leak(case, exe=exe, env=None):
        # once more with FA_BT=1: three more frames of the allocating call of every leaked block
        e = dict(env or {})
        e["FA_BT"] = "1"
        outs, _ = vlib.run_lines_robust(exe, [case], env=e)
        d = parse_result(outs[0])
        if d["status"] != "OK":
            return None
        v = verdicts(model, [d["trace"]])[0]
        for kind, detail in judge(d, d, v, None, Resolver(exe)):
            if kind == "leak":
                return detail
        return None
    nv = report(run, fails, "base", rerun_leak)
    nv += report(run, uthash_enum(run, model, exe, "base", scen, stats), "base")
    if thorough:
        exe_a = vlib.build_driver("h_fault", ["h_fault.c"], "asan", extra=["-no-pie"], wraps=WRAPS)
        fails_a = enumerate_variant(run, model, exe_a, "asan", scen, False, stats, env=ASAN_ENV)
        nv += report(run, fails_a, "asan")
    if os.path.exists(os.path.join(vlib.COQ, "Fault", "PduAtomic.v")):
        pdu_tie(run, model, exe)
    site_coverage(run, exe)
    run.cov["scenarios"] = stats
    run.cov["exhaustive"] = True
    run.cov["explanation"] = ("exhaustive over k = 1..N per scenario (N measured by the clean run of "
                              "this build); 'scenarios' lists N and the number of runs per variant")
    run.cov["new_failing_sites"] = nv

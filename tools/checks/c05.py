"""C05 - stream transports deliver the same messages however the byte stream is cut
(DESIGN.md section 6, C05).

Three things happen on every run:
  proof  : coq/Properties_C05.v is recompiled (every theorem = one obligation);
  tie    : the extracted reader model and the real coap_read_session (objects compiled from
           /repo's working tree, scripted arrivals on a real accepted server session) run the same
           (stream, chunking) cases; delivered messages (accessor dumps seen by the handlers) and
           the close must agree;
  oracle : implementation only - every chunking of a stream must give exactly what the
           single-arrival run of that stream gave (handler calls, events, bytes written)."""
import re

import vlib
import tie
import gen_stream
import stream_util

RULE = ("case = (byte stream, way of cutting it into arrivals) on a TCP server session; streams are "
        "1..6 serialised messages (all four Len forms, tokens 0..300 incl. both extended forms, "
        "signalling) optionally followed by a partial / oversize / malformed frame; non-trivial = "
        "the stream holds a complete message and at least one cut falls strictly inside a frame "
        "header (Len, extended length, code, extended TKL bytes) or the arrival sizes hit the "
        "1472-byte read buffer; distinct = distinct (mtu, stream, cuts)")

WRAPS = ["coap_socket_read", "coap_socket_write"]
PREDICT_ALWAYS = {0, 226, 227}


def split_out(line):
    """'obs=... closed=d | rest' -> (items, closed, rest)"""
    m = re.match(r"obs=(.*) closed=(\d)(?: \| (.*))?$", line)
    if not m:
        return None
    items = [] if m.group(1) == "-" else m.group(1).split(";")
    return items, m.group(2), m.group(3) or ""


def item_code(it):
    m = re.match(r"M:t=\d+ c=(\d+) ", it)
    return int(m.group(1)) if m else None


def item_opts(it):
    m = re.search(r" o=(\S+) p=", it)
    if not m or m.group(1) == "-":
        return []
    return [int(x.split(":")[0]) for x in m.group(1).split(",")]


def predictable(it):
    """does this parsed message reach a handler of the driver for sure? None = cannot say"""
    if it in ("X",):
        return True
    c = item_code(it)
    if c is None:
        return None
    if c in PREDICT_ALWAYS:
        return True
    if c == 225:
        return False                 # CSM: processed, no handler
    if 1 <= c <= 7:
        o = set(item_opts(it))
        if c == 5 and 12 not in o:
            return None              # FETCH without Content-Format: 4.15 without a handler call
        return True if o <= gen_stream.SAFE_REQ_NUMS else None
    if 64 <= c < 192:
        return True if set(item_opts(it)) <= gen_stream.SAFE_RSP_NUMS else None
    return None


def expected_from_model(model_line):
    """-> (items the handlers must have seen, closed) or None when the model output contains a
    message whose route through coap_dispatch this check does not predict"""
    so = split_out(model_line)
    if so is None:
        return None
    items, closed, _ = so
    out = []
    for it in items:
        p = predictable(it)
        if p is None:
            return None
        if p:
            out.append(it)
    return out, closed


def oracle_view(c_line):
    """what the implementation-only oracle compares: everything but the read counter"""
    return re.sub(r" reads=\d+$", "", c_line)


def frame_walk(stream):
    """header extents of the frames of a stream (classification of cases only)"""
    pos, hot, complete = 0, set(), 0
    n = len(stream)
    while pos < n:
        b0 = stream[pos]
        hl = gen_stream.tcp_hdr_len(b0)
        hot.update(range(pos + 1, min(pos + hl, n - 1) + 1))
        if pos + hl > n:
            break
        l, t = b0 >> 4, b0 & 15
        if l < 13:
            size, ts = l, pos + 2
        elif l == 13:
            size, ts = stream[pos + 1] + 13, pos + 3
        elif l == 14:
            size, ts = (stream[pos + 1] << 8) + stream[pos + 2] + 269, pos + 4
        else:
            size, ts = int.from_bytes(stream[pos + 1:pos + 5], "big") + 65805, pos + 6
        if t < 13:
            size += t
        elif t == 13:
            size += stream[ts] + 14
        elif t == 14:
            size += (stream[ts] << 8) + stream[ts + 1] + 271
        total = hl - (1 if t == 13 else 2 if t == 14 else 0) + size
        if size > gen_stream.HARD or pos + total > n:
            break
        complete += 1
        pos += total
    return hot, complete


class Cases:
    def __init__(self):
        self.groups = []     # (mtu, stream bytes, [(cuts token, cutkind)], meta)

    def add(self, mtu, stream, cuts, meta):
        self.groups.append((mtu, stream, cuts, meta))

    def lines(self):
        out, idx = [], []
        for gi, (mtu, stream, cuts, meta) in enumerate(self.groups):
            sx = stream.hex() if stream else "-"
            out.append("tcp %d %s -" % (mtu, sx))
            idx.append((gi, None))
            for ci, (tok, _) in enumerate(cuts):
                out.append("tcp %d %s %s" % (mtu, sx, tok))
                idx.append((gi, ci))
        return out, idx


def build_cases(run, r):
    cs = Cases()
    quick = run.tier == "quick"
    # 1. exhaustive 1-, 2- (and 3-) cut placements on short streams
    n_small = 24 if quick else 90
    for i in range(n_small):
        stream, meta = gen_stream.gen_tcp_stream(r, small=True)
        tries = 0
        while not (6 <= len(stream) <= (26 if quick else 34)) and tries < 50:
            stream, meta = gen_stream.gen_tcp_stream(r, small=True)
            tries += 1
        if not stream:
            continue
        n = len(stream)
        cuts = [(t, "exh1") for t in gen_stream.exhaustive_cuts(n, 1)]
        cuts += [(t, "exh2") for t in gen_stream.exhaustive_cuts(n, 2)]
        if (not quick and n <= 26) or (quick and i < 2 and n <= 18):
            cuts += [(t, "exh3") for t in gen_stream.exhaustive_cuts(n, 3)]
        cuts.append(("x1", "bytewise"))
        cs.add(0, stream, cuts, meta)
    # 2. random streams, aimed chunkings
    n_rand = 1000 if quick else 12000
    for i in range(n_rand):
        big = (i % 12 == 0)
        stream, meta = gen_stream.gen_tcp_stream(r, allow_big=big)
        if not stream:
            continue
        x = r.random()
        mtu = 0
        if x < 0.12:
            mtu = r.choice([64, 80, 100, 271, 272, 273, 300, 1152, 65808, 65809, gen_stream.HARD + 1])
        k = 3 if big else r.choice([3, 4, 6])
        cuts, seen = [], set()
        for _ in range(k):
            tok, kind = gen_stream.random_cuts(r, len(stream), meta["hot"])
            if tok not in seen and tok != "-":
                seen.add(tok)
                cuts.append((tok, kind))
        cs.add(mtu, stream, cuts, meta)
    # 3. arrivals that fill the read buffer exactly: frames sized around multiples of 1472
    for i in range(10 if quick else 120):
        pl = r.choice([1472, 2944]) - r.choice([0, 1, 2, 3, 4, 5, 6, 7, 8, 9, 12])
        import gen_wire
        f1 = gen_wire.py_serialize("tcp", 0, 2, 0, gen_wire.rbytes(r, r.choice([0, 4, 8])),
                                   [(11, b"big")], gen_wire.rbytes(r, pl))
        f2, _ = gen_stream.gen_tcp_msg(r, "req")
        stream = f1 + f2 + f1
        meta = {"kinds": ["big", "req", "big"], "tail": "none", "hot": []}
        cuts = [("x1472", "rxbuf"), ("x2944", "rxbuf"), ("%d" % len(f1), "aimed"),
                ("1472,1472", "rxbuf"), ("%d,%d" % (1472, len(f1) - 1472 + 1), "rxbuf")]
        cs.add(0, stream, cuts, meta)
    # 4. sizes aimed at the per-session cap (csm_max_message_size)
    for i in range(12 if quick else 150):
        mtu = r.choice([64, 100, 271, 272, 300, 1152, 1153, 65808, 65809, 70000])
        d = r.choice([-1, 0, 0, 1, 1, 2])
        f = gen_stream.gen_capfit(r, mtu, d)
        g, _ = gen_stream.gen_tcp_msg(r, "ping")
        stream = g + f + g
        meta = {"kinds": ["ping", "capfit", "ping"], "tail": "capfit%+d" % d,
                "hot": list(range(len(g) + 1, len(g) + 1 + gen_stream.tcp_hdr_len(f[0]))),
                "expect": ([226, gen_stream.frame_code(f), 226], 0) if d <= 0 else ([226], 1)}
        cuts = []
        for _ in range(3):
            tok, kind = gen_stream.random_cuts(r, len(stream), meta["hot"])
            if tok != "-":
                cuts.append((tok, kind))
        cs.add(mtu, stream, cuts, meta)
    return cs


def leaf_sweeps(run, model, drv, r):
    """header arithmetic as a leaf: coap_pdu_parse_header_size / coap_pdu_parse_size on every first
    byte x every value of each following header byte (the other bytes drawn from boundary values),
    and coap_session_max_pdu_rcv_size over the csm_rcv_mtu range"""
    quick = run.tier == "quick"
    S = [0x00, 0x01, 0x0c, 0x0d, 0x7f, 0x80, 0xfe, 0xff]
    vals = list(range(256)) if not quick else sorted(set(S + [r.randrange(256) for _ in range(10)] + [0x02, 0x10, 0xf0]))
    lines = []
    for b0 in range(256):
        hl = gen_stream.tcp_hdr_len(b0)
        for pos in range(1, hl):
            for v in vals:
                for _ in range(2 if not quick else 1):
                    h = [b0] + [r.choice(S) for _ in range(hl - 1)]
                    h[pos] = v
                    lines.append("tcpsize " + bytes(h).hex())
    mtus = list(range(0, 70001)) if not quick else list(range(0, 300)) + [65806, 65807, 65808, 65809, 65810, 70000,
                                                                         gen_stream.HARD - 1, gen_stream.HARD]
    lines += ["tcpmaxrcv %d" % m for m in mtus]
    om = stream_util.run_cases(model, lines, batch=20000)
    oc = stream_util.run_cases(drv, lines, batch=20000)
    nbad = 0
    for ln, a, b in zip(lines, om, oc):
        run.count(ln, ln.startswith("tcpsize"))
        run.hist("leaf", ln.split()[0])
        if a != b:
            nbad += 1
            if nbad <= 2:
                run.violation("header arithmetic differs from the model on %s: model %s, implementation %s" % (ln, a, b),
                              "correspondence case: %s\nmodel: %s\nimplementation: %s\n" % (ln, a, b),
                              tag="leaf%d" % nbad, no_input=True)
    run.cov["leaf_cases"] = len(lines)
    run.cov["leaf_disagreements"] = nbad


def shrink(drv, mtu, stream, pts, fails):
    """greedy: drop cut points while the implementation still disagrees with its single-arrival run"""
    pts = list(pts)
    steps = 0
    changed = True
    while changed and steps < 80:
        changed = False
        for p in list(pts):
            cand = [q for q in pts if q != p]
            steps += 1
            if cand and fails(mtu, stream, cand):
                pts = cand
                changed = True
    return pts


def main(run):
    run.cov["trusted_base"] = vlib.TRUSTED_COMMON + [
        "model: Stream/TcpReader.v (hand transcription of the TCP/TLS branch of coap_read_session, "
        "coap_pdu_parse_header_size, coap_pdu_parse_size, the caps of coap_pdu_init/coap_pdu_resize; "
        "constants compared with the build on every run)",
        "Wire/Pdu.v parse (which frames the PDU parser accepts; tied to the code by C03)",
        "harness/h_stream.c: scripted coap_socket_read/coap_socket_write (ld --wrap) on a server "
        "session accepted over a unix-domain stream socket, driven through coap_io_do_epoll"]
    run.assumptions = [
        "bytes arrive in order and unmodified (TCP); TLS record reassembly inside GnuTLS is not covered",
        "streams with traffic after Release/Abort are excluded (RFC 8323 s.5.6: the peer closes)",
        "allocation never fails (C18)",
        "which handler a delivered message reaches is predicted only for Empty/Ping/Pong, requests "
        "1..7 and responses with a fixed set of options; other messages are checked by the "
        "implementation-only oracle alone"]
    run.prove()
    model = vlib.build_model()
    drv = vlib.build_driver("h_stream", ["h_stream.c"], wraps=WRAPS)

    # constants of the build vs. the instantiation of the model
    om = stream_util.run_cases(model, ["tcpconsts"])
    oc = stream_util.run_cases(drv, ["tcpconsts"])
    if om[0] != oc[0]:
        run.violation("constants of the build differ from the model's: model %s, build %s" % (om[0], oc[0]),
                      "correspondence case: tcpconsts\nmodel: %s\nbuild: %s\n" % (om[0], oc[0]),
                      tag="consts", no_input=True)

    r = tie.rng_for(run, "c05")
    leaf_sweeps(run, model, drv, r)
    lines, idx, groups = [], [], []
    replay = getattr(run, "replay", None)
    corpus = list(vlib.read_corpus("C05"))
    if replay:
        corpus = [re.sub(r"^(case|replay):\s*", "", ln.strip()) for ln in open(replay)
                  if re.match(r"^(case:|replay:)?\s*tcp0? ", ln.strip())]
    cs = Cases()
    for ln in corpus:
        t = ln.split()
        if len(t) == 4 and t[0] in ("tcp", "tcp0"):
            stream = bytes.fromhex(t[2]) if t[2] != "-" else b""
            cs.add(int(t[1]), stream, [(t[3], "corpus")], {"kinds": ["corpus"], "tail": "corpus", "hot": []})
    ncorpus = len(cs.groups)
    if not replay:
        gen = build_cases(run, r)
        cs.groups.extend(gen.groups)
    lines, idx = cs.lines()
    om = stream_util.run_cases(model, lines)
    oc = stream_util.run_cases(drv, lines)
    bad = [i for i, o in enumerate(oc) if o == "HANG" or o.startswith("CRASH")]
    run.cov["driver_crashes"] = len(bad)
    for i in bad[:2]:
        run.violation("coap_read_session %s on a scripted stream"
                      % ("does not return (reader loops for ever)" if oc[i] == "HANG" else "crashes: " + oc[i]),
                      "case: %s\nimplementation: %s\nmodel (proved reader): %s\n" % (lines[i], oc[i], om[i]),
                      tag="crash%d" % i)
    skip = set(i for i, o in enumerate(oc) if o in ("HANG", "<not run>") or o.startswith("CRASH"))

    def fails(mtu, stream, pts):
        tok = gen_stream.cuts_to_token(pts, len(stream))
        sx = stream.hex()
        outs = stream_util.run_cases(drv, ["tcp %d %s -" % (mtu, sx), "tcp %d %s %s" % (mtu, sx, tok)],
                                     timeout=10, per_case_timeout=5)
        return oracle_view(outs[0]) != oracle_view(outs[1]) and "HANG" not in outs and "<not run>" not in outs

    ref = {}
    n_or_bad = n_tie_bad = n_tie_skipped = n_tie = n_fr_bad = 0
    for li, (gi, ci) in enumerate(idx):
        mtu, stream, cuts, meta = cs.groups[gi]
        co, mo = oc[li], om[li]
        if li in skip or (ci is not None and gi not in ref):
            if ci is None:
                pass
            continue
        if ci is None:
            ref[gi] = co
            tok, ckind = "-", "single"
        else:
            tok, ckind = cuts[ci]
        pts = gen_stream.cut_points_of(tok, len(stream))
        hot, complete = frame_walk(stream)
        inside = any(p in hot for p in pts)
        rx = any((b - a) >= gen_stream.RXBUF for a, b in zip([0] + pts, pts + [len(stream)]))
        nontriv = complete >= 1 and (inside or (rx and ci is not None))
        run.count(lines[li], nontriv)
        run.hist("cut_kind", ckind)
        run.hist("tail", meta.get("tail", "?"))
        run.hist("arrivals", min(len(pts) + 1, 50) if len(pts) < 49 else "50+")
        run.hist("stream_bytes", "<=40" if len(stream) <= 40 else "<=1472" if len(stream) <= 1472
                 else "<=65804" if len(stream) <= 65804 else ">65804")
        run.hist("mtu", "default" if mtu == 0 else "small" if mtu < 2000 else "large")
        if li % 1500 == 3 or (ci is not None and ckind == "corpus"):
            run.sample({"case": lines[li][:160], "impl": co[:200], "model": mo[:160]})
        # ---- implementation-only oracle: this chunking == the single-arrival run
        if ci is not None and oracle_view(co) != oracle_view(ref[gi]):
            n_or_bad += 1
            if n_or_bad <= 3:
                spts = shrink(drv, mtu, stream, pts, fails) if len(pts) > 1 else pts
                stok = gen_stream.cuts_to_token(spts, len(stream))
                outs = stream_util.run_cases(drv, ["tcp %d %s -" % (mtu, stream.hex()),
                                                   "tcp %d %s %s" % (mtu, stream.hex(), stok)],
                                             timeout=10, per_case_timeout=5)
                what = ("TCP session delivers different messages for two segmentations of one stream "
                        "(%d bytes, arrivals %s vs one arrival): %s  vs  %s"
                        % (len(stream), stok, split_out(outs[1])[0][:3] if split_out(outs[1]) else outs[1][:80],
                           split_out(outs[0])[0][:3] if split_out(outs[0]) else outs[0][:80]))
                run.violation(what,
                              "case: tcp %d %s %s\nreference: tcp %d %s -\n"
                              "implementation, cut : %s\nimplementation, one arrival: %s\n"
                              "model (proved reader), cut: %s\n(original case: %s)\n"
                              % (mtu, stream.hex(), stok, mtu, stream.hex(), outs[1], outs[0], mo, lines[li]),
                              tag="oracle%d" % n_or_bad)
        # ---- implementation-only framing oracle: the messages the stream was built from are
        # delivered in order (CSM has no handler), the close comes exactly for an oversize declaration
        so = split_out(co)
        ex = meta.get("expect")
        if ex is not None and so is not None and (mtu == 0 or meta["tail"].startswith("capfit")):
            want = [c for c in ex[0] if c != 225]
            got = [item_code(it) for it in so[0] if it != "X"]
            if got != want or so[1] != str(ex[1]) or (("X" in so[0]) != bool(ex[1])):
                n_fr_bad += 1
                if n_fr_bad <= 2:
                    run.violation("TCP session does not deliver the messages of the stream in order (codes sent %s%s, "
                                  "delivered %s closed=%s; arrivals %s)"
                                  % (want, " then oversize" if ex[1] else "", got, so[1], tok[:40]),
                                  "case: %s\nmessages the stream was built from (codes): %s, closes: %d\n"
                                  "implementation: %s\nmodel (proved reader): %s\n" % (lines[li], ex[0], ex[1], co, mo),
                                  tag="frames%d" % n_fr_bad)
        # ---- tie: model vs implementation
        exp = expected_from_model(mo)
        if so is None:
            n_tie_bad += 1
            if n_tie_bad <= 2:
                run.violation("driver output not understood: %s" % co[:120],
                              "case: %s\nimplementation: %s\nmodel: %s\n" % (lines[li], co, mo),
                              tag="tiefmt%d" % n_tie_bad, no_input=True)
            continue
        if exp is None:
            n_tie_skipped += 1
            run.hist("tie", "not-predicted")
            continue
        n_tie += 1
        run.hist("tie", "compared")
        if (exp[0], exp[1]) != (so[0], so[1]):
            n_tie_bad += 1
            if n_tie_bad <= 3:
                # is it a failing input of the property itself (oracle false on the implementation)?
                single_ok = ci is None or oracle_view(co) == oracle_view(ref[gi])
                what = ("reader model and coap_read_session disagree on (stream %d bytes, arrivals %s): "
                        "model %s closed=%s, implementation %s closed=%s"
                        % (len(stream), tok[:40], exp[0][:3], exp[1], so[0][:3], so[1]))
                run.violation(what, "correspondence case: %s\nmodel (proved reader): %s\nimplementation: %s\n"
                              % (lines[li], mo, co), tag="tie%d" % n_tie_bad, no_input=single_ok)
    stream_util.cleanup_sockets()
    run.cov["oracle_failures"] = n_or_bad
    run.cov["framing_oracle_failures"] = n_fr_bad
    run.cov["tie_compared"] = n_tie
    run.cov["tie_disagreements"] = n_tie_bad
    run.cov["tie_not_predicted"] = n_tie_skipped
    run.cov["corpus_cases"] = ncorpus
    run.cov["stream_groups"] = len(cs.groups)

"""C05 - stream transports deliver the same messages however the byte stream is cut
(DESIGN.md section 6, C05).

Three things happen on every run, for TCP and for WebSocket server sessions:
  proof  : coq/Properties_C05.v is recompiled (every theorem = one obligation);
  tie    : the extracted reader models and the real receive path (coap_read_session, coap_ws_read;
           objects compiled from /repo's working tree, scripted arrivals on a real accepted server
           session) run the same (stream, chunking) cases; delivered messages (accessor dumps seen
           by the handlers), handshake completion, close and a stuck reader must agree;
  oracle : implementation only - (a) every chunking of a stream must give exactly what the
           single-arrival run of that stream gave (handler calls, events, bytes written);
           (b) a stream built from known messages must deliver exactly these messages, in order;
           (c) every WebSocket frame the library writes (answers of 124..128 and 65534..65537 bytes
           included) is one well-formed frame for the peer's reader, holding a CoAP message."""
import itertools
import re

import vlib
import tie
import gen_stream
import gen_wire
import stream_util

RULE = ("case = (byte stream, way of cutting it into arrivals) on a TCP or WebSocket server session; "
        "TCP streams are 1..6 serialised messages (all four Len forms, tokens 0..300 incl. both "
        "extended forms, signalling) optionally followed by a partial / oversize / malformed frame; "
        "WebSocket streams are an opening handshake (canonical, permuted, mixed case, padded to the "
        "line-buffer limits, over-long, invalid) followed by masked frames with 7/16/64-bit lengths "
        "and optionally a partial / oversize / unmasked / bad-opcode / close frame, with or without "
        "traffic of a second connection between the arrivals; non-trivial = the stream delivers a "
        "message and at least one cut falls strictly inside a frame header (TCP: Len, extended "
        "length, code, extended TKL bytes; WS: the 2..14 header bytes or the last bytes of the "
        "handshake) or an arrival fills the 1472-byte read buffer; distinct = distinct case lines")

WRAPS = ["coap_socket_read", "coap_socket_write", "select", "connect"]
PREDICT_ALWAYS = {0, 226, 227}
REPEATABLE = {1, 4, 8, 11, 15, 20}      # If-Match, ETag, Location-Path, Uri-Path, Uri-Query, Location-Query
PLAIN_ITEMS = {"X", "C", "S", "OOB", "M:UNDEF", "FUEL", "BROKEN"}


def split_out(line):
    """'obs=... closed=d | rest' -> (items, closed, rest)"""
    m = re.match(r"obs=(.*) closed=(\d)(?: \| (.*))?$", line)
    if not m:
        return None
    items = [] if m.group(1) == "-" else m.group(1).split(";")
    return items, m.group(2), m.group(3) or ""


def item_code(it):
    m = re.match(r"M:t=\d+ c=(\d+) ", it)
    return int(m.group(1)) if m else None


def item_opts(it):
    m = re.search(r" o=(\S+) p=", it)
    if not m or m.group(1) == "-":
        return []
    return [int(x.split(":")[0]) for x in m.group(1).split(",")]


def token_len(it):
    m = re.search(r" k=(\S+) o=", it)
    if not m or m.group(1) == "-":
        return 0
    k = m.group(1)
    return int(k[1:].split(":")[0]) if k[0] == "#" else len(k) // 2


def predictable(it, client=False):
    """does this parsed message reach a handler of the driver for sure? None = cannot say"""
    if it in PLAIN_ITEMS:
        return True
    c = item_code(it)
    if c is None:
        return None
    if client and 1 <= c <= 31 and token_len(it) > 8:
        return None                  # client session: longer request tokens are refused (4.00 / RST)
    nums = item_opts(it)
    if c < 224 and any(nums.count(n) > 1 for n in set(nums) if n not in REPEATABLE):
        # a non-repeatable option occurs twice (only mutated frames do that): the PDU parser accepts
        # it, coap_dispatch (coap_option_check_repeatable) does not hand it to a handler
        return None
    if c in PREDICT_ALWAYS:
        return True
    if c == 225:
        return False                 # CSM: processed, no handler
    if 1 <= c <= 7:
        o = set(item_opts(it))
        if c == 5 and 12 not in o:
            return None              # FETCH without Content-Format: 4.15 without a handler call
        return True if o <= gen_stream.SAFE_REQ_NUMS else None
    if 64 <= c < 192:
        return True if set(item_opts(it)) <= gen_stream.SAFE_RSP_NUMS else None
    return None


def expected_from_model(model_line, client=False):
    """-> (items the driver must have logged, closed) or None when the model output contains a
    message whose route through coap_dispatch this check does not predict"""
    so = split_out(model_line)
    if so is None:
        return None
    items, closed, _ = so
    out = []
    for it in items:
        p = predictable(it, client)
        if p is None:
            return None
        if p:
            out.append(it)
    return out, closed


def oracle_view(c_line):
    """what the implementation-only oracle compares: everything but the read counter"""
    return re.sub(r" reads=\d+$", "", c_line)


def tcp_walk(stream):
    """header extents of the frames of a TCP stream (classification of cases only)"""
    pos, hot, complete = 0, set(), 0
    n = len(stream)
    while pos < n:
        b0 = stream[pos]
        hl = gen_stream.tcp_hdr_len(b0)
        hot.update(range(pos + 1, min(pos + hl, n - 1) + 1))
        if pos + hl > n:
            break
        l, t = b0 >> 4, b0 & 15
        if l < 13:
            size, ts = l, pos + 2
        elif l == 13:
            size, ts = stream[pos + 1] + 13, pos + 3
        elif l == 14:
            size, ts = (stream[pos + 1] << 8) + stream[pos + 2] + 269, pos + 4
        else:
            size, ts = int.from_bytes(stream[pos + 1:pos + 5], "big") + 65805, pos + 6
        if t < 13:
            size += t
        elif t == 13:
            size += stream[ts] + 14
        elif t == 14:
            size += (stream[ts] << 8) + stream[ts + 1] + 271
        total = hl - (1 if t == 13 else 2 if t == 14 else 0) + size
        if size > gen_stream.HARD or pos + total > n:
            break
        complete += 1
        pos += total
    return hot, complete


class Cases:
    """groups of (first token, stream, [(cuts, kind[, first token of this case])], meta)"""

    def __init__(self, cmd):
        self.cmd = cmd
        self.groups = []

    def add(self, par, stream, cuts, meta):
        self.groups.append((par, stream, cuts, meta))

    def lines(self):
        out, idx = [], []
        for gi, (par, stream, cuts, meta) in enumerate(self.groups):
            sx = stream.hex() if stream else "-"
            out.append("%s %d %s -" % (self.cmd, par if self.cmd == "tcp" else 0, sx))
            idx.append((gi, None))
            for ci, c in enumerate(cuts):
                p = c[2] if len(c) > 2 else par
                out.append("%s %d %s %s" % (self.cmd, p, sx, c[0]))
                idx.append((gi, ci))
        return out, idx


# ------------------------------------------------------------------ TCP cases

def build_tcp_cases(run, r):
    cs = Cases("tcp")
    quick = run.tier == "quick"
    # 1. exhaustive 1-, 2- (and 3-) cut placements on short streams
    n_small = 24 if quick else 90
    for i in range(n_small):
        stream, meta = gen_stream.gen_tcp_stream(r, small=True)
        tries = 0
        while not (6 <= len(stream) <= (26 if quick else 34)) and tries < 50:
            stream, meta = gen_stream.gen_tcp_stream(r, small=True)
            tries += 1
        if not stream:
            continue
        n = len(stream)
        cuts = [(t, "exh1") for t in gen_stream.exhaustive_cuts(n, 1)]
        cuts += [(t, "exh2") for t in gen_stream.exhaustive_cuts(n, 2)]
        if (not quick and n <= 26) or (quick and i < 2 and n <= 18):
            cuts += [(t, "exh3") for t in gen_stream.exhaustive_cuts(n, 3)]
        cuts.append(("x1", "bytewise"))
        cs.add(0, stream, cuts, meta)
    # 2. random streams, aimed chunkings
    n_rand = 1000 if quick else 12000
    for i in range(n_rand):
        big = (i % 12 == 0)
        stream, meta = gen_stream.gen_tcp_stream(r, allow_big=big)
        if not stream:
            continue
        x = r.random()
        mtu = 0
        if x < 0.12:
            mtu = r.choice([64, 80, 100, 271, 272, 273, 300, 1152, 65808, 65809, gen_stream.HARD + 1])
        k = 3 if big else r.choice([3, 4, 6])
        cuts, seen = [], set()
        for _ in range(k):
            tok, kind = gen_stream.random_cuts(r, len(stream), meta["hot"])
            if tok not in seen and tok != "-":
                seen.add(tok)
                cuts.append((tok, kind))
        cs.add(mtu, stream, cuts, meta)
    # 3. arrivals that fill the read buffer exactly: frames sized around multiples of 1472
    for i in range(10 if quick else 120):
        pl = r.choice([1472, 2944]) - r.choice([0, 1, 2, 3, 4, 5, 6, 7, 8, 9, 12])
        f1 = gen_wire.py_serialize("tcp", 0, 2, 0, gen_wire.rbytes(r, r.choice([0, 4, 8])),
                                   [(11, b"big")], gen_wire.rbytes(r, pl))
        f2, _ = gen_stream.gen_tcp_msg(r, "req")
        stream = f1 + f2 + f1
        meta = {"kinds": ["big", "req", "big"], "tail": "none", "hot": [],
                "expect": ([2, gen_stream.frame_code(f2), 2], 0)}
        cuts = [("x1472", "rxbuf"), ("x2944", "rxbuf"), ("%d" % len(f1), "aimed"),
                ("1472,1472", "rxbuf"), ("%d,%d" % (1472, len(f1) - 1472 + 1), "rxbuf")]
        cs.add(0, stream, cuts, meta)
    # 4. sizes aimed at the per-session cap (csm_max_message_size)
    for i in range(12 if quick else 150):
        mtu = r.choice([64, 100, 271, 272, 300, 1152, 1153, 65808, 65809, 70000])
        d = r.choice([-1, 0, 0, 1, 1, 2])
        f = gen_stream.gen_capfit(r, mtu, d)
        g, _ = gen_stream.gen_tcp_msg(r, "ping")
        stream = g + f + g
        meta = {"kinds": ["ping", "capfit", "ping"], "tail": "capfit%+d" % d,
                "hot": list(range(len(g) + 1, len(g) + 1 + gen_stream.tcp_hdr_len(f[0]))),
                "expect": ([226, gen_stream.frame_code(f), 226], 0) if d <= 0 else ([226], 1)}
        cuts = []
        for _ in range(3):
            tok, kind = gen_stream.random_cuts(r, len(stream), meta["hot"])
            if tok != "-":
                cuts.append((tok, kind))
        cs.add(mtu, stream, cuts, meta)
    return cs


# ------------------------------------------------------------------ WebSocket cases

def build_ws_cases(run, r):
    cs = Cases("ws")
    quick = run.tier == "quick"
    canon = (gen_stream.WS_GET + b"\r\n" + b"\r\n".join(gen_stream.WS_LINES) + b"\r\n\r\n", "ok")
    # 1. canonical handshake + short frames: every single cut of the whole stream, every pair of
    #    cuts behind the handshake (frame headers, mask, payload), byte-wise
    for i in range(6 if quick else 30):
        stream, meta = gen_stream.gen_ws_stream(r, hs=canon, small=True)
        n, h = len(stream), meta["hslen"]
        cuts = [(t, "exh1", i & 1) for t in gen_stream.exhaustive_cuts(n, 1)]
        tail = list(range(max(1, h - 3), n))
        if len(tail) <= (34 if quick else 60):
            for a, b in itertools.combinations(tail, 2):
                cuts.append((gen_stream.cuts_to_token([a, b], n), "exh2", (a + b) & 1))
        cuts.append(("x1", "bytewise", 0))
        cuts.append(("x1", "bytewise", 1))
        cs.add(0, stream, cuts, meta)
    # 2. random handshakes and frame sequences, aimed chunkings, with and without interleaving
    for i in range(500 if quick else 8000):
        stream, meta = gen_stream.gen_ws_stream(r)
        cuts, seen = [], set()
        for _ in range(r.choice([3, 4, 5])):
            tok, kind = gen_stream.random_cuts(r, len(stream), meta["hot"])
            opt = r.randrange(4)       # bit 0: another connection's traffic, bit 1: own transmission
            if (tok, opt) not in seen and tok != "-":
                seen.add((tok, opt))
                cuts.append((tok, kind, opt))
        if r.random() < 0.3:
            k = r.choice([13, 14, 15, 28])
            cuts.append(("x%d" % k, "fixed", r.randrange(4)))
        cs.add(0, stream, cuts, meta)
    # 3. sizes of the frames the library writes: 7-bit / 16-bit / 64-bit length boundaries
    for t in gen_stream.WSIZE_TARGETS:
        stream, meta = gen_stream.gen_ws_wsize_stream(r, False, t)
        cs.add(0, stream, [("%d" % (meta["hslen"] + 9), "aimed", 0), ("x14", "fixed", 2)], meta)
    return cs


def build_wsc_cases(run, r):
    """WebSocket client session: the server's handshake answer and unmasked frames"""
    cs = Cases("wsc")
    quick = run.tier == "quick"
    canon = (gen_stream.WSC_FIRST + b"\r\n" + b"\r\n".join(gen_stream.WSC_LINES) + b"\r\n\r\n", "ok")
    for i in range(6 if quick else 30):
        stream, meta = gen_stream.gen_wsc_stream(r, hs=canon, small=True)
        n, h = len(stream), meta["hslen"]
        cuts = [(t, "exh1", 0) for t in gen_stream.exhaustive_cuts(n, 1)]
        tail = list(range(max(1, h - 3), n))
        if len(tail) <= (30 if quick else 60):
            for a, b in itertools.combinations(tail, 2):
                cuts.append((gen_stream.cuts_to_token([a, b], n), "exh2", 0))
        cuts.append(("x1", "bytewise", 0))
        cs.add(0, stream, cuts, meta)
    for i in range(300 if quick else 5000):
        stream, meta = gen_stream.gen_wsc_stream(r)
        cuts, seen = [], set()
        for _ in range(r.choice([3, 4, 5])):
            tok, kind = gen_stream.random_cuts(r, len(stream), meta["hot"])
            if tok not in seen and tok != "-":
                seen.add(tok)
                cuts.append((tok, kind, 2 * r.randrange(2)))
        if r.random() < 0.3:
            cuts.append(("x%d" % r.choice([5, 13, 14, 15]), "fixed", 2 * r.randrange(2)))
        cs.add(0, stream, cuts, meta)
    for t in gen_stream.WSIZE_TARGETS:
        stream, meta = gen_stream.gen_ws_wsize_stream(r, True, t)
        cs.add(0, stream, [("%d" % (meta["hslen"] + 5), "aimed", 0), ("x14", "fixed", 2)], meta)
    return cs


def ws_classify(stream, meta, pts):
    hot = set(meta.get("hot", []))
    delivered = bool(meta.get("expect") and meta["expect"][0])
    return delivered and any(p in hot for p in pts)


# ------------------------------------------------------------------ leaf sweeps

def leaf_sweeps(run, model, drv, r):
    """header arithmetic as a leaf: coap_pdu_parse_header_size / coap_pdu_parse_size on every first
    byte x every value of each following header byte (the other bytes drawn from boundary values),
    coap_session_max_pdu_rcv_size over the csm_rcv_mtu range, and the constants of the build"""
    quick = run.tier == "quick"
    S = [0x00, 0x01, 0x0c, 0x0d, 0x7f, 0x80, 0xfe, 0xff]
    vals = list(range(256)) if not quick else sorted(set(S + [r.randrange(256) for _ in range(10)] + [0x02, 0x10, 0xf0]))
    lines = []
    for b0 in range(256):
        hl = gen_stream.tcp_hdr_len(b0)
        for pos in range(1, hl):
            for v in vals:
                for _ in range(2 if not quick else 1):
                    h = [b0] + [r.choice(S) for _ in range(hl - 1)]
                    h[pos] = v
                    lines.append("tcpsize " + bytes(h).hex())
    mtus = list(range(0, 70001)) if not quick else list(range(0, 300)) + [65806, 65807, 65808, 65809, 65810, 70000,
                                                                         gen_stream.HARD - 1, gen_stream.HARD]
    lines += ["tcpmaxrcv %d" % m for m in mtus]
    lines += ["tcpconsts", "wsconsts"]
    om = stream_util.run_cases(model, lines, batch=20000)
    oc = stream_util.run_cases(drv, lines, batch=20000)
    nbad = 0
    for ln, a, b in zip(lines, om, oc):
        run.count(ln, ln.startswith("tcpsize"))
        run.hist("leaf", ln.split()[0])
        if a != b:
            nbad += 1
            if nbad <= 2:
                run.violation("header arithmetic / constants differ from the model on %s: model %s, implementation %s"
                              % (ln, a, b),
                              "correspondence case: %s\nmodel: %s\nimplementation: %s\n" % (ln, a, b),
                              tag="leaf%d" % nbad, no_input=True)
    run.cov["leaf_cases"] = len(lines)
    run.cov["leaf_disagreements"] = nbad


# ------------------------------------------------------------------ evaluation of one protocol

def shrink(par, stream, pts, fails):
    """greedy: drop cut points while the implementation still disagrees with its single-arrival run"""
    pts = list(pts)
    steps = 0
    changed = True
    while changed and steps < 60:
        changed = False
        for p in list(pts):
            cand = [q for q in pts if q != p]
            steps += 1
            if cand and fails(par, stream, cand):
                pts = cand
                changed = True
    return pts


def evaluate(run, proto, cs, model, drv, stats, drv_san=None):
    cmd = cs.cmd
    stats["oracle_reported"] = stats["frames_reported"] = stats["tie_reported"] = 0   # budget per protocol
    lines, idx = cs.lines()
    om = stream_util.run_cases(model, lines)
    oc = stream_util.run_cases(drv, lines)
    if drv_san:
        # sanitizer build (ASan + UBSan incl. array bounds) of library and driver: same cases, the
        # results must be those of the plain build and nothing may be reported
        osan = stream_util.run_cases(drv_san, lines, timeout=300, per_case_timeout=30,
                                     env={"ASAN_OPTIONS": "detect_leaks=0:abort_on_error=1",
                                          "UBSAN_OPTIONS": "halt_on_error=1"})
        nsan = 0
        for i, (a, b) in enumerate(zip(oc, osan)):
            if b == "<not run>" or oracle_view(a) == oracle_view(b):
                continue
            nsan += 1
            if nsan <= 2:
                run.violation("sanitizer build of the %s receive path differs from the plain build or reports an "
                              "error: %s" % (proto, b[:120]),
                              "case: %s\nplain build: %s\nsanitizer build: %s\n" % (lines[i], a, b),
                              tag="%ssan%d" % (proto, nsan))
        stats["san_cases"] = stats.get("san_cases", 0) + len(lines)
        stats["san_diffs"] = stats.get("san_diffs", 0) + nsan
    what_fn = "coap_read_session" if proto == "tcp" else "coap_ws_read / coap_read_session"
    if proto == "wsc":
        what_fn += " (client session)"
    bad = [i for i, o in enumerate(oc) if o == "HANG" or o.startswith("CRASH")]
    stats["crashes"] += len(bad)
    for i in bad[:2]:
        run.violation("%s %s on a scripted %s stream"
                      % (what_fn, "does not return (reader loops for ever)" if oc[i] == "HANG" else "crashes: " + oc[i],
                         proto),
                      "case: %s\nimplementation: %s\nmodel (proved reader): %s\n" % (lines[i], oc[i], om[i]),
                      tag="%scrash%d" % (proto, i))
    skip = set(i for i, o in enumerate(oc) if o in ("HANG", "<not run>") or o.startswith("CRASH"))

    def fails(par, stream, pts):
        tok = gen_stream.cuts_to_token(pts, len(stream))
        sx = stream.hex()
        outs = stream_util.run_cases(drv, ["%s %d %s -" % (cmd, par if proto == "tcp" else 0, sx),
                                           "%s %d %s %s" % (cmd, par, sx, tok)], timeout=10, per_case_timeout=5)
        return (oracle_view(outs[0]) != oracle_view(outs[1]) and "HANG" not in outs and "<not run>" not in outs
                and not any(o.startswith("CRASH") for o in outs))

    if proto != "tcp":
        # implementation-only oracle (c): every frame the library WROTE is one well-formed WebSocket
        # frame for the peer's reader (decoded by the specification automaton) holding a CoAP message
        role = "c" if proto == "wsc" else "s"
        wfs = {}
        for li, co in enumerate(oc):
            m = re.search(r" wf=(\S+)", co)
            if m and m.group(1) != "-" and li not in skip:
                wfs.setdefault(m.group(1), li)
        keys = list(wfs)
        dec = stream_util.run_cases(model, ["wsdec %s %s" % (role, k) for k in keys], batch=50)
        nbadw = 0
        for k, d in zip(keys, dec):
            run.hist(proto + "_written_frames", "checked")
            if "BAD" in d or d.startswith("ERROR") or d in ("HANG", "<not run>"):
                nbadw += 1
                stats["written_bad"] = stats.get("written_bad", 0) + 1
                if nbadw <= 2:
                    li = wfs[k]
                    sizes = [len(w) // 2 for w in k.split(",")]
                    run.violation("%s session writes an ill-formed WebSocket frame (write sizes %s, decoded by the "
                                  "peer's reader as %s)" % (proto.upper(), sizes[:8], d[:120]),
                                  "case: %s\nimplementation: %s\nframes written, decoded with the proved frame automaton: %s\n"
                                  % (lines[li], oc[li][:3000], d), tag="%swritten%d" % (proto, nbadw))
        stats["written_checked"] = stats.get("written_checked", 0) + len(keys)
    ref = {}
    for li, (gi, ci) in enumerate(idx):
        par, stream, cuts, meta = cs.groups[gi]
        co, mo = oc[li], om[li]
        if li in skip or (ci is not None and gi not in ref):
            continue
        if ci is None:
            ref[gi] = co
            tok, ckind, cpar = "-", "single", (par if proto == "tcp" else 0)
        else:
            c = cuts[ci]
            tok, ckind, cpar = c[0], c[1], (c[2] if len(c) > 2 else par)
        pts = gen_stream.cut_points_of(tok, len(stream))
        if proto == "tcp":
            hot, complete = tcp_walk(stream)
            inside = any(p in hot for p in pts)
            rx = any((b - a) >= gen_stream.RXBUF for a, b in zip([0] + pts, pts + [len(stream)]))
            nontriv = complete >= 1 and (inside or (rx and ci is not None))
        else:
            nontriv = ws_classify(stream, meta, pts)
        run.count(lines[li], nontriv)
        run.hist(proto + "_cut_kind", ckind)
        run.hist(proto + "_tail", meta.get("tail", "?"))
        run.hist(proto + "_arrivals", min(len(pts) + 1, 50) if len(pts) < 49 else "50+")
        run.hist(proto + "_stream_bytes", "<=40" if len(stream) <= 40 else "<=1472" if len(stream) <= 1472
                 else "<=65804" if len(stream) <= 65804 else ">65804")
        if proto == "tcp":
            run.hist("tcp_mtu", "default" if par == 0 else "small" if par < 2000 else "large")
        else:
            run.hist(proto + "_interleaved", cpar & 1)
            run.hist(proto + "_handshake", meta.get("hs", "?"))
        if li % 1500 == 3 or ckind == "corpus":
            run.sample({"case": lines[li][:160], "impl": co[:200], "model": mo[:160]}, limit=8)
        # ---- implementation-only oracle (a): this chunking == the single-arrival run
        if ci is not None and oracle_view(co) != oracle_view(ref[gi]):
            stats["oracle"] += 1
            if stats["oracle_reported"] < 3:
                stats["oracle_reported"] += 1
                spts = shrink(cpar, stream, pts, fails) if len(pts) > 1 else pts
                stok = gen_stream.cuts_to_token(spts, len(stream))
                outs = stream_util.run_cases(drv, ["%s %d %s -" % (cmd, par if proto == "tcp" else 0, stream.hex()),
                                                   "%s %d %s %s" % (cmd, cpar, stream.hex(), stok)],
                                             timeout=10, per_case_timeout=5)
                so0, so1 = split_out(outs[0]), split_out(outs[1])
                what = ("%s session delivers different messages for two segmentations of one stream "
                        "(%d bytes, arrivals %s%s vs one arrival): %s  vs  %s"
                        % (proto.upper(), len(stream), stok,
                           (" with traffic of another connection in between" if proto != "tcp" and cpar & 1 else "") +
                           (" with a transmission of the session itself in between" if proto != "tcp" and cpar & 2 else ""),
                           so1[0][:4] if so1 else outs[1][:80], so0[0][:4] if so0 else outs[0][:80]))
                run.violation(what,
                              "case: %s %d %s %s\nreference: %s %d %s -\n"
                              "implementation, cut : %s\nimplementation, one arrival: %s\n"
                              "model (proved reader), cut: %s\n(original case: %s)\n"
                              % (cmd, cpar, stream.hex(), stok, cmd, par if proto == "tcp" else 0, stream.hex(),
                                 outs[1], outs[0], mo, lines[li]),
                              tag="%soracle%d" % (proto, stats["oracle_reported"]))
        # ---- implementation-only oracle (b): the messages the stream was built from are delivered in
        # order (CSM has no handler), the close comes exactly when the stream asks for it
        so = split_out(co)
        ex = meta.get("expect")
        if ex is not None and so is not None and (proto != "tcp" or par == 0 or meta["tail"].startswith("capfit")):
            want = [c for c in ex[0] if c != 225]
            got = [item_code(it) for it in so[0] if it.startswith("M:")]
            okc = True
            if proto != "tcp":
                okc = (("C" in so[0]) == bool(ex[2])) and "S" not in so[0]
            if got != want or so[1] != str(ex[1]) or (("X" in so[0]) != bool(ex[1])) or not okc:
                stats["frames"] += 1
                if stats["frames_reported"] < 2:
                    stats["frames_reported"] += 1
                    run.violation("%s session does not deliver the messages of the stream in order (codes sent %s%s, "
                                  "delivered %s closed=%s items %s; arrivals %s)"
                                  % (proto.upper(), want, " then close" if ex[1] else "", got, so[1], so[0][:3], tok[:40]),
                                  "case: %s\nmessages the stream was built from (codes): %s, closes: %d\n"
                                  "implementation: %s\nmodel (proved reader): %s\n" % (lines[li], ex[0], ex[1], co, mo),
                                  tag="%sframes%d" % (proto, stats["frames_reported"]))
        # ---- tie: model vs implementation
        exp = expected_from_model(mo, client=(proto == "wsc"))
        if so is None:
            stats["tie_bad"] += 1
            if stats["tie_reported"] < 2:
                stats["tie_reported"] += 1
                run.violation("driver output not understood: %s" % co[:120],
                              "case: %s\nimplementation: %s\nmodel: %s\n" % (lines[li], co, mo),
                              tag="%stiefmt%d" % (proto, stats["tie_reported"]), no_input=True)
            continue
        if exp is None:
            stats["tie_skipped"] += 1
            run.hist(proto + "_tie", "not-predicted")
            continue
        stats["tie"] += 1
        run.hist(proto + "_tie", "compared")
        if (exp[0], exp[1]) != (so[0], so[1]):
            stats["tie_bad"] += 1
            if stats["tie_reported"] < 3:
                stats["tie_reported"] += 1
                single_ok = ci is None or oracle_view(co) == oracle_view(ref[gi])
                what = ("reader model and %s disagree on (%s stream %d bytes, arrivals %s): "
                        "model %s closed=%s, implementation %s closed=%s"
                        % (what_fn, proto, len(stream), tok[:40], exp[0][:4], exp[1], so[0][:4], so[1]))
                run.violation(what, "correspondence case: %s\nmodel (proved reader): %s\nimplementation: %s\n"
                              % (lines[li], mo, co), tag="%stie%d" % (proto, stats["tie_reported"]),
                              no_input=single_ok)
    return len(cs.groups)


def corpus_cases(cmds, replay):
    corpus = list(vlib.read_corpus("C05"))
    if replay:
        corpus = [re.sub(r"^(case|replay|correspondence case):\s*", "", ln.strip()) for ln in open(replay)]
    out = []
    for ln in corpus:
        t = ln.split()
        if len(t) == 4 and t[0] in cmds:
            stream = bytes.fromhex(t[2]) if t[2] != "-" else b""
            out.append((int(t[1]), stream, t[3]))
    return out


def main(run):
    run.cov["trusted_base"] = vlib.TRUSTED_COMMON + [
        "model: Stream/TcpReader.v (hand transcription of the TCP/TLS branch of coap_read_session, "
        "coap_pdu_parse_header_size, coap_pdu_parse_size, the caps of coap_pdu_init/coap_pdu_resize), "
        "Stream/WsReader.v + Stream/WsHandshake.v (coap_ws_rd_http_header, the server-side header "
        "checks, coap_ws_read, the WS branch of coap_read_session); constants compared with the "
        "build on every run",
        "Wire/Pdu.v parse (which frames the PDU parser accepts; tied to the code by C03)",
        "harness/h_stream.c: scripted coap_socket_read/coap_socket_write/select (ld --wrap) on server "
        "sessions accepted over unix-domain stream sockets, driven through coap_io_do_epoll"]
    run.assumptions = [
        "bytes arrive in order and unmodified (TCP); TLS record reassembly inside GnuTLS is not covered",
        "streams with traffic after Release/Abort or after a WebSocket close are excluded "
        "(RFC 8323 s.5.6: the peer closes); exception: the body bytes of an oversized frame",
        "allocation never fails (C18)",
        "which handler a delivered message reaches is predicted only for Empty/Ping/Pong, requests "
        "1..7 and responses with a fixed set of options; other messages are checked by the "
        "implementation-only oracles alone"]
    run.prove()
    model = vlib.build_model()
    drv = vlib.build_driver("h_stream", ["h_stream.c"], wraps=WRAPS)
    drv_san = vlib.build_driver("h_stream", ["h_stream.c"], variant="asan", wraps=WRAPS) \
        if run.tier == "thorough" else None
    r = tie.rng_for(run, "c05")
    replay = getattr(run, "replay", None)
    if not replay:
        leaf_sweeps(run, model, drv, r)
    stats = {k: 0 for k in ("crashes", "oracle", "oracle_reported", "frames", "frames_reported", "tie", "tie_bad",
                            "tie_reported", "tie_skipped")}
    ngroups = 0
    ncorpus = 0
    for proto, cmds, build in (("tcp", ("tcp", "tcp0"), build_tcp_cases), ("ws", ("ws", "ws0"), build_ws_cases),
                               ("wsc", ("wsc", "wsc0"), build_wsc_cases)):
        cs = Cases(proto)
        for par, stream, tok in corpus_cases(cmds, replay):
            cs.add(par if proto == "tcp" else 0, stream, [(tok, "corpus", par)],
                   {"kinds": ["corpus"], "tail": "corpus", "hot": [], "hs": "corpus"})
            ncorpus += 1
        if not replay:
            cs.groups.extend(build(run, r).groups)
        if cs.groups:
            ngroups += evaluate(run, proto, cs, model, drv, stats, drv_san)
    stream_util.cleanup_sockets()
    if run.tier == "thorough" and not replay:
        # independent re-check of the compiled proofs (coqchk: kernel only, reports axioms)
        rc, out = vlib.sh(["coqchk", "-silent", "-o", "-Q", ".", "LibcoapV", "LibcoapV.Properties_C05"],
                          cwd=vlib.COQ, timeout=1800, check=False)
        ok = rc == 0 and "* Axioms: <none>" in out
        run.cov["coqchk"] = "ok, axioms: none" if ok else out[-600:]
        if not ok:
            run.violation("coqchk does not accept Properties_C05.vo (or finds axioms)", out[-4000:],
                          tag="coqchk", no_input=True)
    run.cov["driver_crashes"] = stats["crashes"]
    run.cov["oracle_failures"] = stats["oracle"]
    run.cov["framing_oracle_failures"] = stats["frames"]
    run.cov["tie_compared"] = stats["tie"]
    run.cov["tie_disagreements"] = stats["tie_bad"]
    run.cov["tie_not_predicted"] = stats["tie_skipped"]
    run.cov["written_frame_sets_decoded"] = stats.get("written_checked", 0)
    run.cov["written_frames_ill_formed"] = stats.get("written_bad", 0)
    run.cov["sanitizer_cases"] = stats.get("san_cases", 0)
    run.cov["sanitizer_differences"] = stats.get("san_diffs", 0)
    run.cov["corpus_cases"] = ncorpus
    run.cov["stream_groups"] = ngroups

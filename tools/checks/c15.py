"""C15 - OSCORE never accepts a replay or reuses a nonce; forgeries leave no trace
(DESIGN.md section 6, C15; notes/C15.md)."""
import vlib
import tie
import gen_replay as G

RULE = ("histories of OSCORE requests (genuine / byte-identical replay / forged three ways, any "
        "claimed Partial IV) delivered to a live server through coap_handle_dgram, op sequences on "
        "oscore_validate_sender_seq / oscore_roll_back_seq, and protect / crash-restart traces of a "
        "sender; exhaustive over small alphabets plus seeded random aimed at the window boundaries "
        "(W-1, W, W+1, 63, 64, 65, OSCORE_SEQ_MAX); non-trivial = at least 3 steps with at least "
        "one acceptance and one rejection (recipient) or at least one Partial IV and one save "
        "(sender); distinct = distinct case line")

WRAPS = ["coap_socket_send", "coap_malloc_type"]


def nontrivial(line, out):
    if line.startswith("sst"):
        res = out.split()
        return any(not o.startswith("-/") for o in res) and any(not o.endswith("/-") for o in res)
    res = out.split()
    if len(res) < 3:
        return False
    firsts = [o.split(",")[0] for o in res]
    return any(f in ("A", "1") for f in firsts) and any(f not in ("A", "1", "-") for f in firsts)


def oracle(line, out):
    if line.startswith("rpd"):
        return G.oracle_rpd(line, out)
    if line.startswith("sst"):
        return G.oracle_sst(line, out)
    if line.startswith("rpx"):
        return G.oracle_rpx(line, out)
    return []


def run_c(drv, lines):
    outs, crashes = vlib.run_lines_robust(drv, lines, timeout=900)
    return outs, crashes


def shrink(drv, line, fails):
    """delta-debug the op list of a case with 'the oracle fails on the implementation' as predicate"""
    t = line.split()
    nfix = {"rpd": 5, "rpu": 3, "sst": 3, "rpx": 4}[t[0]]
    prefix, ops = t[:nfix], t[nfix:]

    def still(pfx, cand):
        if not cand or (pfx[0] == "rpx" and not G.rpx_ok(cand)):
            return False
        ln = " ".join(pfx + cand)
        o, _ = run_c(drv, [ln])
        return bool(fails(ln, o[0]))
    ops = tie.shrink_ops(prefix, ops, still, max_steps=200)
    return " ".join(prefix + ops)


def neighbours(line):
    """request-level histories around a case on which model and code disagree: the same numbers
    as genuine messages, followed by a replay of each and by the numbers next to them"""
    t = line.split()
    out = []
    if t[0] == "rpu":
        seqs = [int(x[1:], 16) for x in t[3:] if x[0] == "v" and int(x[1:], 16) < G.SEQ_MAX]
        wcfg = t[2]
        base = ["g%x" % s for s in seqs]
        cfgs = [(wcfg, 0), (wcfg, 1)]
    elif t[0] == "rpd":
        base = t[5:]
        seqs = [int(x[1:], 16) for x in base if x[0] in G.GEN_KINDS]
        cfgs = [(t[2], int(t[3]))]
    else:
        return out
    for wcfg, b12 in cfgs:
        pre = (["e%x" % seqs[0]] if (b12 and seqs and t[0] == "rpu") else [])
        for k in range(1, len(base) + 1):
            head = pre + base[:k]
            tails = []
            for s in sorted(set(seqs)):
                tails.append(["g%x" % s])
                tails.append(["f%x" % (s + 1), "g%x" % (s + 1)] if s + 1 < G.SEQ_MAX else [])
                if s >= 1:
                    tails.append(["g%x" % (s - 1)])
                    tails.append(["g%x" % (s - 1), "g%x" % (s - 1)])
            for tl in tails:
                if tl:
                    out.append(G.rpd_line(wcfg, b12, 0, head + tl))
            out.append(G.rpd_line(wcfg, b12, 0, head + [m for m in head if m[0] in G.GEN_KINDS]))
    return out[:4000]


def main(run):
    run.cov["trusted_base"] = vlib.TRUSTED_COMMON + [
        "model: Oscore/Replay.v (transcribed from oscore_validate_sender_seq, oscore_roll_back_seq, "
        "the request branch of coap_oscore_decrypt_pdu, oscore_add_recipient), Oscore/SenderSeq.v "
        "(oscore_increment_sender_seq, the save_seq_num_func watermark, oscore_derive_ctx)",
        "the outcome of AEAD verification is an input of the model (Genuine | Forged); that a "
        "tampered or wrong-key message fails GnuTLS AES-CCM verification is observed, not proved",
        "harness/h_replay.c reads the recipient context fields and echo_value directly "
        "(white box) and overrides the sender sequence number of the generating client"]
    run.assumptions = [
        "a request is identified by its Partial IV under one security context (the sender never "
        "reuses one: C15_piv_unique)",
        "sender theorem: start_seq_num <= 2^40, ssn_freq < 2^32, fewer than 2^63 steps; a "
        "save_seq_num_func is registered and the application restarts from the value it received",
        "Appendix B.2 context re-derivation, Group OSCORE and replay of responses/notifications "
        "(client side) are outside the model"]
    run.prove()
    model = vlib.build_model()
    drv = vlib.build_driver("h_replay", ["h_replay.c"], wraps=WRAPS)
    drv_ub = vlib.build_driver("h_replay_ub", ["h_replay.c"], wraps=WRAPS,
                               extra=["-DRP_INCLUDE_OSCORE_C", "-fsanitize=shift",
                                      "-fno-sanitize-recover=shift"])
    r = tie.rng_for(run, "c15")
    quick = run.tier == "quick"

    corpus = list(vlib.read_corpus("C15"))
    corpus_rpe = [l for l in corpus if l.startswith("rpe")]      # exchanges are handled below
    lines = ["rpc"] + [l for l in corpus if not l.startswith("rpe")]
    kinds = ["corpus"] * len(lines)
    replay_only = False
    if getattr(run, "replay", None):
        # --replay <file>: only the case lines of a replay file ("case: ..." / "... case: ...")
        import re
        txt = open(run.replay).read()
        rl = [m.group(1).strip() for m in re.finditer(r"(?m)case:\s*((?:rpu|rpd|sst|rpe|rpx)\b.*)$", txt)]
        lines = ["rpc"] + [l for l in rl if not l.startswith("rpe")]
        kinds = ["replay"] * len(lines)
        replay_only = True
        replay_rpe = [l for l in rl if l.startswith("rpe")]

    def add(gen, kind):
        if replay_only:
            return
        for ln in gen:
            lines.append(ln)
            kinds.append(kind)

    # exhaustive over small alphabets
    add(G.rpu_exhaustive("32", G.UNIT_ALPHABET, 4 if quick else 5), "unit-exhaustive")
    for w in ("1", "2", "3", "63", "64", "65"):
        add(G.rpu_exhaustive(w, ["v0", "v1", "v2", "v3", "v4", "v40", "v41", "v42", "r"], 3 if quick else 4),
            "unit-exhaustive")
    add(G.rpu_width_probes(("32", "64") if quick else ("1", "2", "32", "33", "63", "64", "100", "4294967295")), "unit-width")
    add(G.rpd_width_probes(("32",) if quick else ("2", "32", "64")), "request-width")
    add(G.rpx_width_probes(), "dualrole-width")
    add(G.rpu_sweep(("32", "64") if quick else ("1", "2", "31", "32", "33", "62", "63", "64", "65", "66", "100")),
        "unit-sweep")
    for w in (("2", "32") if quick else ("1", "2", "3", "32", "64")):
        for b12 in (0, 1):
            n = (4 if w == "32" else 3) if quick else (5 if w in ("2", "32") else 4)
            add(G.rpd_exhaustive(w, b12, G.REQ_ALPHABET, n), "request-exhaustive")
    for b12 in (0, 1):
        add(G.rpd_exhaustive("32", b12, G.MGMT_ALPHABET, 4 if quick else 5), "recipient-mgmt-exhaustive")
    add(G.sst_exhaustive(5 if quick else 7), "sender-exhaustive")
    for b12 in (0, 1):
        add(G.rpx_exhaustive("32", b12, G.RPX_ALPHABET, 4 if quick else 5), "dualrole-exhaustive")
    add((G.rpx_random(r) for _ in range(4000 if quick else 100000)), "dualrole-random")
    # seeded random aimed at the boundaries
    add((G.rpu_random(r) for _ in range(6000 if quick else 150000)), "unit-random")
    add((G.rpd_random(r) for _ in range(6000 if quick else 150000)), "request-random")
    add((G.sst_random(r) for _ in range(3000 if quick else 60000)), "sender-random")

    om, crm = vlib.run_lines_robust(model, lines)
    oc, crc = run_c(drv, lines)
    # the specification alone, on the request-level histories
    spec_idx = [i for i, ln in enumerate(lines) if ln.startswith("rpd")]
    osp, _ = vlib.run_lines_robust(model, [G.rps_of(lines[i]) for i in spec_idx])
    spec = dict(zip(spec_idx, osp))
    run.cov["driver_crashes"] = len(crc)
    run.cov["corpus_cases"] = kinds.count("corpus")

    nviol = 0
    ndis = 0
    disagree = []
    for i, ln in enumerate(lines):
        mo, co = om[i], oc[i]
        co_cmp = G.strip_hashes(co)
        run.count(ln, nontrivial(ln, co))
        run.hist("kind", kinds[i])
        if ln.startswith("rpd") or ln.startswith("rpx"):
            for o in co.split():
                run.hist("request_verdict", o.split(",")[0])
            run.hist("history_length", min(len(co.split()), 20))
        if i % 9973 == 11 or kinds[i] == "corpus" and i < 4:
            run.sample({"case": ln[:300], "impl": co[:300]})
        if "NOGEN" in co:
            # the driver could not produce a message of the case (generator bug): not compared
            run.cov["not_generated"] = run.cov.get("not_generated", 0) + 1
            continue
        fails = oracle(ln, co)
        if co.startswith("CRASH"):
            fails = ["the driver crashed (%s)" % co]
        spec_diff = False
        if (ln.startswith("rpd") and not fails and "NOGEN" not in co and spec.get(i) != "-"
                and not any(x[0] in "+-" for x in ln.split()[5:])):
            sv = [o.split(",")[0] for o in co.split()]
            toks = [x.lstrip("2") for x in ln.split()[5:]]
            # A tokens (allocation failure somewhere): only "not delivered" is compared
            spv = [("*" if (tk[0] == "A" and v != "A") else v) for tk, v in zip(toks, spec.get(i, "").split())]
            spec_diff = spv != sv
        if fails:
            nviol += 1
            if nviol <= 3:
                small = shrink(drv, ln, oracle) if oracle(ln, co) else ln
                so, _ = run_c(drv, [small])
                what = "property fails on the implementation (%s): %s" % (kinds[i], "; ".join((oracle(small, so[0]) or fails)[:2]))
                run.violation(what, "case: %s\nimpl: %s\nmodel (repaired code): %s\n\noriginal case: %s\nimpl: %s\n"
                              % (small, so[0], vlib.run_lines_robust(model, [small])[0][0], ln, co),
                              tag="oracle%d" % nviol)
        elif mo != co_cmp or spec_diff:
            # correspondence failure (model, or the specification the model is proved to refine,
            # against the code) without a failure of the property itself on this input
            ndis += 1
            disagree.append(i)
            if spec_diff and mo == co_cmp:
                om[i] = "specification verdicts: " + spec.get(i, "")
    run.cov["oracle_failures"] = nviol
    run.cov["disagreements"] = ndis

    # model and code differ but the property held on what was explored: look around the case
    if disagree:
        found = 0
        for i in disagree[:5]:
            cand = neighbours(lines[i])
            if not cand:
                continue
            co2, _ = run_c(drv, cand)
            for ln2, o2 in zip(cand, co2):
                f2 = oracle(ln2, o2)
                if f2:
                    small = shrink(drv, ln2, oracle)
                    so, _ = run_c(drv, [small])
                    run.violation("property fails on the implementation (search around a correspondence "
                                  "failure): %s" % "; ".join((oracle(small, so[0]) or f2)[:2]),
                                  "case: %s\nimpl: %s\n\nfound from the disagreeing case: %s\nimpl: %s\nmodel: %s\n"
                                  % (small, so[0], lines[i], oc[i], om[i]), tag="search%d" % found)
                    found += 1
                    break
            if found >= 2:
                break
        for k, i in enumerate(disagree[:3]):
            run.violation("code and model (repaired behaviour) differ (%s): model=%s impl=%s"
                          % (kinds[i], om[i][:100], oc[i][:100]),
                          "correspondence case: %s\nmodel: %s\nimpl: %s\n" % (lines[i], om[i], oc[i]),
                          tag="tie%d" % k, no_input=True)

    # whole exchanges through the client API (B.1.2 recovery included), with replays and
    # tampered copies of everything the client sent
    elines = (corpus_rpe + list(G.rpe_cases(quick))) if not replay_only else replay_rpe
    eo, ecr = run_c(drv, elines)
    conv = [G.parse_rpe(ln, o) for ln, o in zip(elines, eo)]
    mlines = [c[0] for c in conv if c]
    mo2, _ = vlib.run_lines_robust(model, mlines)
    mres = iter(mo2)
    nbad_e = 0
    for ln, o, c in zip(elines, eo, conv):
        run.count(ln, c is not None and len(c[1]) >= 3)
        run.hist("kind", "exchange")
        fails = G.oracle_rpe(ln, o)
        mline = next(mres) if c else None
        if fails:
            nbad_e += 1
            if nbad_e <= 2:
                run.violation("property fails on the implementation (client/server exchange): " + "; ".join(fails[:2]),
                              "case: %s\nimpl: %s\n" % (ln, o), tag="exch%d" % nbad_e)
        elif c and " ".join(x.split("/")[0] for x in mline.split()) != " ".join(c[1]):
            nbad_e += 1
            if nbad_e <= 2:
                run.violation("client/server exchange: server state differs from the model (repaired behaviour)",
                              "correspondence case: %s\nimpl: %s\nas history: %s\nmodel: %s\n" % (ln, o, c[0], mline),
                              tag="exchtie%d" % nbad_e, no_input=True)
    run.cov["exchange_cases"] = len(elines)
    run.cov["exchange_failures"] = nbad_e
    if elines:
        run.sample({"case": elines[min(len(elines) - 1, 7)], "impl": eo[min(len(eo) - 1, 7)][:300]})

    # the same recipient cases on a build in which src/oscore/oscore.c is compiled with
    # -fsanitize=shift (no recovery): a shift by >= 64 bits aborts the driver on that case
    sub = [ln for ln in lines if ln.startswith("rpu") or ln.startswith("rpd")]   # (rpx: same code paths)
    ou, cru = run_c(drv_ub, sub)
    run.cov["shift_sanitizer_cases"] = len(sub)
    for j, (idx, rc, err) in enumerate(cru[:2]):
        run.violation("undefined shift evaluated in the replay-window code (driver built with "
                      "-fsanitize=shift aborted, rc=%d): %s" % (rc, err.strip().splitlines()[0][:160] if err.strip() else ""),
                      "case: %s\n\n%s\n" % (sub[idx], err), tag="shift%d" % j)
    nmis = 0
    for ln, a, b in zip(sub, ou, [oc[i] for i, l2 in enumerate(lines) if l2.startswith("rpu") or l2.startswith("rpd")]):
        if G.strip_hashes(a) != G.strip_hashes(b) and not a.startswith("CRASH") and nmis < 1:
            nmis += 1
            run.violation("plain and shift-sanitized builds of the driver disagree",
                          "correspondence case: %s\nplain: %s\nsanitized: %s\n" % (ln, b, a),
                          tag="ubdiff", no_input=True)

    # thorough: independent re-check of the compiled proofs
    if run.tier == "thorough" and not replay_only:
        import os
        rc, out = vlib.sh(["coqchk", "-silent", "-o", "-Q", vlib.COQ, "LibcoapV", "LibcoapV.Properties_C15"],
                          cwd=vlib.COQ, timeout=1500, check=False)
        run.cov["coqchk"] = "ok" if rc == 0 else "failed"
        if rc != 0:
            run.violation("coqchk rejects Properties_C15.vo", out[-3000:], tag="coqchk", no_input=True)

"""C07 - each request concludes exactly once despite loss, duplication and delay
(DESIGN.md section 6, C07; notes/C07.md)."""
import time

import vlib
import tie
import gen_exchange as G

RULE = ("a case is one schedule: (exc) a sequence of client inputs - sends, timer firings, datagrams "
        "of a scripted peer with the handler verdict - or (exe) a request list + per-datagram fate "
        "table (lose / deliver after d / duplicate) + PRNG seed run as a discrete-event simulation "
        "against a real libcoap server or a scripted RFC server; non-trivial = a request was "
        "transmitted and the client afterwards received a datagram or fired a timer; distinct = "
        "distinct case lines")

WRAPS = ["coap_ticks", "coap_socket_send", "coap_socket_recv"]


def run_both(model, drv, lines):
    """model and C driver on the same lines; a driver that keeps dying (runaway library: the harness
    ends a case after 40 s or 200000 datagrams) is given up after a few restarts"""
    om, _ = vlib.run_lines_robust(model, lines)
    oc, cr = vlib.run_lines_robust(drv, lines, max_restarts=6)
    return om, oc, cr

JUDGE_TEXT = {
    1: "a step has none of the shapes the protocol allows for its input",
    2: "a request token concluded twice",
    3: "the response handler was given a token that no request carried",
    4: "a request was transmitted again after its response was handled / after its NACK",
    5: "a Confirmable response was not answered by ACK (verdict OK) / RST (verdict FAIL) after the handler",
    6: "a duplicate Confirmable response was delivered again or answered differently",
    7: "a Non-confirmable response was not delivered exactly once for the datagram",
    8: "a request reused a token",
    9: "a response was withheld from the handler although it is not a duplicate",
}


def judge_all(model, traces, cmd="exj"):
    """traces: list of step lists -> list of (code, pos)"""
    lines = [cmd + " " + G.fmt_steps(t) if t else cmd for t in traces]
    out, _ = vlib.run_lines_robust(model, lines)
    res = []
    for o in out:
        try:
            f = dict(kv.split("=") for kv in o.split())
            res.append((int(f["judge"]), int(f["pos"])))
        except Exception:
            res.append((-1, -1))
    return res


class Verdicts:
    def __init__(self, run):
        self.run = run
        self.nviol = 0
        self.per_tag = {}
        self.kf = {f["id"]: f for f in run.kf}

    def known(self, fid, detail, kind=""):
        f = self.kf.get(fid)
        if f is not None and f.get("status") == "known":
            self.run.known(f, detail)
            self.run.hist("known_finding", fid + (" in " + kind if kind else ""))
            return True
        return False

    def violation(self, what, replay, tag, no_input=False):
        # at most three reports per kind of failure, so that one kind cannot crowd out the others
        self.nviol += 1
        self.per_tag[tag] = self.per_tag.get(tag, 0) + 1
        if self.per_tag[tag] <= 3:
            self.run.violation(what, replay, tag="%s%d" % (tag, self.per_tag[tag]), no_input=no_input)


def step_text(steps, pos):
    if 0 <= pos < len(steps):
        return "%s > %s" % (steps[pos][0], ",".join(steps[pos][1]) or "-")
    return "?"


def settle(model, V, items):
    """items: list of dict(case, steps, parsed(optional)).  Every trace goes to the acceptor
    (Accept.ex_judge, proved sound).  When it stops at clause 2 (a token concluded twice), every
    double conclusion of the trace is classified; those that are instances of a recorded finding
    are reported as such, and the rest of the trace is judged by the same acceptor without
    clause 2.  Everything else is a violation."""
    res = judge_all(model, [it["steps"] for it in items])
    again = []
    for it, (code, pos) in zip(items, res):
        steps = it["steps"]
        if code == 0:
            continue
        if code < 0:
            V.violation("acceptor could not read the observed trace", "case: %s\ntrace: %s\n"
                        % (it["case"], G.fmt_steps(steps)), "judge", no_input=True)
            continue
        if code != 2:
            what = "%s (clause %d, step %d: %s)" % (JUDGE_TEXT.get(code, "?"), code, pos, step_text(steps, pos))
            V.violation("property fails on the implementation: " + what,
                        "case: %s\nobserved client trace: %s\nacceptor: clause %d at step %d\n%s\n"
                        % (it["case"], G.fmt_steps(steps), code, pos, what), "oracle")
            continue
        bad = None
        for p2 in G.double_conclusions(steps):
            cls, text = G.explain_redelivery(steps, p2)
            fid = {"slot": "C07-F1", "newmid": "C07-F2"}.get(cls)
            if cls in ("newmid", "slot") and it.get("srv_errors"):
                fid = None     # not explained by re-processing of a retransmitted request: the server misbehaved
            if cls == "both" and late_response(it, steps, p2):
                fid = "C07-F3"
            if fid and V.known(fid, "%s; case: %s" % (text, it["case"][:160]), it.get("kind", "")):
                it.setdefault("known", []).append(fid)
                continue
            bad = (p2, cls, text)
            break
        if bad:
            what = "%s (%s): %s" % (JUDGE_TEXT[2], bad[1], bad[2])
            V.violation("property fails on the implementation: " + what,
                        "case: %s\nobserved client trace: %s\nacceptor: clause 2 at step %d\n%s\n"
                        % (it["case"], G.fmt_steps(steps), bad[0], what), "oracle")
        else:
            again.append(it)
    if again:
        res = judge_all(model, [it["steps"] for it in again], cmd="exjl")
        for it, (code, pos) in zip(again, res):
            if code != 0:
                steps = it["steps"]
                what = "%s (clause %d, step %d: %s)" % (JUDGE_TEXT.get(code, "?"), code, pos, step_text(steps, pos))
                V.violation("property fails on the implementation: " + what,
                            "case: %s\nobserved client trace: %s\nacceptor (without clause 2): clause %d at "
                            "step %d\n%s\n" % (it["case"], G.fmt_steps(steps), code, pos, what), "oracle")


def late_response(it, steps, pos):
    """the response handled at step pos comes after a legitimate give-up: the NACK for its token
    was TOO_MANY_RETRIES after MAX_RETRANSMIT + 1 transmissions of the request (the client did all
    it has to; the server was still transmitting - a slow async handler, or its own
    retransmissions of a separate response whose earlier copies were lost)"""
    inp = steps[pos][0]
    if not inp.startswith("R:"):
        return False
    kind, mid, tok, _ = G.rx_fields(inp)
    ntx = 0
    for j in range(pos):
        for o in steps[j][1]:
            f = o.split(":")
            if f[0] == "tx" and f[1] == "req" and int(f[3]) == tok:
                ntx += 1
            if f[0] == "nack" and int(f[1]) == tok:
                return f[2] == "0" and ntx == G.MAXR + 1
    return False


def liveness(V, it):
    """once the network is quiet every request has exactly one conclusion; the only excuse is the
    stated fairness hypothesis: the request was acknowledged by an empty ACK and then every
    transmission of the separate response was lost (a NON response is sent once)"""
    p = it["parsed"]
    if p["end"].get("end") not in ("quiet", "idle"):
        V.violation("the simulation did not become quiet: %s" % p["end"].get("end"),
                    "case: %s\n" % it["case"], "harness", no_input=True)
        return
    for rq in p["end"]["reqs"]:
        tok, mid = rq["tok"], rq["mid"]
        # conclusions that count: handler calls for piggybacked / CON responses, NACKs
        n = 0
        nnon = 0
        for inp, outs in it["steps"]:
            for o in outs:
                f = o.split(":")
                if f[0] == "resp" and int(f[3]) == tok:
                    if f[1] == "1":
                        nnon += 1
                    else:
                        n += 1
                if f[0] == "nack" and int(f[1]) == tok:
                    n += 1
        if n >= 1 or nnon >= 1:
            continue    # more than one is the acceptor's business
        resp_delivered = [e for e in p["log"] if e["side"] == "s" and e["deliv"] and
                          e["d"].split(":")[0] in ("ackr", "conr", "nonr") and int(e["d"].split(":")[2]) == tok]
        ack_delivered = [e for e in p["log"] if e["side"] == "s" and e["deliv"] and e["d"] == "ack:%d" % mid]
        resp_sent = [e for e in p["log"] if e["side"] == "s" and
                     e["d"].split(":")[0] in ("ackr", "conr", "nonr") and int(e["d"].split(":")[2]) == tok]
        if not resp_delivered and ack_delivered and resp_sent:
            it.setdefault("excused", []).append(tok)
            V.run.hist("liveness", "excused: empty ACK delivered, every response transmission lost")
            continue
        # a NON response whose mid equals the mid of the queued request removes it from the queue
        coll = [e for e in p["log"] if e["side"] == "s" and e["deliv"] and e["d"].startswith("nonr:%d:" % mid)]
        if coll and V.known("C07-F4", "request mid %d token %d dropped by NON response %s; case: %s"
                            % (mid, tok, coll[0]["d"], it["case"][:160])):
            continue
        V.violation("property fails on the implementation: request token %d (mid %d) never concluded "
                    "although the network became quiet (no handler call, no NACK)" % (tok, mid),
                    "case: %s\nobserved client trace: %s\nlog: %s\nend: %s\n"
                    % (it["case"], G.fmt_steps(it["steps"]),
                       " ".join("%d/%d/%s/%s/%s" % (e["i"], e["t"], e["side"], e["d"],
                                                    "+".join(map(str, e["deliv"])) or "x") for e in p["log"]),
                       p["end"]), "live")
        return
    V.run.hist("liveness", "all concluded")


def nontrivial(steps):
    sent = False
    for inp, outs in steps:
        if inp.startswith("S") and any(o.startswith("tx:req") for o in outs):
            sent = True
        elif sent and (inp.startswith("R:") or inp == "T"):
            return True
    return False


def main(run):
    run.cov["trusted_base"] = vlib.TRUSTED_COMMON + [
        "model: Exchange/Exchange.v (client side of handle_response, coap_dispatch ACK/RST/NON/CON "
        "branches, coap_retransmit counter, transcribed by hand), Exchange/System.v (abstract server "
        "and network: assumed environment), Exchange/Accept.v (acceptor, proved sound)",
        "harness/common/vnet.h scripted network + virtual clock; harness/h_exchange.c event loop and "
        "its scripted RFC 7252 server; the harness writes session->tx_mid/tx_token and reads "
        "context->sendqueue"]
    run.assumptions = [
        "one exchange outstanding per session: a send while a request is queued is skipped",
        "liveness is claimed under the fairness hypothesis: not every transmission of a separate "
        "Confirmable response is lost (a NON response is sent once and may be lost)",
        "at-most-once is proved for a server that answers a request once and for exchanges that start "
        "when no datagram of an earlier exchange is in flight; outside these the code delivers twice "
        "(known findings C07-F1, C07-F2) - see notes/C07.md",
        "liveness is proved for runs in which the 16-bit message ids of the server's session do not wrap "
        "(fewer than 65536 messages of the peer); across such a wrap the code can lose a request (known "
        "finding C07-F5b); the client's own ids may wrap (C07-F5a fixed)",
        "retransmission timing is C06's; here only the retransmission counter is modelled"]
    run.prove()
    model = vlib.build_model()
    drv = vlib.build_driver("h_exchange", ["h_exchange.c"], wraps=WRAPS)
    V = Verdicts(run)
    r = tie.rng_for(run, "c07")
    quick = run.tier == "quick"
    t0 = time.time()

    # ------------------------------------------------------------ cases
    exc, exe = [], []        # (line, kind, honest)
    replay_only = None
    if getattr(run, "replay", None):
        # --replay <file>: run only the case named in a replay file written by this check
        for ln in open(run.replay):
            if ln.startswith("case: "):
                replay_only = ln[len("case: "):].strip()
        if replay_only is None:
            raise vlib.BuildError("no 'case:' line in " + run.replay)
        if not replay_only.startswith("exw"):
            (exc if replay_only.startswith("exc") else exe).append((replay_only, "replay", True))
    for ln in ([] if replay_only else vlib.read_corpus("C07")):
        (exc if ln.startswith("exc") else exe).append((ln, "corpus", True))
    for name, ins in ([] if replay_only else G.templates()):
        exc.append((G.exc_line(ins), "template", True))
        exc.append((G.exc_line(ins, mid0=65533), "template", True))      # mid wraps inside the case
        exc.append((G.exc_line(ins, mid0=65535), "template", True))      # first request has mid 0
        exc.append((G.exc_line(ins, tok0=-1), "template", True))         # first token has length 0
        exc.append((G.exc_line(ins, tok0=72057594037927934), "template", True))   # 7- then 8-byte tokens
        exc.append((G.exc_line([x.replace(":7:", ":0:") for x in ins], mid0=6), "template", True))  # peer mid 0
    for i in range(0 if replay_only else 12000 if quick else 120000):
        honest = r.random() < 0.6
        maxr = r.choice([4, 4, 4, 1, 2, 7])
        exc.append((G.exc_line(["H%d" % r.choice([1, 1, 2, 3, 4, 5, 6, 7])] + G.random_exc(r, honest, maxr), maxr=maxr,
                               mid0=r.choice([100, 65530, 65534, 65535, 0, 7, 999]),
                               tok0=r.choice([0, 0, -1, -1, 254, 65534, 72057594037927934])),
                    "random-honest" if honest else "random-arbitrary", honest))
    nfate = 7 if quick else 8
    for kind in (() if replay_only else ("real", "rfc")):
        for sty in G.EXE_STYLES:
            if sty >= 5 and kind == "rfc":
                continue
            for fates in G.exhaustive_fates(nfate if sty < 5 else nfate - 1, 1500):
                if sty >= 5:
                    # untimed async: the application triggers 4 s after the registration, i.e. after
                    # the client's first retransmission
                    exe.append((G.exe_line(kind, [(sty, 1, 0)], fates, seed=3, adelay=4000,
                                           nstart=16 if len(exe) % 2 else 0,
                                           tok0=G.TOK0S[(len(exe) // 2) % len(G.TOK0S)]), "exhaustive-" + kind, True))
                    continue
                exe.append((G.exe_line(kind, [(sty, 1, 0)], fates, seed=3, nstart=16 if len(exe) % 2 else 0,
                                       tok0=G.TOK0S[(len(exe) // 2) % len(G.TOK0S)]),
                            "exhaustive-" + kind, True))
    # every fate table once more with a zero-length token (quick: one datagram shorter)
    for kind in (() if replay_only else ("real", "rfc")):
        for sty in G.STYLES:
            for fates in G.exhaustive_fates(nfate - 1, 1500):
                exe.append((G.exe_line(kind, [(sty, 1, 0)], fates, seed=3, tok0=-1), "exhaustive0-" + kind, True))
    if not quick and not replay_only:
        for kind in ("real", "rfc"):
            for sty in (1, 3):
                for fates in G.exhaustive_fates(9, 1900):
                    exe.append((G.exe_line(kind, [(sty, 0, 0)], fates, seed=5, adelay=2500),
                                "exhaustive9-" + kind, True))
    for i in range(0 if replay_only else 10000 if quick else 150000):
        kind = r.choice(["real", "real", "rfc"])
        nreq = r.choice([1, 2, 2, 3, 4])
        reqs = [(r.choice(G.EXE_STYLES), r.choice([1, 1, 1, 0]), r.choice([0, 0, 5, 400, 1800])) for _ in range(nreq)]
        fates = G.random_fates(r, r.choice([4, 8, 12, 20]), heavy=(r.random() < 0.25))
        exe.append((G.exe_line(kind, reqs, fates, seed=r.randrange(1, 1 << 30), method=r.choice([1, 1, 2, 3, 4]),
                               tok0=r.choice(G.TOK0S + [-1]),
                               cmid0=r.choice([100, 65533, 65535, 41527, 41528, 41529]), smid0=r.choice([-1, -1, 65535, 99, 100]),
                               adelay=r.choice([1, 300, 1200, 2500, 4000]),
                               dflt=r.choice([0, 3, 40, 900]), nstart=r.choice([0, 16, 16])),
                    "random-" + kind, True))

    # ------------------------------------------------------------ message-id wrap (findings C07-F5a/b)
    if not replay_only or replay_only.startswith("exw"):
        wl = ["exw 65535 100 0", "exw 65534 100 0", "exw 65535 40000 0", "exw 300 65400 0",
              "exw 65535 100 1", "exw 65534 100 1", "exw 300 65400 1"]
        if replay_only:
            wl = [replay_only]
        wm, wc, _ = run_both(model, drv, wl)
        for ln, a, b in zip(wl, wm, wc):
            run.count(ln, True)
            run.hist("case_kind", "exw")
            if a != b:
                V.violation("the library's client does not behave as the model across a message-id wrap: "
                            "model=%s impl=%s" % (a, b), "correspondence: exw\ncase: %s\nmodel: %s\nimpl:  %s\n"
                            % (ln, a, b), "tie", no_input=True)
            f = dict(kv.split("=") for kv in b.split()) if "=" in b else {}
            if f and int(f.get("resp_last", 1)) + int(f.get("nack_last", 0)) == 0 and f.get("queued") == "0":
                if not (ln == "exw 65535 100 1" and V.known("C07-F5b", "%s -> %s" % (ln, b), "exw")):
                    V.violation("property fails on the implementation: the last request of '%s' never "
                                "concluded (no handler call, no NACK, not queued): %s" % (ln, b),
                                "case: %s\nimpl: %s\n" % (ln, b), "live")

    # ------------------------------------------------------------ exc: model and library on the same line
    lines = [c[0] for c in exc]
    om, oc, crashes = run_both(model, drv, lines)
    ocx = oc
    run.cov["driver_crashes"] = len(crashes)
    items = []
    ndiff = 0
    for i, (ln, kind, honest) in enumerate(exc):
        steps = G.parse_steps(oc[i]) if " > " in oc[i] else []
        run.count(ln, nontrivial(steps))
        run.hist("case_kind", "exc-" + kind)
        if i % 700 == 3:
            run.sample({"case": ln[:200], "impl": oc[i][:300]})
        if "!shadow-session" in oc[i]:
            V.violation("property fails on the implementation: during a step of one session the queued request "
                        "of another session of the same context (same mid and token, never answered) left "
                        "the send queue without a NACK: it is neither retransmitted nor NACKed",
                        "case: %s\nobserved client trace (session under test; '!shadow-session-...' marks the step "
                        "after which the other session's request was gone): %s\n" % (ln, oc[i]), "oracle")
        if om[i] != oc[i]:
            ndiff += 1
            if ndiff <= 3:
                V.violation("the library's client does not behave as the model on a scripted-peer case: "
                            "model=%s impl=%s" % (om[i][:200], oc[i][:200]),
                            "correspondence: Exchange.ex_cli_run vs libcoap client\ncase: %s\nmodel: %s\nimpl:  %s\n"
                            % (ln, om[i], oc[i]), "tie", no_input=True)
        if honest and steps:
            items.append({"case": ln, "steps": steps, "kind": "exc-" + kind})
    settle(model, V, items)

    # ------------------------------------------------------------ exe: whole exchanges
    lines = [c[0] for c in exe]
    oc, crashes = vlib.run_lines_robust(drv, lines, max_restarts=6)
    run.cov["driver_crashes"] += len(crashes)
    for idx, rc, err in crashes[:2]:
        V.violation("the driver died on a case (rc=%d): %s" % (rc, err[-200:].replace("\n", " ")),
                    "case: %s\nrc: %d\nstderr: %s\n" % (lines[idx], rc, err), "crash")
    items = []
    replay = []
    nshape = 0
    for i, (ln, kind, honest) in enumerate(exe):
        p = G.parse_exe(oc[i])
        run.hist("case_kind", "exe-" + kind)
        if p is None:
            V.violation("driver gave no trace: %s" % oc[i][:200], "case: %s\noutput: %s\n" % (ln, oc[i]),
                        "harness", no_input=True)
            replay.append("exc 4 0 0")
            items.append(None)
            continue
        run.count(ln, nontrivial(p["steps"]))
        run.hist("end", p["end"].get("end"))
        run.hist("client_steps", min(len(p["steps"]) // 5 * 5, 40))
        if i % 1500 == 11:
            run.sample({"case": ln[:200], "impl": oc[i][:400]})
        f = ln.split()
        cmid0 = int(f[f.index("M") + 1])
        ctok0 = int(f[f.index("T") + 1]) if "T" in f[:12] else 0
        replay.append(G.exc_line([s[0] for s in p["steps"]], mid0=cmid0, tok0=ctok0))
        errs = G.server_shape_errors(p["srv"][1]) if (p.get("srv") and " K real " in ln) else []
        nshape = nshape + 1 if errs else nshape
        if errs and nshape <= 2:
            V.violation("property fails on the implementation (server side of the separate response): the "
                        "server answered a request datagram with something its response style does not "
                        "allow (e.g. a response to a retransmission while the async entry is pending): %s"
                        % errs[0], "case: %s\nserver steps: %s\noffending: %s\nclient trace: %s\n"
                        % (ln, p["srv"][1], errs, G.fmt_steps(p["steps"])), "server")
        items.append({"case": ln, "steps": p["steps"], "parsed": p, "kind": "exe-" + kind, "srv_errors": errs})
    om, _ = vlib.run_lines_robust(model, replay)
    # the real server's steps replayed on the abstract server of System.v (no request
    # de-duplication = what a libcoap server with these handlers does); only for runs in which the
    # server's NSTART is raised, the abstract server does not hold responses back
    srv_lines, srv_idx = [], []
    for i, it in enumerate(items):
        if it is None or " K real " not in it["case"] + " ":
            continue
        f = it["case"].split()
        if int(f[f.index("N") + 1]) < 8:
            continue
        sv = it["parsed"].get("srv")
        if sv and sv[0] >= 0 and sv[1]:
            srv_lines.append("exs 4 %d 0 %s" % (sv[0], sv[1]))
            srv_idx.append(i)
    if srv_lines:
        os_, _ = vlib.run_lines_robust(model, srv_lines)
        nsd = 0
        for i, o in zip(srv_idx, os_):
            run.hist("server_replay", "ok" if o.startswith("ok") else "mismatch")
            if not o.startswith("ok"):
                nsd += 1
                if nsd <= 2:
                    V.violation("the libcoap server does not behave as the abstract server of the model: " + o[:300],
                                "correspondence: Exchange.System.ex_srv_rx / ex_srv_fire / ex_srv_timer replayed on the "
                                "steps observed at the real server\ncase: %s\nserver steps: %s\nresult: %s\n"
                                % (items[i]["case"], items[i]["parsed"]["srv"], o), "srvtie", no_input=True)
        run.cov["server_replays"] = len(srv_lines)
    for i, it in enumerate(items):
        if it is None:
            continue
        want = G.fmt_steps(it["steps"])
        if om[i] != want:
            ndiff += 1
            if ndiff <= 3:
                V.violation("the library's client does not behave as the model on its observed inputs: "
                            "model=%s impl=%s" % (om[i][:200], want[:200]),
                            "correspondence: Exchange.ex_cli_run replayed on the inputs observed at the library\n"
                            "case: %s\nmodel: %s\nimpl:  %s\n" % (it["case"], om[i], want), "tie", no_input=True)
    items = [it for it in items if it is not None]
    settle(model, V, items)
    for it in items:
        liveness(V, it)
        for o in (o for st in it["steps"] for o in st[1]):
            if o.startswith("resp:"):
                run.hist("handler_calls", {"0": "CON", "1": "NON", "2": "ACK"}[o.split(":")[1]])
            elif o.startswith("nack:"):
                run.hist("handler_calls", "NACK")
    run.cov["disagreements"] = ndiff
    # ------------------------------------------------------------ the same cases with block mode on
    # COAP_BLOCK_USE_LIBCOAP (what coap-client runs with) puts lg_crcv / lg_xmit bookkeeping and an
    # RTAG option around every request; the exchange layer must behave the same: same cases, same
    # outputs as the plain run (which was compared with the model and judged above)
    if not replay_only:
        # (scripted peers that are not honest are left out: a response carrying the number of an
        # internal lg_crcv state token is mapped back to the application's token in block mode;
        # of the simulations only the client's steps and the datagram log are compared - the extra
        # lg_crcv timers make the run end later)
        sub = [c[0] for c in exc[:(5000 if quick else 100000)] if c[2]] + [c[0] for c in exe[::(5 if quick else 2)]]
        ob, crb = vlib.run_lines_robust(drv, sub, env={"C07_BLOCK_MODE": "1"}, max_restarts=6)
        base = dict(zip([c[0] for c in exc], ocx))
        base.update(dict(zip([c[0] for c in exe], oc)))

        def core(out):
            f = out.split(" || ")
            if len(f) < 4:
                return out
            lg = " ".join("/".join(e.split("/")[:4]) for e in f[2].split())   # without delivery times
            return f[0] + " || " + lg
        nb = 0
        for l, o in zip(sub, ob):
            if core(base.get(l, "")) != core(o):
                nb += 1
                if nb <= 2:
                    V.violation("with COAP_BLOCK_USE_LIBCOAP the client/server behave differently on a case of this "
                                "property: plain=%s block=%s" % (str(base.get(l))[:200], o[:200]),
                                "correspondence: block mode on vs off\ncase: %s\nplain: %s\nblock: %s\n"
                                % (l, base.get(l), o), "blockmode", no_input=True)
        run.cov["block_mode_cases"] = len(sub)
        run.cov["block_mode_differences"] = nb

    # ------------------------------------------------------------ sanitizer variant (thorough)
    if not quick and not replay_only:
        drv_asan = vlib.build_driver("h_exchange", ["h_exchange.c"], variant="asan", wraps=WRAPS)
        sub = [c[0] for c in exc[:15000]] + [c[0] for c in exe[::7][:15000]]
        oa, cra = vlib.run_lines_robust(drv_asan, sub, env={"ASAN_OPTIONS": "detect_leaks=0"})
        base = dict(zip([c[0] for c in exc], ocx))
        base.update(dict(zip([c[0] for c in exe], oc)))
        run.cov["asan_cases"] = len(sub)
        run.cov["asan_crashes"] = len(cra)
        for idx, rc, err in cra[:2]:
            V.violation("the ASan/UBSan build of the library stops on a case: rc=%d %s" % (rc, err[-300:].replace("\n", " ")),
                        "case: %s\nrc: %d\nstderr: %s\n" % (sub[idx], rc, err), "asan")
        nd = sum(1 for l, o in zip(sub, oa) if not o.startswith("CRASH") and base.get(l) != o)
        run.cov["asan_output_differences"] = nd
        if nd:
            l, o = next((l, o) for l, o in zip(sub, oa) if not o.startswith("CRASH") and base.get(l) != o)
            V.violation("the sanitizer build behaves differently from the plain build on %d cases" % nd,
                        "case: %s\nplain: %s\nasan:  %s\n" % (l, base.get(l), o), "asan", no_input=True)
    run.cov["tie_seconds"] = round(time.time() - t0, 1)

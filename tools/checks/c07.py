"""C07 - each request concludes exactly once despite loss, duplication and delay
(DESIGN.md section 6, C07; notes/C07.md)."""
import time

import vlib
import tie
import gen_exchange as G

RULE = ("a case is one schedule: (exc) a sequence of client inputs - sends, timer firings, datagrams "
        "of a scripted peer with the handler verdict - or (exe) a request list + per-datagram fate "
        "table (lose / deliver after d / duplicate) + PRNG seed run as a discrete-event simulation "
        "against a real libcoap server or a scripted RFC server; non-trivial = a request was "
        "transmitted and the client afterwards received a datagram or fired a timer; distinct = "
        "distinct case lines")

WRAPS = ["coap_ticks", "coap_socket_send", "coap_socket_recv"]

JUDGE_TEXT = {
    1: "a step has none of the shapes the protocol allows for its input",
    2: "a request token concluded twice",
    3: "the response handler was given a token that no request carried",
    4: "a request was transmitted again after its response was handled / after its NACK",
    5: "a Confirmable response was not answered by ACK (verdict OK) / RST (verdict FAIL) after the handler",
    6: "a duplicate Confirmable response was delivered again or answered differently",
    7: "a Non-confirmable response was not delivered exactly once for the datagram",
    8: "a request reused a token",
    9: "a response was withheld from the handler although it is not a duplicate",
}


def judge_all(model, traces, cmd="exj"):
    """traces: list of step lists -> list of (code, pos)"""
    lines = [cmd + " " + G.fmt_steps(t) if t else cmd for t in traces]
    out, _ = vlib.run_lines_robust(model, lines)
    res = []
    for o in out:
        try:
            f = dict(kv.split("=") for kv in o.split())
            res.append((int(f["judge"]), int(f["pos"])))
        except Exception:
            res.append((-1, -1))
    return res


class Verdicts:
    def __init__(self, run):
        self.run = run
        self.nviol = 0
        self.kf = {f["id"]: f for f in run.kf}

    def known(self, fid, detail, kind=""):
        f = self.kf.get(fid)
        if f is not None and f.get("status") == "known":
            self.run.known(f, detail)
            self.run.hist("known_finding", fid + (" in " + kind if kind else ""))
            return True
        return False

    def violation(self, what, replay, tag, no_input=False):
        self.nviol += 1
        if self.nviol <= 4:
            self.run.violation(what, replay, tag="%s%d" % (tag, self.nviol), no_input=no_input)


def step_text(steps, pos):
    if 0 <= pos < len(steps):
        return "%s > %s" % (steps[pos][0], ",".join(steps[pos][1]) or "-")
    return "?"


def settle(model, V, items):
    """items: list of dict(case, steps, parsed(optional)).  Every trace goes to the acceptor
    (Accept.ex_judge, proved sound).  When it stops at clause 2 (a token concluded twice), every
    double conclusion of the trace is classified; those that are instances of a recorded finding
    are reported as such, and the rest of the trace is judged by the same acceptor without
    clause 2.  Everything else is a violation."""
    res = judge_all(model, [it["steps"] for it in items])
    again = []
    for it, (code, pos) in zip(items, res):
        steps = it["steps"]
        if code == 0:
            continue
        if code < 0:
            V.violation("acceptor could not read the observed trace", "case: %s\ntrace: %s\n"
                        % (it["case"], G.fmt_steps(steps)), "judge", no_input=True)
            continue
        if code != 2:
            what = "%s (clause %d, step %d: %s)" % (JUDGE_TEXT.get(code, "?"), code, pos, step_text(steps, pos))
            V.violation("property fails on the implementation: " + what,
                        "case: %s\nobserved client trace: %s\nacceptor: clause %d at step %d\n%s\n"
                        % (it["case"], G.fmt_steps(steps), code, pos, what), "oracle")
            continue
        bad = None
        for p2 in G.double_conclusions(steps):
            cls, text = G.explain_redelivery(steps, p2)
            fid = {"slot": "C07-F1", "newmid": "C07-F2"}.get(cls)
            if cls == "both" and late_response(it, steps, p2):
                fid = "C07-F3"
            if fid and V.known(fid, "%s; case: %s" % (text, it["case"][:160]), it.get("kind", "")):
                it.setdefault("known", []).append(fid)
                continue
            bad = (p2, cls, text)
            break
        if bad:
            what = "%s (%s): %s" % (JUDGE_TEXT[2], bad[1], bad[2])
            V.violation("property fails on the implementation: " + what,
                        "case: %s\nobserved client trace: %s\nacceptor: clause 2 at step %d\n%s\n"
                        % (it["case"], G.fmt_steps(steps), bad[0], what), "oracle")
        else:
            again.append(it)
    if again:
        res = judge_all(model, [it["steps"] for it in again], cmd="exjl")
        for it, (code, pos) in zip(again, res):
            if code != 0:
                steps = it["steps"]
                what = "%s (clause %d, step %d: %s)" % (JUDGE_TEXT.get(code, "?"), code, pos, step_text(steps, pos))
                V.violation("property fails on the implementation: " + what,
                            "case: %s\nobserved client trace: %s\nacceptor (without clause 2): clause %d at "
                            "step %d\n%s\n" % (it["case"], G.fmt_steps(steps), code, pos, what), "oracle")


def late_response(it, steps, pos):
    """the response delivered at step pos was first transmitted after the NACK for its token"""
    p = it.get("parsed")
    if not p:
        return False
    inp = steps[pos][0]
    if not inp.startswith("R:"):
        return False
    kind, mid, tok, _ = G.rx_fields(inp)
    tnack = None
    for j in range(pos):
        for o in steps[j][1]:
            f = o.split(":")
            if f[0] == "nack" and int(f[1]) == tok:
                tnack = p["times"][j]
    if tnack is None:
        return False
    name = {"cr": "conr", "ar": "ackr", "nr": "nonr"}[kind]
    sent = [e["t"] for e in p["log"] if e["side"] == "s" and e["d"].startswith("%s:%d:" % (name, mid))]
    return bool(sent) and min(sent) > tnack


def liveness(V, it):
    """once the network is quiet every request has exactly one conclusion; the only excuse is the
    stated fairness hypothesis: the request was acknowledged by an empty ACK and then every
    transmission of the separate response was lost (a NON response is sent once)"""
    p = it["parsed"]
    if p["end"].get("end") not in ("quiet", "idle"):
        V.violation("the simulation did not become quiet: %s" % p["end"].get("end"),
                    "case: %s\n" % it["case"], "harness", no_input=True)
        return
    for rq in p["end"]["reqs"]:
        tok, mid = rq["tok"], rq["mid"]
        # conclusions that count: handler calls for piggybacked / CON responses, NACKs
        n = 0
        nnon = 0
        for inp, outs in it["steps"]:
            for o in outs:
                f = o.split(":")
                if f[0] == "resp" and int(f[3]) == tok:
                    if f[1] == "1":
                        nnon += 1
                    else:
                        n += 1
                if f[0] == "nack" and int(f[1]) == tok:
                    n += 1
        if n >= 1 or nnon >= 1:
            continue    # more than one is the acceptor's business
        resp_delivered = [e for e in p["log"] if e["side"] == "s" and e["deliv"] and
                          e["d"].split(":")[0] in ("ackr", "conr", "nonr") and int(e["d"].split(":")[2]) == tok]
        ack_delivered = [e for e in p["log"] if e["side"] == "s" and e["deliv"] and e["d"] == "ack:%d" % mid]
        if not resp_delivered and ack_delivered:
            it.setdefault("excused", []).append(tok)
            V.run.hist("liveness", "excused: empty ACK delivered, every response transmission lost")
            continue
        # a NON response whose mid equals the mid of the queued request removes it from the queue
        coll = [e for e in p["log"] if e["side"] == "s" and e["deliv"] and e["d"].startswith("nonr:%d:" % mid)]
        if coll and V.known("C07-F4", "request mid %d token %d dropped by NON response %s; case: %s"
                            % (mid, tok, coll[0]["d"], it["case"][:160])):
            continue
        V.violation("property fails on the implementation: request token %d (mid %d) never concluded "
                    "although the network became quiet (no handler call, no NACK)" % (tok, mid),
                    "case: %s\nobserved client trace: %s\nlog: %s\nend: %s\n"
                    % (it["case"], G.fmt_steps(it["steps"]),
                       " ".join("%d/%d/%s/%s/%s" % (e["i"], e["t"], e["side"], e["d"],
                                                    "+".join(map(str, e["deliv"])) or "x") for e in p["log"]),
                       p["end"]), "live")
        return
    V.run.hist("liveness", "all concluded")


def nontrivial(steps):
    sent = False
    for inp, outs in steps:
        if inp.startswith("S") and any(o.startswith("tx:req") for o in outs):
            sent = True
        elif sent and (inp.startswith("R:") or inp == "T"):
            return True
    return False


def main(run):
    run.cov["trusted_base"] = vlib.TRUSTED_COMMON + [
        "model: Exchange/Exchange.v (client side of handle_response, coap_dispatch ACK/RST/NON/CON "
        "branches, coap_retransmit counter, transcribed by hand), Exchange/System.v (abstract server "
        "and network: assumed environment), Exchange/Accept.v (acceptor, proved sound)",
        "harness/common/vnet.h scripted network + virtual clock; harness/h_exchange.c event loop and "
        "its scripted RFC 7252 server; the harness writes session->tx_mid/tx_token and reads "
        "context->sendqueue"]
    run.assumptions = [
        "one exchange outstanding per session: a send while a request is queued is skipped",
        "liveness is claimed under the fairness hypothesis: not every transmission of a separate "
        "Confirmable response is lost (a NON response is sent once and may be lost)",
        "at-most-once is proved for a server that answers a request once and for exchanges that start "
        "when no datagram of an earlier exchange is in flight; outside these the code delivers twice "
        "(known findings C07-F1, C07-F2) - see notes/C07.md",
        "16-bit message ids do not wrap within a run (fewer than 65536 messages per endpoint)",
        "retransmission timing is C06's; here only the retransmission counter is modelled"]
    run.prove()
    model = vlib.build_model()
    drv = vlib.build_driver("h_exchange", ["h_exchange.c"], wraps=WRAPS)
    V = Verdicts(run)
    r = tie.rng_for(run, "c07")
    quick = run.tier == "quick"
    t0 = time.time()

    # ------------------------------------------------------------ cases
    exc, exe = [], []        # (line, kind, honest)
    replay_only = None
    if getattr(run, "replay", None):
        # --replay <file>: run only the case named in a replay file written by this check
        for ln in open(run.replay):
            if ln.startswith("case: "):
                replay_only = ln[len("case: "):].strip()
        if replay_only is None:
            raise vlib.BuildError("no 'case:' line in " + run.replay)
        (exc if replay_only.startswith("exc") else exe).append((replay_only, "replay", True))
    for ln in ([] if replay_only else vlib.read_corpus("C07")):
        (exc if ln.startswith("exc") else exe).append((ln, "corpus", True))
    for name, ins in ([] if replay_only else G.templates()):
        exc.append((G.exc_line(ins), "template", True))
        exc.append((G.exc_line(ins, mid0=65533), "template", True))      # mid wraps inside the case
    for i in range(0 if replay_only else 6000 if quick else 120000):
        honest = r.random() < 0.6
        maxr = r.choice([4, 4, 4, 1, 2, 7])
        exc.append((G.exc_line(G.random_exc(r, honest, maxr), maxr=maxr,
                               mid0=r.choice([100, 65530, 65534, 0, 7, 999]),
                               tok0=r.choice([0, 0, 254, 65534])),
                    "random-honest" if honest else "random-arbitrary", honest))
    nfate = 6 if quick else 8
    for kind in (() if replay_only else ("real", "rfc")):
        for sty in G.STYLES:
            for fates in G.exhaustive_fates(nfate, 1500):
                exe.append((G.exe_line(kind, [(sty, 1, 0)], fates, seed=3), "exhaustive-" + kind, True))
    if not quick and not replay_only:
        for kind in ("real", "rfc"):
            for sty in (1, 3):
                for fates in G.exhaustive_fates(9, 1900):
                    exe.append((G.exe_line(kind, [(sty, 0, 0)], fates, seed=5, adelay=2500),
                                "exhaustive9-" + kind, True))
    for i in range(0 if replay_only else 5000 if quick else 150000):
        kind = r.choice(["real", "real", "rfc"])
        nreq = r.choice([1, 2, 2, 3, 4])
        reqs = [(r.choice(G.STYLES), r.choice([1, 1, 1, 0]), r.choice([0, 0, 5, 400, 1800])) for _ in range(nreq)]
        fates = G.random_fates(r, r.choice([4, 8, 12, 20]))
        exe.append((G.exe_line(kind, reqs, fates, seed=r.randrange(1, 1 << 30),
                               cmid0=r.choice([100, 65533, 41527, 41528, 41529]),
                               adelay=r.choice([1, 300, 1200, 2500, 4000]),
                               dflt=r.choice([0, 3, 40, 900]), nstart=r.choice([0, 0, 4])),
                    "random-" + kind, True))

    # ------------------------------------------------------------ exc: model and library on the same line
    lines = [c[0] for c in exc]
    om, oc, crashes = tie.run_both(model, drv, lines)
    run.cov["driver_crashes"] = len(crashes)
    items = []
    ndiff = 0
    for i, (ln, kind, honest) in enumerate(exc):
        steps = G.parse_steps(oc[i]) if " > " in oc[i] else []
        run.count(ln, nontrivial(steps))
        run.hist("case_kind", "exc-" + kind)
        if i % 700 == 3:
            run.sample({"case": ln[:200], "impl": oc[i][:300]})
        if om[i] != oc[i]:
            ndiff += 1
            if ndiff <= 3:
                V.violation("the library's client does not behave as the model on a scripted-peer case: "
                            "model=%s impl=%s" % (om[i][:200], oc[i][:200]),
                            "correspondence: Exchange.ex_cli_run vs libcoap client\ncase: %s\nmodel: %s\nimpl:  %s\n"
                            % (ln, om[i], oc[i]), "tie", no_input=True)
        if honest and steps:
            items.append({"case": ln, "steps": steps, "kind": "exc-" + kind})
    settle(model, V, items)

    # ------------------------------------------------------------ exe: whole exchanges
    lines = [c[0] for c in exe]
    oc, crashes = vlib.run_lines_robust(drv, lines)
    run.cov["driver_crashes"] += len(crashes)
    items = []
    replay = []
    for i, (ln, kind, honest) in enumerate(exe):
        p = G.parse_exe(oc[i])
        run.hist("case_kind", "exe-" + kind)
        if p is None:
            V.violation("driver gave no trace: %s" % oc[i][:200], "case: %s\noutput: %s\n" % (ln, oc[i]),
                        "harness", no_input=True)
            replay.append("exc 4 0 0")
            items.append(None)
            continue
        run.count(ln, nontrivial(p["steps"]))
        run.hist("end", p["end"].get("end"))
        run.hist("client_steps", min(len(p["steps"]) // 5 * 5, 40))
        if i % 1500 == 11:
            run.sample({"case": ln[:200], "impl": oc[i][:400]})
        f = ln.split()
        cmid0 = int(f[f.index("M") + 1])
        replay.append(G.exc_line([s[0] for s in p["steps"]], mid0=cmid0))
        items.append({"case": ln, "steps": p["steps"], "parsed": p, "kind": "exe-" + kind})
    om, _ = vlib.run_lines_robust(model, replay)
    for i, it in enumerate(items):
        if it is None:
            continue
        want = G.fmt_steps(it["steps"])
        if om[i] != want:
            ndiff += 1
            if ndiff <= 3:
                V.violation("the library's client does not behave as the model on its observed inputs: "
                            "model=%s impl=%s" % (om[i][:200], want[:200]),
                            "correspondence: Exchange.ex_cli_run replayed on the inputs observed at the library\n"
                            "case: %s\nmodel: %s\nimpl:  %s\n" % (it["case"], om[i], want), "tie", no_input=True)
    items = [it for it in items if it is not None]
    settle(model, V, items)
    for it in items:
        liveness(V, it)
        for o in (o for st in it["steps"] for o in st[1]):
            if o.startswith("resp:"):
                run.hist("handler_calls", {"0": "CON", "1": "NON", "2": "ACK"}[o.split(":")[1]])
            elif o.startswith("nack:"):
                run.hist("handler_calls", "NACK")
    run.cov["disagreements"] = ndiff
    run.cov["tie_seconds"] = round(time.time() - t0, 1)

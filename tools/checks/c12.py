"""C12 - sessions map 1:1 to peers, live while referenced; everything is released
(DESIGN.md section 6, C12)."""
import os
import subprocess

import vlib
import tie
import gen_sessions
import se_trace

RULE = ("histories of one UDP server endpoint driven by 1..50 scripted peers (requests that create "
        "queue-node / observer / async / application references, ACK/RST, app reference and "
        "release calls, session_timeout and max_idle_sessions settings, virtual-time jumps on "
        "the timeout boundaries, teardown at a random point); non-trivial = at least 2 sessions "
        "were created and at least one session was reclaimed (scan or eviction) before teardown "
        "or at least one non-temporary reference was held across a driver step; distinct = "
        "distinct case line")

WRAPS = ["coap_ticks", "coap_socket_send", "coap_socket_recv",
         "coap_malloc_type", "coap_realloc_type", "coap_free_type",
         "coap_session_reference_lkd", "coap_session_release_lkd", "coap_endpoint_get_session",
         "coap_socket_read", "coap_socket_write"]

K_TEARDOWN_REF = "F-C12-2"


def evaluate(model, drv, lines, env=None):
    """run histories through the C driver, derive the model run, compare, apply the oracles.
    -> list of dicts (one per history)"""
    outs, crashes = vlib.run_lines_robust(drv, lines, env=env)
    crashed = {i: (rc, err) for i, rc, err in crashes}
    res = []
    mlines, alines, llines = [], [], []
    for i, (ln, o) in enumerate(zip(lines, outs)):
        f = ln.split()
        r = {"line": ln, "out": o, "bad": [], "facts": {}, "expect": None, "crash": None}
        if i in crashed or o.startswith("CRASH") or o == "<not run>":
            r["crash"] = "%s %s" % (o, crashed.get(i, ("", ""))[1][-600:])
            mlines.append("se 0 0")
            alines.append("attrace -")
            llines.append("selog")
            res.append(r)
            continue
        pr = se_trace.split_result(o)
        if pr is None:
            r["crash"] = "unparsable driver output: " + o[:200]
            mlines.append("se 0 0")
            alines.append("attrace -")
            llines.append("selog")
            res.append(r)
            continue
        toks, alloc, stats = pr
        r["stats"] = stats
        r["trace"] = toks
        if f[0] == "sc":
            ml, expw = se_trace.c_translate(toks)
            r["client"] = True
            r["expect_windows"] = expw
            r["expect"] = [t for w in expw for t in w]
            r["model_line"] = ml
            r["bad"], r["facts"] = se_trace.c_oracles(toks, stats)
            mlines.append(ml)
            alines.append("attrace " + " ".join(alloc))
            llines.append("selog")
            res.append(r)
            continue
        if f[0] == "st":
            timeout, maxidle = int(f[2]), 0
        else:
            timeout, maxidle = int(f[2]), int(f[3])
        ml, exp, _ = se_trace.translate(toks, timeout, maxidle)
        r["expect"] = exp
        r["model_line"] = ml
        r["bad"], r["facts"] = se_trace.oracles(toks, timeout, maxidle, stats)
        mlines.append(ml)
        alines.append("attrace " + " ".join(alloc))
        llines.append("selog " + " ".join(se_trace.event_log_tokens(toks)))
        res.append(r)
    mo, _ = vlib.run_lines_robust(model, mlines)
    ao, _ = vlib.run_lines_robust(model, alines)
    lo, _ = vlib.run_lines_robust(model, llines)
    for r, m, a, l in zip(res, mo, ao, lo):
        if r["crash"]:
            continue
        r["model_out"] = m
        r["alloc"] = a
        parts = m.split(" | ")
        if r.get("client"):
            modw = se_trace.c_split_model(parts[0])
            expw = r["expect_windows"]
            # releases inside coap_free_context are compared as a set
            mt = []
            for i, w in enumerate(modw):
                if i < len(expw) and expw[i] == sorted(expw[i]) and any(t.startswith("CF:") for t in w) \
                        and sorted(w) == expw[i]:
                    w = sorted(w)
                mt.extend(w)
            r["tie_diff"] = se_trace.first_diff(r["expect"], mt)
            r["model_tokens"] = mt
            r["model_tail"] = parts[1] if len(parts) > 1 else ""
            r["mon_ok"] = r["mon_closed"] = True
            fa = r["facts"]
            if fa.get("extra_app_refs_at_free", 0) == 0:
                if a != "clean":
                    r["bad"].append(("alloc", "allocation trace verdict: " + a[:120] + " live types "
                                     + r["stats"].get("types", "?")))
                r["known"] = None
            else:
                r["known"] = K_TEARDOWN_REF
                fa["leaked_sessions"] = fa.get("left")
                if not a.startswith("leak") and a != "clean":
                    r["bad"].append(("alloc", "allocation trace verdict: " + a[:120]))
            continue
        mt = parts[0].split()
        r["tie_diff"] = se_trace.first_diff(r["expect"], mt)
        r["model_tokens"] = mt
        tail = parts[1] if len(parts) > 1 else ""
        r["model_tail"] = tail
        # verified event-log monitor on the implementation's log
        lf = l.split()
        r["mon_ok"] = len(lf) == 2 and lf[0] == "1"
        r["mon_closed"] = len(lf) == 2 and lf[1] == "1"
        if not r["mon_ok"]:
            r["bad"].append(("monitor", "the event log is rejected by the verified monitor se_log_ok "
                             "(NEW/DEL/free bracketing, one session per peer, datagram handled by "
                             "the live session of its peer)"))
        fa = r["facts"]
        if fa.get("app_outstanding_at_free", 0) == 0:
            if not r["mon_closed"]:
                r["bad"].append(("not-closed", "after coap_free_context some session has no "
                                 "SESSION_DEL + release"))
            if a != "clean":
                r["bad"].append(("alloc", "allocation trace verdict: " + a[:120] + " live types "
                                 + r["stats"].get("types", "?")))
            r["known"] = None
        else:
            # coap_free_context while the application holds references: known finding
            r["known"] = K_TEARDOWN_REF
            if not a.startswith("leak"):
                if a != "clean":
                    r["bad"].append(("alloc", "allocation trace verdict: " + a[:120]))
    return res


def describe(r):
    if r["crash"]:
        return "driver crashed / was killed: " + r["crash"][:300]
    return "; ".join(m for _, m in r["bad"][:3])


def replay_text(r, shrunk=None):
    t = "case (stdin of .build/obj/<variant>/h_sessions):\n%s\n" % (shrunk or r["line"])
    if shrunk:
        t += "\noriginal case:\n%s\n" % r["line"]
    if r["crash"]:
        t += "\ncrash: %s\n" % r["crash"]
    for tag, m in r["bad"][:10]:
        t += "\noracle %s: %s" % (tag, m)
    if r.get("tie_diff", -1) >= 0:
        d = r["tie_diff"]
        t += ("\n\ncorrespondence: implementation and model (Sessions.se_step) differ at token %d\n"
              " implementation: %s\n model:          %s\n model input: %s\n"
              % (d, " ".join(r["expect"][max(0, d - 5):d + 4]),
                 " ".join(r["model_tokens"][max(0, d - 5):d + 4]), r.get("model_line", "")[:4000]))
    return t + "\n"


def shrink(model, drv, r, env=None):
    """delta-debug the op list while the same kind of failure persists"""
    f = r["line"].split()
    npre = {"sc": 2, "st": 3}.get(f[0], 4)
    prefix, ops = f[:npre], f[npre:]
    tags = set(t for t, _ in r["bad"])
    crash = bool(r["crash"])
    tied = r.get("tie_diff", -1) >= 0

    def still(_p, cand):
        rr = evaluate(model, drv, [" ".join(prefix + cand)], env=env)[0]
        if crash:
            return bool(rr["crash"])
        if rr["crash"]:
            return False
        if tags:
            return bool(tags & set(t for t, _ in rr["bad"]))
        return tied and rr.get("tie_diff", -1) >= 0

    if len(ops) > 400:
        return None
    small = tie.shrink_ops(prefix, ops, still, max_steps=250)
    return " ".join(prefix + small)


def asan_run(run, drv_asan, lines):
    """ASan/LSan variant: use-after-free, double free and leak verdict of the sanitizer itself.
    Returns the number of histories run."""
    env = dict(os.environ)
    env["ASAN_OPTIONS"] = "detect_leaks=1:abort_on_error=0:exitcode=23:allocator_may_return_null=1"
    env["UBSAN_OPTIONS"] = "halt_on_error=1:exitcode=24"

    def run_batch(batch):
        data = ("\n".join(batch) + "\n").encode()
        p = subprocess.run([drv_asan], input=data, stdout=subprocess.PIPE, stderr=subprocess.PIPE,
                           env=env, timeout=1200)
        out = p.stdout.decode("latin-1").split("\n")
        return p.returncode, [o for o in out if o], p.stderr.decode("latin-1")

    rc, out, err = run_batch(lines)
    if rc == 0:
        return len(lines)
    if len(out) < len(lines):
        bad = lines[len(out)]      # the history during which the sanitizer stopped the process
        run.violation("sanitizer (asan variant) stopped the driver: " +
                      (err.strip().splitlines()[0] if err.strip() else "rc=%d" % rc)[:200],
                      "case (stdin of .build/obj/asan/h_sessions):\n%s\n\n%s\n" % (bad, err[-6000:]),
                      tag="asan")
        return len(out)
    # all histories ran, the leak check at exit complained: bisect
    lo = list(lines)
    while len(lo) > 1:
        half = lo[:len(lo) // 2]
        rc1, _, _ = run_batch(half)
        lo = half if rc1 != 0 else lo[len(lo) // 2:]
    rc1, _, err1 = run_batch(lo)
    run.violation("LeakSanitizer (asan variant): memory still allocated at exit",
                  "case (stdin of .build/obj/asan/h_sessions):\n%s\n\n%s\n" % (lo[0], (err1 or err)[-6000:]),
                  tag="lsan")
    return len(lines)


def sweep_lines(tier):
    """exhaustive small-scope histories: every sequence up to a length over a small alphabet
    (two peers, session_timeout 1 s, with and without an idle limit of 1)"""
    import itertools
    alpha = ["rx:0:g", "rx:1:g", "rx:0:s", "rx:0:h", "rx:1:o", "rel:0", "ack:0", "adv:999",
             "adv:1", "prep", "notify:0"]
    maxlen = 3 if tier == "quick" else 5
    for maxidle in (0, 1):
        for n in range(1, maxlen + 1):
            for ops in itertools.product(alpha, repeat=n):
                # skip sequences that start with an op that cannot do anything yet
                if ops[0] in ("rel:0", "ack:0", "notify:0"):
                    continue
                yield "se 3 1 %d %s" % (maxidle, " ".join(ops))


class Sink:
    """turns per-history results into counts, samples and violations"""

    def __init__(self, run, model, drv):
        self.run, self.model, self.drv = run, model, drv
        self.nviol = 0
        self.reported = set()
        self.tie_bad = 0

    def feed(self, results, metas):
        run = self.run
        for res, m in zip(results, metas):
            fa = res["facts"]
            held = any(t.startswith("W[") and t != "W[]" for t in res.get("trace", []))
            if res.get("client"):
                nontriv = fa.get("sessions", 0) >= 1 and fa.get("lib_refs", 0) > 0 and \
                    fa.get("freed_on_release", 0) + fa.get("freed_at_teardown", 0) > 0
                tot = run.cov.setdefault("client_totals", {})
                for k in ("sessions", "freed_on_release", "freed_at_teardown", "lib_refs"):
                    tot[k] = tot.get(k, 0) + fa.get(k, 0)
                if m.get("kind") == "client":
                    run.hist("client_slots", m["slots"])
            elif res["line"].startswith("st "):
                nontriv = fa.get("sessions", 0) >= 1 and fa.get("scan_frees", 0) > 0 and held
                tot = run.cov.setdefault("stream_totals", {})
                for k in ("sessions", "scan_frees", "teardown_frees", "app_refs", "lib_refs"):
                    tot[k] = tot.get(k, 0) + fa.get(k, 0)
                if m.get("kind") == "stream":
                    run.hist("stream_conns", m["conns"])
            else:
                nontriv = (fa.get("sessions", 0) >= 2 and
                           (fa.get("scan_frees", 0) + fa.get("evictions", 0) > 0 or held))
            run.count(res["line"], nontriv)
            run.hist("kind", m.get("kind"))
            if m.get("kind") == "generated":
                run.hist("peers", m["npeers"])
                run.hist("session_timeout", m["timeout"])
                run.hist("max_idle_sessions", m["maxidle"])
                run.hist("focus", m["focus"])
                run.hist("teardown", "explicit" if m["explicit_free"] else "at end")
            if not res.get("client") and not res["line"].startswith("st "):
                tot = run.cov.setdefault("totals", {})
                for k in ("scan_frees", "evictions", "teardown_frees", "sessions", "lib_refs", "app_refs"):
                    tot[k] = tot.get(k, 0) + fa.get(k, 0)
            if res.get("known") and not res["crash"]:
                f = run.match_known(lambda k: k.get("id") == K_TEARDOWN_REF)
                if f:
                    if f["id"] not in run.known_hits:
                        run.known(f, "e.g. sessions %s of: %s" % (fa.get("leaked_sessions"),
                                                                  res["line"][:160]))
                else:
                    res["bad"].append(("teardown-ref", "coap_free_context with an application "
                                       "reference outstanding leaves sessions %s allocated"
                                       % fa.get("leaked_sessions")))
            failing = res["crash"] or res["bad"]
            tied = (not res["crash"]) and res.get("tie_diff", -1) >= 0
            if tied:
                self.tie_bad += 1
            if not failing and not tied:
                if nontriv and m.get("kind") in ("generated", "boundary") and \
                        len(run.cov["samples"]) < 4:
                    run.sample({"case": res["line"][:300], "events": " ".join(
                        se_trace.event_log_tokens(res["trace"]))[:300],
                        "alloc_verdict": res["alloc"]})
                elif nontriv and m.get("kind") == "client" and len(run.cov["samples"]) < 6:
                    run.sample({"case": res["line"][:300], "events": " ".join(res["expect"])[:300],
                                "alloc_verdict": res["alloc"]})
                continue
            key = "crash" if res["crash"] else (res["bad"][0][0] if res["bad"] else "tie")
            if key in self.reported or self.nviol >= 4:
                continue
            self.reported.add(key)
            self.nviol += 1
            small = None
            try:
                small = shrink(self.model, self.drv, res)
            except Exception:
                small = None
            rr = res
            if small and small != res["line"]:
                r2 = evaluate(self.model, self.drv, [small])[0]
                if r2["crash"] or r2["bad"] or r2.get("tie_diff", -1) >= 0:
                    rr = r2
            if failing:
                run.violation("C12 violated on the implementation: " + describe(rr),
                              replay_text(rr, None if rr is res else small), tag=key)
            else:
                run.violation("correspondence %s vs libcoap broken (theorems %s no longer describe "
                              "the code): first difference at token %d"
                              % (("Client.sec_step", "C12_client_*") if rr.get("client") else
                                 ("Sessions.se_step", "C12_functional_injective / C12_reclaim_rule"))
                              + (rr["tie_diff"],),
                              replay_text(rr, None if rr is res else small), tag="tie",
                              no_input=True)


def main(run):
    run.cov["trusted_base"] = vlib.TRUSTED_COMMON + [
        "model: coq/Sessions/Sessions.v transcribed by hand from coap_endpoint_get_session, "
        "coap_session_reference/release/free, the idle scan of coap_io_prepare_io_lkd and "
        "coap_free_endpoint_lkd (UDP endpoint); coq/Mem/AllocTrace.v (trace checker)",
        "tools/se_trace.py: derives the model's inputs (arrivals, reference events, sends, scans) "
        "from the implementation trace and the reference monitor of the oracles",
        "harness/common/valloc.h: pointer -> serial-number bookkeeping of the allocation log",
    ]
    run.assumptions = [
        "one endpoint per context (UDP, or CoAP over TCP on a unix-domain stream socket); DTLS "
        "HELLO/handshake sessions are not driven",
        "'nothing is used after release' is observed (poisoned quarantine in the base variant, "
        "AddressSanitizer in the asan variant) on the explored histories, not proved",
        "allocations made with plain malloc (uthash tables, GnuTLS) are only seen by LeakSanitizer",
    ]
    run.prove()
    model = vlib.build_model()
    drv = vlib.build_driver("h_sessions", ["h_sessions.c"], wraps=WRAPS)
    r = tie.rng_for(run, "c12")
    n = 1500 if run.tier == "quick" else 40000
    corpus = vlib.read_corpus("C12")
    run.cov["corpus_cases"] = len(corpus)
    sink = Sink(run, model, drv)

    def stream():
        for ln in corpus:
            yield ln, {"kind": "corpus"}
        for ln in gen_sessions.boundary_cases():
            yield ln, {"kind": "boundary"}
        for i in range(n):
            ln, m = gen_sessions.gen_history(r, stale_etag=(i % 5 == 0))
            m["kind"] = "generated"
            yield ln, m
        for ln in sweep_lines(run.tier):
            yield ln, {"kind": "sweep"}
        for ln in gen_sessions.stream_boundary_cases():
            yield ln, {"kind": "stream-boundary"}
        rs = tie.rng_for(run, "c12-stream")
        for i in range(400 if run.tier == "quick" else 10000):
            ln, m = gen_sessions.gen_stream_history(rs)
            m["kind"] = "stream"
            yield ln, m
        for ln in gen_sessions.client_boundary_cases():
            yield ln, {"kind": "client-boundary"}
        rc = tie.rng_for(run, "c12-client")
        for i in range(400 if run.tier == "quick" else 12000):
            ln, m = gen_sessions.gen_client_history(rc)
            m["kind"] = "client"
            yield ln, m

    chunk_l, chunk_m = [], []
    nsweep = 0
    for ln, m in stream():
        chunk_l.append(ln)
        chunk_m.append(m)
        nsweep += m["kind"] == "sweep"
        if len(chunk_l) >= 4000:
            sink.feed(evaluate(model, drv, chunk_l), chunk_m)
            chunk_l, chunk_m = [], []
    if chunk_l:
        sink.feed(evaluate(model, drv, chunk_l), chunk_m)
    run.cov["tie_disagreements"] = sink.tie_bad
    run.cov["exhaustive_sweep"] = {"histories": nsweep, "alphabet": 11,
                                   "max_length": 3 if run.tier == "quick" else 5,
                                   "configs": "session_timeout 1 s, max_idle_sessions 0 and 1"}

    # sanitizer variant: thorough tier (all of it) and a reduced set in the quick tier
    nas = 250 if run.tier == "quick" else 6000
    as_lines = list(corpus) + gen_sessions.boundary_cases()
    ra = tie.rng_for(run, "c12-asan")
    as_lines += gen_sessions.client_boundary_cases() + gen_sessions.stream_boundary_cases()
    while len(as_lines) < nas:
        if len(as_lines) % 5 == 4:
            ln, m = gen_sessions.gen_client_history(ra)
        elif len(as_lines) % 5 == 3:
            ln, m = gen_sessions.gen_stream_history(ra)
        else:
            ln, m = gen_sessions.gen_history(ra, stale_etag=True)
        if m["explicit_free"] and "relall free" not in ln:
            continue      # the known teardown-with-reference leak would only trip LeakSanitizer
        as_lines.append(ln)
    try:
        drv_asan = vlib.build_driver("h_sessions", ["h_sessions.c"], variant="asan", wraps=WRAPS)
    except vlib.BuildError as e:
        run.violation("asan variant does not build: " + str(e)[:200], str(e), tag="asan-build",
                      no_input=True)
        drv_asan = None
    if drv_asan:
        run.cov["asan_histories"] = asan_run(run, drv_asan, as_lines)

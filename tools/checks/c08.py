"""C08 - NSTART bounds in-flight Confirmables; held messages go out in order, none lost
(DESIGN.md section 6, C08).

tie    : every case (corpus first, then seeded bursts) is run through the extracted Coq model
         (coq/Nstart/Nstart.v, ns_cstep) and through the real library (harness/h_nstart.c on the
         scripted network); the per-op observations (coap_send result, datagrams, nack calls)
         must be equal.
oracle : the extracted, proved-sound history checker ns_accepts (the boolean form of the
         property: in-flight CONs computed from the trace <= NSTART, FIFO-once, NON not delayed,
         nothing waits without a reason, one NACK per held CON on failure) is run on the
         implementation's own trace, also for natural-time histories (clock advanced, the
         library's own timer loop decides what fires) which the model does not predict.
"""
import json
import re
import vlib
import tie
import gen_nstart

RULE = ("histories = 1..20 CON/NON submissions on 1..3 datagram sessions (NSTART 1..4, "
        "max_retransmit 1..4, established or handshake pending) interleaved with scripted ACK / RST "
        "(in flight, NON, finished, held, unknown ids), timer firings, token cancellations, connect, "
        "disconnect; a history is non-trivial when at least one accepted message was held back (not "
        "transmitted inside its own coap_send) and at least one held message was transmitted later or "
        "NACKed; distinct = distinct case lines")

WRAPS = ["coap_ticks", "coap_socket_send", "coap_socket_recv", "coap_netif_dgrm_write"]


def run_cases(exe, lines, chunk=250, t_chunk=15, t_one=2):
    """Run case lines through a driver in chunks; a chunk that crashes or does not come back in
    time is re-run line by line, so that the culprit gets 'CRASH rc=..' / 'HANG' and everything
    else still gets its result (vlib.run_lines_robust waits 900 s on a hang)."""
    import subprocess
    outs = []
    bad = 0

    def one(batch, timeout):
        try:
            p = subprocess.run([exe], input=("\n".join(batch) + "\n").encode(),
                               stdout=subprocess.PIPE, stderr=subprocess.PIPE, timeout=timeout)
        except subprocess.TimeoutExpired:
            return None, "HANG"
        o = p.stdout.decode("latin-1").split("\n")
        if o and o[-1] == "":
            o = o[:-1]
        if p.returncode != 0 or len(o) != len(batch):
            return None, "CRASH rc=%d" % p.returncode
        return o, ""

    for k in range(0, len(lines), chunk):
        batch = lines[k:k + chunk]
        o, why = one(batch, t_chunk)
        if o is not None:
            outs.extend(o)
            continue
        for ln in batch:
            if bad > 8:
                outs.append("<not run>")
                continue
            o1, why1 = one([ln], t_one)
            if o1 is None:
                bad += 1
                outs.append(why1)
            else:
                outs.append(o1[0])
    return outs, bad


def groups(out):
    """'0:A,Tc1.2 1:' -> list of item lists"""
    res = []
    for g in out.split(" "):
        if ":" not in g:
            return None
        i, _, items = g.partition(":")
        res.append([x for x in items.split(",") if x])
    return res


def canon(out, ops, strict=False):
    """What the property can observe of an event, in canonical form.
    - inside one library call the order between datagrams and nack callbacks is not observable
      by the property (give-up: next message first, then the NACK): result marker, datagrams in
      order, callbacks in order;
    - nack callbacks that matter to the property: NACK TOO_MANY_RETRIES (a message stops being in
      flight) and, at a disconnect, the NACKs of messages that were never on the wire (the held
      CONs), in order.  Everything else - RST callbacks, which in-flight messages a disconnect
      reports, in which order and how often, the "could not determine the request" fallback -
      belongs to C06/C07 and changes with their repairs (/repo 62d0bc3 did): it is compared only
      with strict=True, whose differences are counted in the evidence and never raised."""
    gs = groups(out)
    if gs is None or len(gs) != len(ops):
        return out
    seen = {}
    subty = {}
    res = []
    for op, items in zip(ops, gs):
        sid = re.match(r"[A-Z](\d+)", op)
        sid = sid.group(1) if sid else "-"
        if op == "E" or op[0] in "KH":
            res.append("")
            continue
        items = [x for x in items if x != "Wm"]   # the delayed multicast response itself
        if op[0] == "N":
            items = sorted(items)                  # one notification per observing session, any order
        if op[0] == "S":
            f = op.split(",")
            subty.setdefault((sid, f[2]), f[1])    # (a repeated id is refused while the first waits)
        elif op[0] == "H":
            subty[(sid, op.split(",")[2])] = "c"
        if op[0] == "F":
            keep, infl = [], set()
            icmp = op.endswith(",4")
            for it in items:
                if it[0] == "N" and it.endswith(".1") and (sid, it.split(".")[1]) in seen:
                    infl.add("N4.*.1" if it.startswith("N4.") else it)
                elif it[0] == "N" and it.endswith(".0") and not strict:
                    pass
                elif it[0] == "N" and not strict and \
                        (icmp or subty.get((sid, it.split(".")[1]), "c") == "n"):
                    # the "could not determine the request" fallback naming a request that is still
                    # held (block mode: lg_crcv entry made in coap_send): not a failure report of
                    # a held CON (an ICMP error fails nothing; a NON is not a CON)
                    pass
                else:
                    keep.append(it)
            items = keep + (sorted(infl) if strict else [])
        elif not strict:
            items = [x for x in items if x[0] != "N" or x.startswith("N0.")]
        else:
            # a Reset that answers the library's own ping (ids 50001..) is the "pong": the pong
            # handler is called instead of the nack handler
            items = [x for x in items if not re.match(r"N2\.5\d{4}\.1$", x)]
        for it in items:
            if it[0] in "TE" and it[1] in "cn":
                seen[(sid, it[2:].split(".")[0])] = 1
        items = [x for x in items if x[0] in "AXax("] + [x for x in items if x[0] in "TWE"] + \
                [x for x in items if x[0] not in "AXax(TWE"]
        res.append(",".join(items))
    return " ".join("%d:%s" % (i, x) for i, x in enumerate(res))


def mon_line(prefix, ops, out):
    """the implementation's trace as input of the history checker; None if it cannot be parsed"""
    gs = groups(out)
    if gs is None or len(gs) != len(ops):
        return None
    nsess = int(prefix[2])
    # histories with failing socket writes are judged by the bound-only checker
    toks = ["nsbound" if "E" in ops else "nsmon", prefix[2]] + list(prefix[3:3 + nsess])
    seen_ping = set()
    for op, items in zip(ops, gs):
        if op == "E" or op[0] in "KHON":
            toks += [op, "-"]
            continue
        if op[0] == "W":
            # natural time: one pseudo timer event per session that showed activity
            per = {}
            for it in items:
                m = re.match(r"(.*)@(\d+)$", it)
                if not m:
                    return None
                per.setdefault(m.group(2), []).append(m.group(1))
            for sid in sorted(per):
                if any(x[0] == "W" for x in per[sid]):
                    return None
                # the library's own ping (empty CON, token 0) sent in this step, if it is new
                pings = [x for x in per[sid] if re.match(r"Tc\d+\.0$", x) and (sid, x) not in seen_ping]
                rest_ = [x for x in per[sid] if x not in pings]
                if rest_:
                    toks += ["T%s,0" % sid, ",".join(rest_)]
                for x in pings:
                    seen_ping.add((sid, x))
                    toks += ["G%s" % sid, x]
            continue
        items = [it for it in items if not re.match(r"Wo(@\d+)?$", it)]
        if any(("@" in it) or (it[0] == "W" and it != "Wm") for it in items):
            return None
        toks += [op, ",".join(items) if items else "-"]
    return " ".join(toks)


def resolve_natural(ops, out):
    """A natural-time history (W<ms> = advance the clock, the library's own timer loop fires what
    is due) as a forced-timer history: which timers fired is read off the implementation's trace
    (a datagram with an id that was on the wire before = that node's timer, retransmission; a NACK
    TOO_MANY_RETRIES = that node's timer, give-up), in order of appearance.  What one W produced
    for one session is compared as one group (the new datagrams are the held messages released by
    the give-ups; which give-up released which, and whether its NACK comes before or after them,
    is not observable by the property).
    -> (ops', groups) with groups = [(indices into ops', pseudo op, expected items)]"""
    gs = groups(out)
    if gs is None or len(gs) != len(ops):
        return None
    seen = set()
    rops, grp = [], []
    for op, items in zip(ops, gs):
        if op[0] != "W":
            own = re.match(r"[A-Z](\d+)", op)
            sid = own.group(1) if own and op[0] != "K" else "-"
            for it in items:
                if it[0] == "T" and it[1] in "cn":
                    seen.add((sid, it[2:].split(".")[0]))
            grp.append(([len(rops)], op, items))
            rops.append(op)
            continue
        per = {}
        order = []
        for it in items:
            m = re.match(r"(.*)@(\d+)$", it)
            if not m:
                return None
            body, sid = m.group(1), m.group(2)
            if sid not in per:
                per[sid] = ([], [])
                order.append(sid)
            idxs, exp = per[sid]
            exp.append(body)
            if body[0] == "T" and body[1] in "cn":
                mid = body[2:].split(".")[0]
                if (sid, mid) in seen:
                    idxs.append(len(rops))
                    rops.append("T%s,%s" % (sid, mid))
                else:
                    seen.add((sid, mid))
                    if body.endswith(".0") and body[1] == "c":
                        # an empty CON nobody submitted: the library's keepalive ping
                        idxs.append(len(rops))
                        rops.append("G%s" % sid)
            elif body.startswith("N0."):
                idxs.append(len(rops))
                rops.append("T%s,%s" % (sid, body.split(".")[1]))
        for sid in order:
            grp.append((per[sid][0], "T%s,0" % sid, per[sid][1]))
    return rops, grp


def notify_oracle(ops, out):
    """'Non-confirmable messages are not delayed by the NSTART limit', for the NON notifications the
    library sends by itself: once the peer's registration on a server-side session was answered
    (O -> Wo), every change of the resource (N) puts one NON notification of that session on the
    wire at once, whatever is in flight, until a disconnect ends the observation.
    -> None, or 'bad sid=.. op=..' """
    gs = groups(out)
    if gs is None or len(gs) != len(ops):
        return None
    observed = set()
    for i, (op, items) in enumerate(zip(ops, gs)):
        m = re.match(r"[A-Z](\d+)", op)
        sid = m.group(1) if m else "-"
        if op[0] == "O":
            if "Wo" in items:
                observed.add(sid)
            else:
                observed.discard(sid)
        elif op[0] == "F" and not op.endswith(",4"):
            observed.discard(sid)
        elif op[0] == "N" and observed:
            got = set(sid if it == "Wo" else it[3:] for it in items if it.startswith("Wo"))
            if not observed <= got:
                return "bad sid=%s op=%d (NON notification held back)" % (sorted(observed - got)[0], i)
    return None


def peer_ok(ops, out, verdict=None):
    """the peer of the property: ACK / RST only for message ids that were on the wire before.
    With a checker verdict "bad sid=.. op=N": only the history up to the rejected event counts."""
    gs = groups(out)
    if gs is None or len(gs) != len(ops):
        return True
    upto = len(ops)
    if verdict:
        ks = [int(x) for x in re.findall(r"op=(\d+)", verdict)]
        if ks:
            upto = min(ks) + 1
    seen = set()
    for op, items in list(zip(ops, gs))[:upto]:
        if op[0] in "AR" or (op[0] == "B" and not op.endswith(",4")):
            sid, mid = op[1:].split(",")[:2]
            if (sid, mid) not in seen:
                return False
        for it in items:
            if it[0] == "T":
                m = re.match(r"T[cn](\d+)\.\d+(?:@(\d+))?$", it)
                if m:
                    own = re.match(r"[A-Z](\d+)", op)
                    seen.add((m.group(2) or (own.group(1) if own else "-"), m.group(1)))
    return True


def nontrivial(ops, out):
    gs = groups(out)
    if gs is None or len(gs) != len(ops):
        return False
    held = set()
    later = False
    for op, items in zip(ops, gs):
        if op[0] == "S" and items == ["A"]:
            held.add(op.split(",")[2])
        elif op[0] != "S":
            for it in items:
                if it[0] in "TN" and re.split(r"[.]", it[1:].lstrip("cn"))[0 if it[0] == "T" else 1] in held:
                    later = True
    return bool(held) and later


def main(run):
    run.cov["trusted_base"] = vlib.TRUSTED_COMMON + [
        "model: coq/Nstart/Nstart.v (hand transcription of coap_send_pdu, coap_session_delay_pdu, "
        "coap_session_connected, the ACK/RST branches of coap_dispatch, coap_retransmit, "
        "coap_cancel_all_messages, coap_session_disconnected_lkd; time abstracted to 'timer of node "
        "x fires')",
        "driver: harness/h_nstart.c fires a chosen node's timer by coap_remove_from_queue + "
        "coap_retransmit (what coap_io_prepare_io does for a due node) and simulates a pending "
        "handshake by setting session->state on a UDP client session",
    ]
    run.assumptions = [
        "socket writes succeed (no ENOBUFS / partial write)",
        "message ids and tokens of one session's submissions are distinct (coap_new_message_id / "
        "coap_session_new_token provide that); a duplicate of a *held* id is exercised (refusal)",
        "0 <= NSTART <= 255 (con_active is a uint8_t); tie run with NSTART 1..4",
        "datagram sessions (UDP/DTLS accounting); reliable transports never count CONs",
        "allocation never fails (C18)",
    ]
    run.prove()
    model = vlib.build_model()
    drv = vlib.build_driver("h_nstart", ["h_nstart.c"], wraps=WRAPS)
    quick = run.tier == "quick"
    r = tie.rng_for(run, "c08")
    n_forced = 8000 if quick else 120000
    n_natural = 1500 if quick else 25000
    n_errs = 1500 if quick else 25000
    cases = []           # (prefix, ops, meta)
    corpus = vlib.read_corpus("C08")
    if getattr(run, "replay", None):
        # --replay <file>: only the case(s) written in a replay file ("case: ns ..." lines)
        corpus = [l[6:].strip() for l in open(run.replay) if l.startswith("case: ns ")]
        n_forced = n_natural = n_errs = 0
    for ln in corpus:
        t = ln.split()
        ns = int(t[2])
        ops = t[3 + ns:]
        cases.append((t[:3 + ns], ops, {"in_scope": True, "nsess": ns, "corpus": True,
                                        "natural": any(o[0] == "W" for o in ops)}))
    for i in range(n_forced):
        cases.append(gen_nstart.gen_case(r, big=(i % 7 == 0)))
    for i in range(n_natural):
        cases.append(gen_nstart.gen_case(r, natural=True))
    for i in range(n_errs):
        cases.append(gen_nstart.gen_case(r, errs=True))
    for i in range(n_errs // 3):
        cases.append(gen_nstart.gen_prefail(r))
    lines = [gen_nstart.line_of(p, o) for p, o, _ in cases]

    forced_idx = [i for i, c in enumerate(cases) if not c[2].get("natural")]
    om, crm = vlib.run_lines_robust(model, [lines[i] for i in forced_idx])
    oc, ncrash = run_cases(drv, lines)
    run.cov["driver_crashes"] = ncrash
    model_out = dict(zip(forced_idx, om))

    # oracle on the implementation's own traces
    mon_in, mon_idx = [], []
    for i, (p, o, meta) in enumerate(cases):
        ml = mon_line(p, o, oc[i])
        if ml is not None:
            mon_in.append(ml)
            mon_idx.append(i)
    mon_out, _ = vlib.run_lines_robust(model, mon_in)
    verdict = dict(zip(mon_idx, mon_out))

    # natural-time histories: replay in the model with the timer firings the implementation chose
    nat_idx = [i for i, c in enumerate(cases) if c[2].get("natural")]
    nat_res = {}
    nat_lines = []
    for i in nat_idx:
        rr = resolve_natural(cases[i][1], oc[i])
        nat_res[i] = rr
        nat_lines.append(gen_nstart.line_of(cases[i][0], rr[0]) if rr else "ns 1 1 1,1,1,1")
    nat_out, _ = vlib.run_lines_robust(model, nat_lines)
    nat_model = dict(zip(nat_idx, nat_out))
    run.cov["natural_time_replayed_in_model"] = sum(1 for i in nat_idx if nat_res[i])
    run.cov["natural_time_timer_firings"] = sum(len(nat_res[i][0]) - sum(1 for o in cases[i][1] if o[0] != "W")
                                                for i in nat_idx if nat_res[i])

    def nat_agrees(i_or_none, prefix, ops, cout, mout=None):
        rr = resolve_natural(ops, cout)
        if rr is None:
            return False, "timer firings of the implementation cannot be explained"
        rops, grp = rr
        if mout is None:
            mo, _ = vlib.run_lines_robust(model, [gen_nstart.line_of(prefix, rops)])
            mout = mo[0]
        mg = groups(mout)
        if mg is None or len(mg) != len(rops):
            return False, "model on resolved history: %s" % mout
        pseudo = [g[1] for g in grp]
        exp = " ".join("%d:%s" % (k, ",".join(g[2])) for k, g in enumerate(grp))
        got = " ".join("%d:%s" % (k, ",".join(x for j in g[0] for x in mg[j])) for k, g in enumerate(grp))
        return canon(got, pseudo) == canon(exp, pseudo), "model on resolved history: %s" % mout

    def check_one(prefix, ops):
        """-> (kind, detail) for a single case; kind in ok / oracle / tie / crash"""
        ln = gen_nstart.line_of(prefix, ops)
        c, _ = run_cases(drv, [ln])
        if c[0].startswith("CRASH") or c[0].startswith("ERROR") or c[0] == "HANG":
            return "crash", c[0]
        ml = mon_line(prefix, ops, c[0])
        if ml is None:
            return "tie", "unexpected output " + c[0]
        v, _ = vlib.run_lines_robust(model, [ml])
        if v[0] != "ok" and peer_ok(ops, c[0], v[0]):
            return "oracle", v[0]
        nv = notify_oracle(ops, c[0])
        if nv:
            return "oracle", nv
        if not any(o[0] == "W" for o in ops):
            m, _ = vlib.run_lines_robust(model, [ln])
            if canon(m[0], ops) != canon(c[0], ops):
                return "tie", "model: %s" % m[0]
        elif "E" not in ops:
            ok, detail = nat_agrees(None, prefix, ops, c[0])
            if not ok:
                return "tie", detail
        return "ok", ""

    nbad = 0
    nstrict = 0
    reported = set()
    for i, (prefix, ops, meta) in enumerate(cases):
        ln = lines[i]
        co = oc[i]
        nat = bool(meta.get("natural"))
        run.count(ln, nontrivial(ops, co))
        run.hist("sessions", meta.get("nsess"))
        run.hist("mode", "corpus" if meta.get("corpus") else
                 ("natural-time" if nat else ("write-failures" if meta.get("errs") else "forced-timer")))
        run.hist("ops", min(len(ops) // 10 * 10, 100))
        run.hist("peer_in_scope", peer_ok(ops, co))
        for o in ops:
            run.hist("op_kind", o[0])
        for ns_ in meta.get("nstart", []):
            run.hist("nstart", ns_)
        for cf in prefix[3:]:
            run.hist("session_kind", "server-side" if cf.endswith(",s") else "client")
        if i % 400 == 5:
            run.sample({"case": ln[:400], "impl": co[:400], "checker": verdict.get(i, "?")})
        kind = None
        if co.startswith("CRASH") or co.startswith("ERROR") or co == "HANG":
            kind, what = "crash", "the library crashes or never returns (%s)" % co
        elif co == "<not run>":
            continue
        elif verdict.get(i, "unparsed") != "ok" and peer_ok(ops, co, verdict.get(i)):
            kind, what = "oracle", "history rejected by the property checker (%s)" % verdict.get(i, "unparsed")
        elif notify_oracle(ops, co):
            kind, what = "oracle", "a NON is delayed by NSTART (%s)" % notify_oracle(ops, co)
        elif not nat and canon(model_out.get(i, "<missing>"), ops) != canon(co, ops):
            kind, what = "tie", "implementation differs from the proved model"
        elif nat and not nat_agrees(i, prefix, ops, co, nat_model.get(i))[0]:
            kind, what = "tie", ("implementation differs from the proved model (natural-time history "
                                 "replayed with the implementation's own timer firings)")
        if not kind:
            if not nat and canon(model_out.get(i, ""), ops, strict=True) != canon(co, ops, strict=True):
                nstrict += 1
            continue
        nbad += 1
        if nbad > 4:
            continue
        # shrink with "same kind of failure" as the predicate
        def still(pfx, cand, want=kind):
            k, _ = check_one(pfx, cand)
            return k == want
        small = tie.shrink_ops(prefix, ops, still, max_steps=300) if len(ops) < 400 else ops
        k2, detail = check_one(prefix, small)
        sl = gen_nstart.line_of(prefix, small)
        if sl in reported:
            continue
        reported.add(sl)
        c1, _ = run_cases(drv, [sl])
        if any(o[0] == "W" for o in small):
            m1 = ["(natural-time history: %s)" % nat_agrees(None, prefix, small, c1[0])[1]]
        else:
            m1, _ = vlib.run_lines_robust(model, [sl])
        replay = ("case: %s\nimpl : %s\nmodel: %s\nchecker on impl trace: %s\n(original case: %s)\n"
                  "replay: echo '<case>' | .build/obj/base/h_nstart   (NS_DEBUG=1 prints con_active)\n"
                  % (sl, c1[0], m1[0], detail or "ok", ln))
        no_input = False
        if kind == "tie":
            # the tie broke but the checker accepts this trace: search around the case for a
            # history the checker rejects
            found = search_around(prefix, small, check_one, tie.rng_for(run, "c08s%d" % nbad))
            if found:
                replay = ("case: %s\nchecker on impl trace: %s\n(found from the tie disagreement on: %s)\n"
                          % (gen_nstart.line_of(prefix, found[0]), found[1], sl)) + replay
                what = "history rejected by the property checker (%s)" % found[1]
            else:
                no_input = True
        run.violation(what, replay, tag="%s%d" % (kind, nbad), no_input=no_input)
    # exhaustive small scope: every history of `depth` events on one session over
    # {S con/non, A/R/T/P for every id submitted so far, U, F1, F4}, three configurations
    if not getattr(run, "replay", None):
        depth = 5 if quick else 6
        sweep_cfgs = [(1, 1, True, "c"), (2, 1, False, "c"), (1, 2, True, "s")]
        sw = [(p, o) for (ns_, rt, e0, kd) in sweep_cfgs
              for p, o in gen_nstart.enum_cases(depth, ns_, rt, e0, client=(kd == "c"))]
        # ... handshake pending at the start, every CON an Observe registration in block mode (the
        # request has its lg_crcv entry while it is held)
        sw += list(gen_nstart.enum_cases(depth - 1, 2, 1, False, observe=True))
        # ... all messages with ONE token, NSTART 3 >= number of submissions (so nothing with that
        # token is ever held): cancel by token removes several send-queue nodes at once
        sw += list(gen_nstart.enum_cases(depth - 1, 3, 1, True, sametok=True))
        # ... and with a nack handler that retries every given-up / reset CON from the callback
        sw += list(gen_nstart.enum_cases(depth - 1, 1, 1, True, hooks=True))
        # ... and two sessions sharing the context's send queue, using the same message ids
        d2 = 4 if quick else 5
        sw += list(gen_nstart.enum_cases2(d2, [(1, 1, True, True), (1, 1, True, False)]))
        sl = [gen_nstart.line_of(p, o) for p, o in sw]
        sc, scr = run_cases(drv, sl, chunk=5000, t_chunk=60)
        sm, _ = vlib.run_lines_robust(model, sl)
        smon_in = [mon_line(p, o, sc[i]) for i, (p, o) in enumerate(sw)]
        smon, _ = vlib.run_lines_robust(model, [x if x is not None else "nsmon 0" for x in smon_in])
        sbad = 0
        for i, (p, o) in enumerate(sw):
            why = None
            if sc[i] in ("HANG", "<not run>") or sc[i].startswith("CRASH") or sc[i].startswith("ERROR"):
                why = "the library crashes or never returns (%s)" % sc[i]
            elif smon_in[i] is None or (smon[i] != "ok" and peer_ok(o, sc[i], smon[i])):
                why = "history rejected by the property checker (%s)" % (smon[i] if smon_in[i] else "unparsed")
            elif canon(sm[i], o) != canon(sc[i], o):
                why = "implementation differs from the proved model"
            if why:
                sbad += 1
                if sbad <= 2:
                    nbad += 1
                    run.violation(why + " [exhaustive sweep]",
                                  "case: %s\nimpl : %s\nmodel: %s\nchecker on impl trace: %s\n"
                                  "replay: echo '<case>' | .build/obj/base/h_nstart\n"
                                  % (sl[i], sc[i], sm[i], smon[i]), tag="sweep%d" % nbad,
                                  no_input=(why.startswith("implementation differs")))
        run.cov["leaf_sweep"] = {"cases": len(sl), "disagreements": sbad,
                                 "exhaustive_over": "all histories of exactly %d events over {S con, S non, "
                                 "A/R/T/P of each id submitted so far (<= 3), U, F1, F4} for (NSTART, "
                                 "max_retransmit, established at start, kind) in %s; plus all histories of "
                                 "exactly %d events of two sessions (client + server-side, NSTART 1, same "
                                 "message ids) on one context" % (depth, sweep_cfgs, d2)}
        run.cov["evaluations"] += len(sl)

    # thorough tier: the compiled proofs are re-checked by the independent checker
    if not quick and not getattr(run, "replay", None):
        rc, out = vlib.sh(["coqchk", "-silent", "-Q", ".", "LibcoapV", "-o", "LibcoapV.Properties_C08"],
                          cwd=vlib.COQ, timeout=1800, check=False)
        ok = rc == 0 and "Axioms: <none>" in out and "type-in-type: <none>" in out and \
            "unsafe (co)fixpoints: <none>" in out and "positivity is assumed: <none>" in out
        run.cov["coqchk"] = "ok: no axioms, nothing assumed" if ok else out[-400:]
        if not ok:
            run.violation("coqchk does not confirm Properties_C08 without assumptions", out[-4000:],
                          tag="coqchk", no_input=True)

    # thorough tier: the same corpus + a slice of the generated histories on an ASan/UBSan build of
    # the library (objects instrumented, see DESIGN 5.4): same observations, no sanitizer report
    if not quick and not getattr(run, "replay", None):
        try:
            drv_a = vlib.build_driver("h_nstart", ["h_nstart.c"], variant="asan", wraps=WRAPS)
        except vlib.BuildError as e:
            drv_a = None
            run.cov["asan"] = "not built: " + str(e)[:200]
        if drv_a:
            sl = list(range(min(len(lines), len(corpus) + 20000)))
            oa, na = run_cases(drv_a, [lines[i] for i in sl])
            diffs = [i for k, i in enumerate(sl) if oa[k] != oc[i] and oa[k] != "<not run>"]
            run.cov["asan"] = {"cases": len(sl), "crashes_or_hangs": na, "differences": len(diffs)}
            run.cov["evaluations"] += len(sl)
            for i in diffs[:2]:
                nbad += 1
                run.violation("sanitizer build behaves differently / reports an error (%s)" % oa[sl.index(i)][:80],
                              "case: %s\nasan : %s\nbase : %s\nreplay: echo '<case>' | .build/obj/asan/h_nstart\n"
                              % (lines[i], oa[sl.index(i)], oc[i]), tag="asan%d" % nbad)
    run.cov["disagreements"] = nbad
    run.cov["corpus_cases"] = len(corpus)
    run.cov["strict_differences_not_raised"] = nstrict   # callbacks outside the property (see canon)
    run.cov["checker_runs_on_impl_traces"] = len(mon_in)


def search_around(prefix, ops, check_one, r, budget=150):
    """extend / perturb a disagreeing case looking for a history the checker rejects"""
    nsess = int(prefix[2])
    mids = {}
    for o in ops:
        if o[0] == "S":
            sid, _, mid, tok = o[1:].split(",")
            mids.setdefault(sid, []).append((mid, tok))
    for _ in range(budget):
        cand = list(ops)
        extra = []
        for _ in range(r.randrange(1, 8)):
            sid = str(r.randrange(nsess))
            x = r.random()
            if x < 0.3:
                nm = str(r.randrange(60000, 65000))
                extra.append("S%s,c,%s,%s" % (sid, nm, r.randrange(5000, 6000)))
                mids.setdefault(sid, []).append((nm, "0"))
            elif mids.get(sid):
                mid = r.choice(mids[sid])[0]
                extra.append("%s%s,%s" % (r.choice("AAATR"), sid, mid))
        cand += extra
        k, detail = check_one(prefix, cand)
        if k == "oracle":
            return cand, detail
    return None

"""C02 - arbitrary network input never breaks memory safety, liveness or the endpoint
(DESIGN.md section 6, C02).  Partial by nature: the theorem is about the index-level parser model;
the rest of the statement is decided on the code by instrumented runs.

 1. prove   : Properties_C02.v (ix_parse never reads outside the received bytes, terminates)
 2. tie     : the index-level model (extracted) against coap_pdu_parse, same hostile byte strings
              (variant asan: exact-size heap copies, debug-level logging on), all three framings
 3. valgrind: the plain build of the parse driver on truncation-heavy inputs (uninitialised
              values deciding a branch: what ASan cannot see)
 4. live    : hostile datagram sequences against live server/client endpoints in five states
              (fresh, observation, Block2 and Block1 transfer under way, client with an
              outstanding request) through the real receive path, ASan+UBSan, debug logging on,
              canary exchange afterwards; oracle: what the proved parser model rejects never
              reaches an application handler and draws at most one Reset / error reply.
"""
import os
import re
import subprocess
import vlib
import tie
import gen_wire

RULE = ("byte strings = valid encodings mutated at every field / truncated at every length / "
        "blind bytes (3 framings) for the parser tie; for the live endpoints: sequences of 1-6 "
        "datagrams (mutated valid requests and responses, block/observe/OSCORE/Q-Block options "
        "with hostile values, tokens and mids of the ongoing exchange) per state; non-trivial = "
        "mutated or truncated valid encoding, or a live sequence with >= 1 datagram the reference "
        "parser accepts and >= 1 it rejects, or any live sequence in a non-fresh state; distinct "
        "= distinct case line")

VN_WRAPS = ["coap_ticks", "coap_socket_send", "coap_socket_recv"]
STATES = ["fresh", "obs", "blk2", "blk1", "client", "osc", "qfresh", "qb1", "qb2", "cblk2", "cobs", "cq2", "wk", "idle"]


def hostile_dgram(r, state):
    """one datagram aimed at the given state"""
    x = r.random()
    if x < 0.12:
        return gen_wire.rbytes(r, r.choice([0, 1, 2, 3, 4, 5, 6, 8, 13, 40]))
    if state == "osc" and x < 0.24:
        # the OSCORE option as the very last bytes of the datagram (the PDU buffer is exactly as
        # long as the datagram): flag bits that promise as many or more bytes than the option has
        n = r.choice([1, 2, 3, 5, 7])
        v = bytes([r.choice([n, n, n + 1 if n < 7 else n, n | 0x08, n | 0x10])]) + gen_wire.rbytes(r, r.choice([n - 1, n - 1, n, max(0, n - 2)]))
        return gen_wire.py_serialize("udp", r.choice([0, 1]), r.choice([2, 1, 5, 0x44]), r.randrange(65536),
                                     gen_wire.rbytes(r, r.choice([0, 1, 4])), [(9, v)], b"")
    tok = {"obs": b"\xaa\xbb", "idle": b"\xaa\xbb", "blk2": b"\xcc\xdd", "blk1": b"\xee\xff", "client": b"\x11\x22",
           "cblk2": b"\x11\x22", "cobs": b"\x11\x22", "cq2": b"\x11\x22", "qb1": b"\xe1\xe2", "qb2": b"\xd1\xd2"}.get(
        state, bytes([r.randrange(256)]))
    if r.random() < 0.3:
        tok = gen_wire.rbytes(r, r.choice([0, 1, 2, 8]))
    path = {"obs": b"obs", "idle": b"obs", "blk2": b"big", "blk1": b"put", "qb1": b"put", "qb2": b"big"}.get(
        state, r.choice([b"canary", b"x", b"put", b"big", b"obs"]))
    is_client = state in ("client", "cblk2", "cobs", "cq2")
    mid = r.choice([0x1001, 0x1002, 0x1003, 0x1004, r.randrange(65536)])
    if is_client:
        ty = r.choice([2, 2, 1, 0, 3])
        code = r.choice([0x45, 0x44, 0x5f, 0x84, 0xa0, 0x00, 0x41, 0x01, r.randrange(256)])
    else:
        ty = r.choice([0, 0, 1, 2, 3])
        # every request code incl. the unassigned 0.08 .. 0.31 (method table bounds)
        code = r.choice([1, 1, 2, 3, 4, 5, 6, 7, 8, 9, 31, r.randrange(8, 32), 0, 0x45, 0xe1,
                         r.randrange(256)])
    opts = []

    def uv(maxlen=4):
        return gen_wire.rbytes(r, r.randrange(maxlen + 1))
    cand = [(6, lambda: uv(3)), (23, lambda: uv(3)), (27, lambda: uv(3)), (28, lambda: uv(4)),
            (60, lambda: uv(4)), (4, lambda: gen_wire.rbytes(r, r.choice([1, 2, 8]))),
            (292, lambda: uv(8)), (19, lambda: uv(3)), (31, lambda: uv(3)),
            (9, lambda: gen_wire.rbytes(r, r.choice([0, 1, 2, 5, 9, 20]))),
            (12, lambda: uv(2)), (17, lambda: uv(2)), (14, lambda: uv(4)), (258, lambda: uv(1)),
            (16, lambda: uv(1)), (252, lambda: uv(8)), (35, lambda: b"coap://h/" + uv(6)),
            (39, lambda: b"coap"), (3, lambda: b"h"), (7, lambda: uv(2)), (5, lambda: b""),
            (1, lambda: uv(8)), (15, lambda: b"a=" + uv(3)), (65000, lambda: uv(3)),
            (65001, lambda: uv(3))]
    for _ in range(r.choice([0, 1, 1, 2, 2, 3, 5])):
        n, f = r.choice(cand)
        opts.append((n, f()))
    if state == "osc" and r.random() < 0.8:
        # structured OSCORE option value: flag byte (n = PIV length, k, h bits, reserved bits),
        # PIV, optional kid context (length byte + bytes), kid; lengths may lie
        nlen = r.choice([0, 1, 1, 2, 5, 6, 7])
        flags = nlen | (0x08 if r.random() < 0.7 else 0) | (0x10 if r.random() < 0.3 else 0) | \
            r.choice([0, 0, 0, 0x20, 0x40, 0x80])
        v = bytes([flags]) + gen_wire.rbytes(r, r.choice([nlen, nlen, max(0, nlen - 1)]))
        if flags & 0x10:
            kl = r.choice([0, 1, 8, 200])
            v += bytes([kl]) + gen_wire.rbytes(r, r.choice([kl, 0, 3]) if kl < 100 else 2)
        if flags & 0x08:
            v += r.choice([b"", b"\x02", b"\x01", b"\x02\x03", gen_wire.rbytes(r, 7)])
        opts = [o for o in opts if o[0] != 9] + [(9, v[:255])]
        code = r.choice([2, 2, 5, 0x44, 1])
    if state[0] == "q" and r.random() < 0.7:
        # Q-Block1 / Q-Block2 values: NUM around the burst, M, SZX incl. the reserved 7
        num = r.choice([0, 1, 2, 3, 4, 5, 9, 10, 11, 46, 47, 100, 0xfffff])
        v = (num << 4) | (r.choice([0, 1]) << 3) | r.choice([0, 2, 2, 2, 6, 7])
        bv = v.to_bytes(max(1, (v.bit_length() + 7) // 8), "big") if v else b""
        opts = [o for o in opts if o[0] not in (19, 31)] + [(19 if state == "qb1" or (state == "qfresh" and r.random() < 0.5) else 31, bv)]
        code = r.choice([3, 3, 1, 5, 2]) if state != "qb2" else r.choice([1, 1, 5, 3])
        ty = r.choice([1, 1, 1, 0])
    if state in ("cblk2", "cobs", "cq2") and r.random() < 0.7:
        # responses that continue / disturb the client's transfer or observation
        if state in ("cblk2", "cq2"):
            num = r.choice([0, 1, 1, 2, 3, 40, 0xfffff])
            v = (num << 4) | (r.choice([0, 1]) << 3) | r.choice([0, 2, 2, 2, 6, 7])
            bv = v.to_bytes(max(1, (v.bit_length() + 7) // 8), "big") if v else b""
            opts = [o for o in opts if o[0] not in (23, 31)] + [(23 if state == "cblk2" else 31, bv)]
            if r.random() < 0.4:
                opts.append((28, r.choice([b"", b"\x40", b"\x0b\xb8", b"\xff\xff\xff\xff"])))
            if r.random() < 0.4:
                opts.append((4, gen_wire.rbytes(r, r.choice([1, 4, 8]))))
        else:
            opts = [o for o in opts if o[0] != 6] + [(6, r.choice([b"", b"\x06", b"\x05", b"\xff\xff\xff", b"\x00\x01"]))]
        code = r.choice([0x45, 0x45, 0x45, 0x44, 0x84, 0xa0, 0x5f])
        ty = r.choice([2, 1, 0, 0])
    if state == "wk":
        # GET /.well-known/core with hostile filters (the built-in handler parses the query)
        q = r.choice([b"rt=outdoor", b"rt=x", b"rt=temp*", b"rt=temperature-c", b"if=core.b", b"if=core.a",
                      b"title=Ma%C3%9F [1]", b"title=x", b"obs", b"obs=1", b"ct=40", b"ct=4", b"rt=out", b"if=sensor core.b",
                      b"rt=", b"rt=*", b"=", b"href=%", b"title=\"", b"rt=a*", b"if=%2", b"%", b"*",
                      b"href=/" + b"a" * r.choice([1, 100, 250]), b"rt=%41%", b"ct=40", b"anchor=" + gen_wire.rbytes(r, 4),
                      gen_wire.rbytes(r, r.choice([1, 3, 20]))])
        opts = [o for o in opts if o[0] not in (11, 15)] + [(11, b".well-known"), (11, b"core"), (15, q)]
        if r.random() < 0.3:
            opts.append((15, r.choice([b"", b"rt=x", b"&"])))
        if r.random() < 0.3:
            opts.append((23, r.choice([b"", b"\x02", b"\x16", b"\x07", b"\xff\xff\xf2"])))
        code = 1
    elif not is_client or r.random() < 0.2:
        opts.append((11, path))
    if r.random() < 0.15:
        # values full of characters that the path / query reconstruction has to escape (sizes of
        # the reconstructed strings are computed in one pass and written in another)
        ch = r.choice([b"&", b"&", b" ", b"%", b"/", b"?", b"\xff", b"=", b"#"])
        opts.append((r.choice([15, 15, 11]), ch * r.choice([1, 7, 50, 100, 200, 255])))
    if r.random() < 0.12:
        # option area larger than the 256-byte initial PDU allocation (copies / duplicates of the
        # request are made for observe registrations, block-wise state, async, caches)
        big = [(15, b"q=" + bytes([97 + r.randrange(26)]) * r.choice([200, 247, 248, 249, 250, 253]))
               for _ in range(r.choice([1, 1, 2, 4]))]
        opts += big
        if r.random() < 0.7:
            tok = gen_wire.rbytes(r, 8)
        if r.random() < 0.6 and not is_client:
            opts = [o for o in opts if o[0] != 6] + [(6, b"")]
            code = 1
    opts.sort(key=lambda o: o[0])
    pl = b"" if r.random() < 0.5 else gen_wire.rbytes(r, r.choice([1, 3, 16, 63, 64, 65, 200]))
    b = gen_wire.py_serialize("udp", ty, code, mid, tok, opts, pl)
    y = r.random()
    if y < 0.35:
        for _ in range(r.choice([1, 1, 2, 3])):
            b = gen_wire.mutate(r, b)
    elif y < 0.5 and len(b) > 1:
        b = b[:r.randrange(1, len(b))]
    return b


def c05_wraps():
    """h_stream.c is C05's driver; link it with whatever interpositions C05 declares"""
    try:
        from checks import c05
        return list(c05.WRAPS)
    except Exception:
        return ["coap_socket_read", "coap_socket_write", "select"]


def summary_of(err):
    m = re.search(r"(?m)^SUMMARY: .*$", err)
    if m:
        return m.group(0)[:300]
    return re.sub(r"\s+", " ", err)[:300]


def block_sequence(r, optnum=27):
    """Block1 uploads to /put with hostile NUM orders (descending, gaps, repeats), M mostly set,
    full-size blocks: drives the received-block range array and the reassembly buffer"""
    szx = r.choice([0, 2, 2, 2, 6])
    size = 16 << szx
    style = r.choice(["desc", "desc2", "rand", "gaps", "same", "islands", "islands"])
    n = r.choice([4, 5, 6, 8, 12])
    if style == "desc":
        nums = [60 - 2 * i for i in range(n)]
    elif style == "desc2":
        nums = [r.choice([1000, 100, 40]) - 3 * i for i in range(n)]
    elif style == "gaps":
        nums = [2 * i + (i % 3) for i in range(n)]
        r.shuffle(nums)
    elif style == "islands":
        # far-apart blocks fill the range array from the append side, then blocks between them
        # go through the insert side (the two sites have separate "array full" tests)
        k = r.choice([3, 4, 5])
        nums = [100 * (i + 1) for i in range(k)] + [100 * i + 50 for i in range(r.choice([1, 2, 3, 4]))]
        n = len(nums)
    elif style == "same":
        nums = [r.choice([0, 1, 5])] * n
    else:
        nums = [r.randrange(0, 70) for _ in range(n)]
    out = []
    tok = gen_wire.rbytes(r, r.choice([0, 2, 2, 8]))
    for i, num in enumerate(nums):
        m = 0 if (i == n - 1 and r.random() < 0.5) else 1
        v = (max(num, 0) << 4) | (m << 3) | szx
        bv = v.to_bytes(max(1, (v.bit_length() + 7) // 8), "big")
        opts = [(11, b"put"), (optnum, bv)]
        if r.random() < 0.3:
            opts.append((60, r.choice([b"", b"\x40", b"\x01\x00", b"\xff\xff\xff\xff"])))
        if r.random() < 0.3:
            opts.append((292, gen_wire.rbytes(r, r.choice([0, 1, 8]))))
        if i == n - 1 and r.random() < 0.4:
            opts.append((12, r.choice([b"\x2a", b"\x00\x32"])))     # another Content-Format: state is released
            m = 1
        opts.sort(key=lambda o: o[0])
        pl = gen_wire.rbytes(r, size if m or r.random() < 0.5 else r.randrange(1, size + 1))
        out.append(gen_wire.py_serialize("udp", r.choice([0, 0, 1]) if optnum == 27 else r.choice([1, 1, 0]),
                                         r.choice([3, 3, 2]), 0x2000 + i,
                                         tok if r.random() < 0.8 else gen_wire.rbytes(r, 2), opts, pl))
    return out


def run_cases_watchdog(exe, cases, env, batch_timeout=90, case_timeout=20):
    """run_lines_robust with hang detection: a batch that does not finish in time is re-run case by
    case; a case that does not finish in case_timeout seconds gets the result 'CRASH hang'"""
    outs, crashes = [], []
    hangs = 0
    for off in range(0, len(cases), 250):
        part = cases[off:off + 250]
        if hangs >= 3:
            # three hanging cases are reported; the rest of the stage is not run
            outs.extend(["<skipped after hangs>"] * len(part))
            continue
        try:
            rc, out, err = vlib.run_lines(exe, [], part, timeout=batch_timeout, env=env)
            ok = rc == 0 and len([x for x in out if x != ""]) >= len(part)
        except subprocess.TimeoutExpired:
            ok = False
            rc, out, err = -999, [], "timeout"
        if ok:
            outs.extend(out[:len(part)])
            continue
        if rc != -999:
            o1, c1 = vlib.run_lines_robust(exe, part, env=env, timeout=batch_timeout)
            if not any("timeout" in e for (_, _, e) in c1):
                outs.extend(o1)
                crashes.extend((off + ci, r1, e) for (ci, r1, e) in c1)
                continue
        for k, ln in enumerate(part):
            if hangs >= 3:
                outs.append("<skipped after hangs>")
                continue
            try:
                rc1, out1, err1 = vlib.run_lines(exe, [], [ln], timeout=case_timeout, env=env)
                if rc1 == 0 and out1 and out1[0] != "":
                    outs.append(out1[0])
                else:
                    outs.append("CRASH rc=%d" % rc1)
                    crashes.append((off + k, rc1, vlib.err_digest(err1)))
            except subprocess.TimeoutExpired:
                hangs += 1
                outs.append("CRASH hang")
                crashes.append((off + k, -999, "SUMMARY: the driver did not finish this case within %d s "
                                "(endless loop / no progress)" % case_timeout))
    return outs, crashes


def valgrind_scan(run, exe, lines):
    """run the parse driver under valgrind memcheck; bisect to one failing line"""
    def bad(ls):
        data = ("\n".join(ls) + "\n").encode()
        p = subprocess.run(["valgrind", "-q", "--error-exitcode=97", "--track-origins=no", exe],
                           input=data, stdout=subprocess.PIPE, stderr=subprocess.PIPE, timeout=600)
        return p.returncode == 97, p.stderr.decode("latin-1")[-3000:]
    b, err = bad(lines)
    if not b:
        return None
    cur = lines
    while len(cur) > 1:
        h = len(cur) // 2
        b1, e1 = bad(cur[:h])
        if b1:
            cur, err = cur[:h], e1
        else:
            b2, e2 = bad(cur[h:])
            if not b2:
                break
            cur, err = cur[h:], e2
    return cur[0], err


def main(run):
    run.cov["trusted_base"] = vlib.TRUSTED_COMMON + [
        "model: Wire/ParseIdx.v (index-level transcription of coap_pdu_parse, "
        "coap_pdu_parse_header, coap_pdu_parse_opt, next_option_safe, coap_opt_parse with checked "
        "reads); everything else of the statement is observed, not proved: clang ASan+UBSan and "
        "valgrind memcheck verdicts on the explored inputs",
        "harness/common/vnet.h (scripted datagram network, virtual clock), harness/h_hostile.c"]
    run.assumptions = [
        "memory safety of C outside the modelled parser is a runtime fact: it is observed by "
        "sanitizers on the explored inputs and states, not proved (heap lifetime, coap_debug.c "
        "printers, block/observe/OSCORE state machines)",
        "TCP and WebSocket: hostile streams are delivered to a live server stream session (stage 5, "
        "crash/trap/hang oracle only; delivery semantics under chunking are C05's); WebSocket client "
        "side (HTTP response parsing) is not driven",
        "GnuTLS and libc are not instrumented"]
    run.prove()
    if run.tier == "thorough":
        # independent re-check of the compiled proofs (coqchk: kernel only, reports axioms)
        rc, out = vlib.sh(["coqchk", "-silent", "-o", "-Q", ".", "LibcoapV", "LibcoapV.Properties_C02"],
                          cwd=vlib.COQ, timeout=1800, check=False)
        ok = rc == 0 and "* Axioms: <none>" in out
        run.cov["coqchk"] = "ok, axioms: none" if ok else out[-600:]
        if not ok:
            run.violation("coqchk does not accept Properties_C02.vo (or finds axioms)", out[-4000:],
                          tag="coqchk", no_input=True)
    model = vlib.build_model()
    drv_asan = vlib.build_driver("h_wire", ["h_wire.c"], variant="asan")
    drv_base = vlib.build_driver("h_wire", ["h_wire.c"])
    hz = vlib.build_driver("h_hostile", ["h_hostile.c"], variant="asana", wraps=VN_WRAPS)
    asan_env = {"ASAN_OPTIONS": "detect_leaks=0:abort_on_error=1:allocator_may_return_null=1",
                "UBSAN_OPTIONS": "halt_on_error=1:print_stacktrace=1", "VERIF_LOG_DEBUG": "1"}
    quick = run.tier == "quick"

    # ---- 2. parser tie -------------------------------------------------------------------
    r = tie.rng_for(run, "c02-parse")
    lines, kinds = [], []
    for ln in vlib.read_corpus("C02"):
        if ln.startswith("c02 "):
            lines.append(ln)
            kinds.append("corpus")
    for i in range(5000 if quick else 150000):
        x = r.random()
        if x < 0.15:
            proto = r.choice(["udp", "tcp", "ws"])
            b = gen_wire.rbytes(r, r.choice([0, 1, 2, 3, 4, 5, 6, 8, 12, 30]))
            kind = "blind"
        else:
            proto, b = gen_wire.gen_valid_msg(r, small=(x < 0.92))
            kind = "valid"
            if x > 0.6:
                for _ in range(r.choice([1, 1, 2, 3])):
                    b = gen_wire.mutate(r, b)
                kind = "mutated"
            elif x > 0.3 and len(b) > 1:
                b = b[:r.randrange(1, len(b))]
                kind = "truncated"
        lines.append("c02 %s %s" % (proto, b.hex() if b else "-"))
        kinds.append(kind)
    # every truncation of a few extended-token messages (the boundary of the repaired check)
    for proto in ("udp", "tcp", "ws"):
        for tl in (13, 14, 269, 270):
            b = gen_wire.py_serialize(proto, 0, 1, 0x1234, bytes(range(256)) * 2 if tl > 255 else bytes(range(tl)),
                                      [(11, b"ab")], b"x")
            b = gen_wire.py_serialize(proto, 0, 1, 0x1234, (bytes(range(256)) * 2)[:tl], [(11, b"ab")], b"x")
            for k in list(range(0, 12)) + [len(b) - 1, len(b)]:
                if k <= len(b):
                    lines.append("c02 %s %s" % (proto, b[:k].hex() if k else "-"))
                    kinds.append("truncated")
    om, cr_m = vlib.run_lines_robust(model, lines)
    oc, cr_c = vlib.run_lines_robust(drv_asan, lines, env=asan_env)
    nbad = 0
    for i, ln in enumerate(lines):
        run.count(ln, kinds[i] in ("mutated", "truncated", "corpus"))
        run.hist("parser_input", kinds[i])
        run.hist("parser_model_verdict", om[i] if om[i] in ("REJECT", "OOB", "FUEL") else "accept")
        if i % 2500 == 3:
            run.sample({"case": ln[:160], "impl": oc[i][:160]})
        if om[i] in ("OOB", "FUEL"):
            run.violation("index-level parser model leaves the received bytes (%s)" % om[i],
                          "case: %s\nmodel: %s\nimpl: %s\n" % (ln, om[i], oc[i]), tag="oob%d" % i)
        elif om[i] != oc[i]:
            nbad += 1
            if nbad <= 3:
                crash = oc[i].startswith("CRASH")
                what = ("sanitizer trap / crash in coap_pdu_parse on hostile input" if crash else
                        "coap_pdu_parse differs from the index-level model")
                det = ""
                for (ci, rc, err) in cr_c:
                    if ci == i:
                        det = err
                run.violation(what, "case: %s\nmodel: %s\nimpl: %s\n%s" % (ln, om[i], oc[i], det),
                              tag="parse%d" % nbad)
    run.cov["parser_disagreements"] = nbad

    # ---- 3. valgrind ----------------------------------------------------------------------
    vl = [ln.replace("c02 ", "c03 ", 1) for i, ln in enumerate(lines)
          if kinds[i] in ("truncated", "corpus") or i % (4 if quick else 10) == 0]
    vl = vl[:2500 if quick else 40000]
    res = valgrind_scan(run, drv_base, vl)
    run.cov["valgrind_cases"] = len(vl)
    if res:
        run.violation("valgrind: uninitialised value or invalid access in coap_pdu_parse",
                      "case: %s\n%s" % res, tag="valgrind")

    # ---- 4. live endpoints ------------------------------------------------------------------
    r = tie.rng_for(run, "c02-live")
    cases = [ln for ln in vlib.read_corpus("C02") if ln.startswith("hz ")]
    ncorp = len(cases)
    for i in range(700 if quick else 20000):
        st = STATES[i % len(STATES)]
        if st in ("fresh", "blk1", "osc", "qfresh") and i % 4 == 0:
            ds = block_sequence(r, 19 if st == "qfresh" else 27)
        else:
            ds = [hostile_dgram(r, st) for _ in range(r.choice([1, 1, 2, 3, 4, 6]))]
        if st == "idle":
            # every datagram from its own source port: sessions are created and the idle ones evicted
            cases.append("hz %s %s" % (st, " ".join("s%d:%s" % (r.randrange(10), d.hex() if d else "-") for d in ds + ds[:3])))
            continue
        cases.append("hz %s %s" % (st, " ".join(d.hex() if d else "-" for d in ds)))
    # reference verdict per datagram
    dl = []
    for c in cases:
        for h in c.split()[2:]:
            dl.append("c02 udp " + h.split(":")[-1])
    dv, _ = vlib.run_lines_robust(model, dl)
    out, crashes = run_cases_watchdog(hz, cases, asan_env)
    k = 0
    nviol = 0
    for ci, c in enumerate(cases):
        toks = c.split()
        n = len(toks) - 2
        verd = dv[k:k + n]
        k += n
        o = out[ci]
        rej = [v == "REJECT" for v in verd]
        run.count(c, toks[1] != "fresh" or (any(rej) and not all(rej)))
        run.hist("live_state", toks[1])
        run.hist("live_sequence_len", n)
        for v in verd:
            run.hist("live_datagram_reference_verdict", "reject" if v == "REJECT" else "accept")
        if ci % 150 == 5:
            run.sample({"case": c[:200], "impl": o[:200]})
        why = None
        if o.startswith("CRASH") or o.startswith("<not run>"):
            err = ""
            for (cj, rc, e) in crashes:
                if cj == ci:
                    err = e
            why = "sanitizer trap / crash / hang on hostile datagrams: " + (
                summary_of(err) if err else o)
        elif "canary=ok" not in o:
            why = "endpoint no longer answers a well-formed request after hostile input: " + o[-120:]
        elif re.search(r"maxbody=(\d+)", o) and \
                int(re.search(r"maxbody=(\d+)", o).group(1)) > sum(len(t) // 2 for t in toks[2:]) + 128:
            why = ("a request handler was given a body of %s bytes although the peer sent %d bytes in all "
                   "(bytes never received handed out as data)" %
                   (re.search(r"maxbody=(\d+)", o).group(1), sum(len(t) // 2 for t in toks[2:])))
        else:
            fs = re.findall(r"i(\d+)=(\d+):(\d+):(\S+)", o)
            for (idx, hc, nr, first) in fs:
                j = int(idx)
                if j < n and rej[j]:
                    if int(hc) != 0:
                        why = "malformed datagram %d reached an application handler" % j
                    elif int(nr) > 1:
                        why = "malformed datagram %d drew %s replies" % (j, nr)
                    elif int(nr) == 1:
                        m = re.match(r"(\d+)\.(\d+)$", first)
                        if not m or not (int(m.group(1)) == 3 or int(m.group(2)) >> 5 in (4, 5)):
                            why = "malformed datagram %d answered with %s (neither Reset nor error)" % (j, first)
        if why:
            nviol += 1
            if nviol <= 3:
                run.violation(why, "case: %s\nimpl: %s\nreference verdicts: %s\n" % (c, o, verd),
                              tag="live%d" % nviol)
    # ---- 5. hostile TCP streams against a live stream session --------------------------------
    # (driver of C05: real server TCP session, scripted reads; here built with ASan+UBSan and fed
    # streams C05 excludes: signalling Release/Abort followed by traffic, mutated frames, blind
    # bytes, oversize declarations, every kind of cut)
    import gen_stream
    hs = vlib.build_driver("h_stream", ["h_stream.c"], variant="asana",
                           wraps=c05_wraps())
    r = tie.rng_for(run, "c02-tcp")
    tl = [ln for ln in vlib.read_corpus("C02") if ln.startswith("tcp ")]
    sig = [bytes([0x00, 0xe4]), bytes([0x00, 0xe5]), bytes([0x00, 0xe1]), bytes([0x00, 0xe2]),
           bytes([0x00, 0xe3]), bytes([0x20, 0xe4, 0x21, 0x00]), bytes([0x10, 0xe5, 0x20]),
           bytes([0x30, 0xe1, 0x24, 0x00, 0x00]), bytes([0x11, 0xe2, 0xaa, 0x20])]
    for i in range(400 if quick else 12000):
        stream, meta = gen_stream.gen_tcp_stream(r, small=(i % 3 != 0), allow_big=(i % 40 == 0))
        x = r.random()
        if x < 0.35:
            k = r.randrange(0, len(meta["starts"]) + 1)
            pos = meta["starts"][k] if k < len(meta["starts"]) else len(stream)
            stream = stream[:pos] + r.choice(sig) + stream[pos:]
        elif x < 0.6 and stream:
            for _ in range(r.choice([1, 2, 3])):
                stream = gen_wire.mutate(r, stream)
        elif x < 0.7:
            stream = gen_wire.rbytes(r, r.choice([1, 2, 3, 7, 20, 60]))
        if not stream:
            continue
        for _ in range(2):
            y = r.random()
            if y < 0.3:
                cuts = "-"
            elif y < 0.5:
                cuts = "x1"
            else:
                pts = sorted(set(r.randrange(1, len(stream)) for _ in range(r.choice([1, 2, 3, 5])))) \
                    if len(stream) > 1 else []
                cuts = gen_stream.cuts_to_token(pts, len(stream))
            tl.append("tcp 0 %s %s" % (stream.hex(), cuts))
    # WebSocket server session: HTTP upgrade (valid / variant / over-long / malformed lines) then
    # frames: valid, oversize declarations, unmasked, bad opcodes, close frames, and byte-level
    # mutations of all of it; opt bit 0 = a second connection gets traffic between arrivals
    if hasattr(gen_stream, "gen_ws_stream"):
        for i in range(300 if quick else 9000):
            stream, meta = gen_stream.gen_ws_stream(r, small=(i % 3 == 0))
            x = r.random()
            if x < 0.45 and len(stream) > meta["hslen"] + 1:
                body = stream[meta["hslen"]:]
                for _ in range(r.choice([1, 2, 3])):
                    body = gen_wire.mutate(r, body)
                stream = stream[:meta["hslen"]] + body
            elif x < 0.6:
                for _ in range(r.choice([1, 2])):
                    stream = gen_wire.mutate(r, stream)
            if not stream:
                continue
            y = r.random()
            if y < 0.3:
                cuts = "-"
            elif y < 0.45:
                cuts = "x1"
            else:
                pts = sorted(set(r.randrange(1, len(stream)) for _ in range(r.choice([1, 2, 3, 5])))) \
                    if len(stream) > 1 else []
                cuts = gen_stream.cuts_to_token(pts, len(stream))
            tl.append("ws %d %s %s" % (r.choice([0, 0, 1]), stream.hex(), cuts))
    # WebSocket CLIENT session (the peer is a hostile server): response handshake, unmasked
    # frames, mutations; and on both roles frames whose 7+16 / 7+64 bit length fields take their
    # extreme values (top bit set, all ones, just above every power of two) followed by 0..5
    # bytes in the same arrival
    if hasattr(gen_stream, "gen_wsc_stream"):
        canon_c = None
        for i in range(200 if quick else 6000):
            stream, meta = gen_stream.gen_wsc_stream(r, small=(i % 3 == 0))
            if canon_c is None and meta["hs"] == "ok":
                canon_c = stream[:meta["hslen"]]
            x = r.random()
            if x < 0.45 and len(stream) > meta["hslen"] + 1:
                body = stream[meta["hslen"]:]
                for _ in range(r.choice([1, 2, 3])):
                    body = gen_wire.mutate(r, body)
                stream = stream[:meta["hslen"]] + body
            elif x < 0.55:
                stream = gen_wire.mutate(r, stream)
            y = r.random()
            if y < 0.35:
                cuts = "-"
            elif y < 0.5:
                cuts = "x1"
            else:
                pts = sorted(set(r.randrange(1, len(stream)) for _ in range(r.choice([1, 2, 3, 5])))) \
                    if len(stream) > 1 else []
                cuts = gen_stream.cuts_to_token(pts, len(stream))
            tl.append("wsc 0 %s %s" % (stream.hex(), cuts))
        canon_s = None
        for _ in range(50):
            st, meta = gen_stream.gen_ws_stream(r, small=True)
            if meta.get("hs") in ("ok", None) and meta.get("hslen"):
                canon_s = st[:meta["hslen"]]
                if meta.get("hs") == "ok":
                    break
        ext = [1 << 63, (1 << 63) + 5, (1 << 64) - 1, (1 << 64) - 14, (1 << 62) + 1, (1 << 32),
               (1 << 32) - 1, (1 << 31), (1 << 31) - 1, 65536, 0xFFFFFFFFFFFFFFF2]
        okmsg = gen_wire.py_serialize("ws", 0, 69, 0, b"\x01", [], b"x")
        for sz in ext:
            for ntrail in (0, 1, 4, 5):
                for role, hsb in (("wsc", canon_c), ("ws", canon_s)):
                    if hsb is None:
                        continue
                    for op in (0x82, 0x02, 0x89):
                        mb = 0x80 if role == "ws" else 0
                        h = bytes([op, mb | 127]) + sz.to_bytes(8, "big") + (b"\x01\x02\x03\x04" if mb else b"")
                        st = hsb + gen_stream.ws_frame(okmsg, mask=(b"\x00\x00\x00\x00" if mb else None)) \
                            + h + gen_wire.rbytes(r, ntrail)
                        for cuts in ("-", gen_stream.cuts_to_token([len(hsb)], len(st))):
                            tl.append("%s 0 %s %s" % (role, st.hex(), cuts))
        for sz16 in (0xFFFF, 0x8000, 1473, 126, 0):
            for role, hsb in (("wsc", canon_c), ("ws", canon_s)):
                if hsb is None:
                    continue
                mb = 0x80 if role == "ws" else 0
                h = bytes([0x82, mb | 126]) + sz16.to_bytes(2, "big") + (b"\x01\x02\x03\x04" if mb else b"")
                st = hsb + h + gen_wire.rbytes(r, 3)
                tl.append("%s 0 %s -" % (role, st.hex()))
    # one driver process per 250 streams: the driver keeps a few descriptors per case open and
    # libcoap's WebSocket close path uses select(), i.e. FD_SET, which is only defined for
    # descriptors below FD_SETSIZE (1024) - a limit of the library that is not peer-controlled
    to, tcr = run_cases_watchdog(hs, tl, asan_env)
    ntcp = 0
    for i, ln in enumerate(tl):
        run.count(ln, True)
        run.hist("stream_kind", ln.split()[0])
        run.hist("tcp_stream_cut", "single" if ln.endswith(" -") else "bytewise" if ln.endswith(" x1") else "cuts")
        if i % 200 == 7:
            run.sample({"case": ln[:200], "impl": to[i][:160]})
        if to[i].startswith("CRASH") or to[i].startswith("<not run>"):
            ntcp += 1
            err = ""
            for (cj, rc, e) in tcr:
                if cj == i:
                    err = e
            if ntcp <= 3:
                run.violation("sanitizer trap / crash / hang on a hostile TCP/WebSocket stream: " + summary_of(err),
                              "case: %s\nimpl: %s\n%s\n" % (ln, to[i], err), tag="tcp%d" % ntcp)
    run.cov["tcp_stream_cases"] = len(tl)
    run.cov["tcp_stream_failures"] = ntcp
    run.cov["live_cases"] = len(cases)
    run.cov["live_corpus_cases"] = ncorp
    run.cov["live_failures"] = nviol
    run.cov["driver_crashes"] = len(crashes) + len(cr_c)

"""C13 - advertised thread safety: concurrent API use is serialised and never deadlocks
(DESIGN.md section 6, C13; notes/C13.md).

 1. translator (tools/regen_lock.py): the locking discipline is read out of the tree's source and
    build configuration and written to coq/Gen/LockConfig.v;
 2. proof: coq/Properties_C13.v is re-checked against the regenerated configuration;
 3. tie: the real lock functions and macros (harness/h_lock.c, deterministic virtual threads) and
    the extracted model run the same programs under the same schedules, compared step by step;
    oracle = LockModel.lk_verdict evaluated on what the C code did;
 4. stress: real threads on the real API (harness/h_lock_stress.c, ThreadSanitizer build) with a
    watchdog; a data race or a stuck thread is a concrete failing schedule."""
import hashlib
import json
import os
import re
import subprocess
import time

import vlib
import tie
import gen_lock
import regen_lock
import lock_stress

RULE = ("cases = (2..8 thread programs of nested API calls - the driver's transcribed wrapper or the real coap_handle_event() - / callbacks of the 5 macro kinds, schedule) from "
        "the corpus, a seeded generator (uniform / bursty / round-robin / one-thread-first / short schedules) "
        "and the interleavings of pairs from a catalogue of 10 small programs (all of them up to 40 (quick) / 3000 (thorough) per pair, else half lexicographic half random); each is run on the "
        "real lock code and on the extracted model and compared step by step; non-trivial = at least 2 "
        "threads, at least one callback macro in a program, and the implementation's trace contains a "
        "blocked lock attempt or a state with in_callback >= 1; distinct = distinct case line")

WRAPS_RC = ["pthread_mutex_lock", "pthread_mutex_unlock", "pthread_mutex_trylock", "pthread_self"]
WRAPS = WRAPS_RC + ["coap_lock_lock_func", "coap_lock_unlock_func"]
GEN_REL = os.path.join("Gen", "LockConfig.v")


def write_if_changed(path, text):
    if os.path.exists(path) and open(path).read() == text:
        return False
    os.makedirs(os.path.dirname(path), exist_ok=True)
    with open(path, "w") as f:
        f.write(text)
    return True


def install_gen(text):
    """(Re)write Gen/LockConfig.v in the Coq tree of this run *after* every refresh of that tree
    (in VERIF_REPO mode vlib.coq_makefile() re-syncs the tree from the checkout, which would put
    the bootstrap copy back)."""
    orig = getattr(vlib, "_c13_orig_coq_makefile", None) or vlib.coq_makefile
    vlib._c13_orig_coq_makefile = orig

    def patched():
        orig()
        path = os.path.join(vlib.COQ, GEN_REL)
        write_if_changed(path, text)
        # the compiled file must belong to exactly this text: in VERIF_REPO mode the tree is
        # re-synced with preserved mtimes while Gen/*.vo survives, so make cannot tell
        stamp = os.path.join(vlib.BUILD, "c13_gen.sha")
        h = hashlib.sha256(text.encode()).hexdigest()
        if not (os.path.exists(stamp) and open(stamp).read() == h):
            for ext in (".vo", ".vos", ".vok", ".glob"):
                q = path[:-2] + ext
                if os.path.exists(q):
                    os.remove(q)
            with open(stamp, "w") as f:
                f.write(h)
    vlib.coq_makefile = patched


def trace_nontrivial(line, out):
    toks = line.split()
    n = int(toks[1])
    progs = toks[2:2 + n]
    if n < 2 or not any(c in p for p in progs for c in "kKrRiE"):
        return False
    if "b1." in out or "b0." in out:
        return True
    for rec in out.split(" end=")[0].split(","):
        m = re.match(r"\d+[+bx](\d+)\.(\d+)\.(-?\d+)\.", rec)
        if m and int(m.group(3)) >= 1:
            return True
    return False


def main(run):
    run.cov["trusted_base"] = vlib.TRUSTED_COMMON + [
        "model: Lock/LockModel.v - lk_lock_func / lk_unlock_func transcribed by hand from "
        "src/coap_threadsafe.c (compared with the compiled functions step by step on every run)",
        "translator tools/regen_lock.py: C preprocessor (gcc -E) + a small statement parser / path "
        "enumerator with guard tracking; tables CB_EXCEPTIONS, CB_INTERNAL (listed in notes/C13.md)",
        "harness/h_lock.c: ucontext coroutines, simulated mutex (ld --wrap pthread_mutex_lock/unlock/"
        "trylock on &global_lock.mutex, pthread_self); the API wrapper and the coap_io_process wait are "
        "transcribed in the driver (their shape in the tree is checked by the translator)",
        "harness/h_lock_stress.c + ThreadSanitizer (clang) for the data-race / hang search",
    ]
    run.assumptions = [
        "callbacks and waits terminate (thread programs are finite)",
        "pthread mutexes are correct; aligned 32/64-bit loads of global_lock.pid / in_callback are not torn "
        "(coap_lock_lock_func reads them without holding the mutex, see known finding C13-F3)",
        "absence of data races inside the *_lkd code follows from mutual exclusion only for state that is "
        "reached through COAP_API functions; public functions without COAP_API are outside the claim",
    ]
    t0 = time.time()
    # ---- build + (i) configuration
    lib = vlib.build_lib("base")
    drv = vlib.build_driver("h_lock", ["h_lock.c"], "base", wraps=WRAPS)
    rc, out, err = vlib.run_lines(drv, [], ["probe"], timeout=60)
    m = re.match(r"supported=(\d+) macro=(\d+) ifdef=(\d+)", out[0] if out else "")
    if not m:
        raise vlib.BuildError("probe failed: %r %r" % (out[:2], err[-300:]))
    reports = int(m.group(1)) != 0
    _, nm = vlib.sh(["nm", lib["lib"]], check=False)
    compiled = bool(re.search(r"^[0-9a-f]+ T coap_lock_lock_func$", nm, re.M)) and \
        bool(re.search(r"^[0-9a-f]+ T coap_lock_unlock_func$", nm, re.M))
    # ---- (ii)+(iii) translator
    srcs = vlib.lib_sources(lib["cfg"])
    try:
        with vlib.Lock("accfg"):
            ac_dir = regen_lock.ensure_autoconf_cfg(vlib.REPO, vlib.BUILD)
        c, diag = regen_lock.translate(vlib.REPO, lib["cfg"], srcs, compiled, reports, ac_cfg=ac_dir)
    except regen_lock.TranslatorError as e:
        run.violation("translator cannot transcribe the lock macros: %s" % e, str(e), tag="translator",
                      no_input=True)
        return
    rc_cfg = diag["rc"]
    ac_cfg = diag["ac"]
    diffs = regen_lock.differences(c) + regen_lock.differences(rc_cfg, "[COAP_THREAD_RECURSIVE_CHECK variant] ") + \
        regen_lock.differences(ac_cfg, "[autoconf configuration] ")
    if diag["wait"]["stale_event_paths"]:
        diffs.append("coap_io_process_with_fds_lkd hands epoll events to coap_io_do_epoll_lkd that were collected "
                     "while the lock was released (sockets of sessions freed in between are dereferenced): paths %s"
                     % diag["wait"]["stale_event_paths"])
    if (diag["static"]["compiled"], diag["static"]["reports"]) != (compiled, reports):
        diffs.append("the built library (lock functions present=%s, coap_threadsafe_is_supported()=%s) differs from "
                     "what the preprocessor says for the same configuration (%s, %s)"
                     % (compiled, reports, diag["static"]["compiled"], diag["static"]["reports"]))
    run.cov["translator"] = {
        "compiled": compiled, "reports": reports, "macro_paths": diag["macros"], "wait": diag["wait"],
        "api_functions": diag["api"]["functions"], "api_by_verdict": diag["api"]["by_verdict"],
        "callback_sites": diag["callbacks"]["sites"], "callback_by_verdict": diag["callbacks"]["by_verdict"],
        "differences": diffs, "driver_sees_macro": int(m.group(2)),
        "recursive_check_variant": {k: rc_cfg[k] for k in ("compiled", "reports", "api", "keep", "keepret",
                                                             "rel", "relret", "wait")},
        "autoconf_configuration": {k: ac_cfg[k] for k in ("compiled", "reports", "api", "keep", "keepret", "rel",
                                                          "relret", "wait", "_values")}}
    gen_text = regen_lock.render(c, rc_cfg, ac_cfg)
    install_gen(gen_text)
    # ---- proof
    run.prove()
    model = vlib.build_model()
    # ---- cases: corpus, generated, exhaustive small interleavings
    r = tie.rng_for(run, "c13")
    lines = list(vlib.read_corpus("C13"))
    kinds = ["corpus"] * len(lines)
    n = 2500 if run.tier == "quick" else 60000
    replay_stress = None
    if getattr(run, "replay", None):
        # --replay <file>: only the case / the stress command recorded in a replay file
        txt = open(run.replay).read()
        mcase = re.search(r"^case: (lk .*)$", txt, re.M)
        mcmd = re.search(r"h_lock_stress (\d+) (\d+) (\d+)(?: (\d+))?\s+\(variant (\w+)\)", txt)
        lines = [mcase.group(1)] if mcase else []
        kinds = ["replay"] * len(lines)
        n = 0
        if mcmd:
            replay_stress = [(mcmd.group(5), int(mcmd.group(1)), int(mcmd.group(2)), int(mcmd.group(4) or 0))]
    for _ in range(n):
        ln, style = gen_lock.gen_case(r)
        lines.append(ln)
        kinds.append("gen-" + style)
    cat = gen_lock.CATALOGUE if not getattr(run, "replay", None) else []
    lim = 40 if run.tier == "quick" else 3000
    for a in cat:
        for b in cat:
            for s in gen_lock.interleavings(a, b, limit=lim, rng=r):
                lines.append("lk 2 %s %s %s" % (a, b, s))
                kinds.append("interleave")
    om, oc, crashes = tie.run_both(model, drv, lines, timeout=600)
    run.cov["driver_crashes"] = len(crashes)
    # the COAP_THREAD_RECURSIVE_CHECK variant of the lock functions and macros (the autoconf default),
    # compiled into a second driver: same cases, same model
    drv_rc = vlib.build_driver("h_lock_rc", ["h_lock.c"], "base", wraps=WRAPS_RC,
                               extra=["-DCOAP_THREAD_RECURSIVE_CHECK=1", "-DLK_STANDALONE_RC"])
    orc, crashes_rc = vlib.run_lines_robust(drv_rc, [gen_lock.expand_real_calls(ln) for ln in lines], timeout=600)
    run.cov["driver_crashes_rc"] = len(crashes_rc)
    nbad_rc = 0
    for i, ln in enumerate(lines):
        if orc[i] != om[i]:
            nbad_rc += 1
            em = re.search(r" end=(\d) done=(\d+)$", orc[i])
            if nbad_rc <= 2:
                concrete = not em or em.group(1) != "0"
                run.violation("COAP_THREAD_RECURSIVE_CHECK variant of the lock code %s (%s)" %
                              ("violates the lock protocol" if concrete else "disagrees with the model step by step",
                               kinds[i]),
                              "case: %s\nimpl (RECURSIVE_CHECK build of src/coap_threadsafe.c + macros): %s\n"
                              "model: %s\nreplay: echo '<case>' | .build/obj/base/h_lock_rc\n" % (ln, orc[i], om[i]),
                              tag="rc%d" % nbad_rc, no_input=not concrete)
    run.cov["disagreements_rc"] = nbad_rc
    nbad = nor = 0
    maxincb = 0
    for i, ln in enumerate(lines):
        mo, co = om[i], oc[i]
        nt = trace_nontrivial(ln, co)
        run.count(ln, nt)
        run.hist("kind", kinds[i])
        run.hist("threads", ln.split()[1])
        em = re.search(r" end=(\d) done=(\d+)$", co)
        run.hist("impl_verdict", em.group(1) if em else "crash")
        run.hist("blocked_attempts", "yes" if re.search(r"\db\d", co) else "no")
        run.hist("real_api_call", "yes" if "E(" in ln else "no")
        for mm in re.finditer(r"[+b]\d+\.\d+\.(-?\d+)\.", co):
            maxincb = max(maxincb, int(mm.group(1)))
        if i % 900 == 3:
            run.sample({"case": ln[:300], "impl": co[:300]})
        # oracle on the implementation alone
        if not em or em.group(1) != "0":
            nor += 1
            if nor <= 3:
                what = {"1": "two threads inside library state at the same time",
                        "2": "deadlock: threads have work left but nobody can move (lock never released)",
                        "3": "all threads returned but global_lock is not back in its initial state"}.get(
                            em.group(1) if em else "", "driver crashed / no result")
                run.violation("lock protocol violated on the real code (%s): %s" % (kinds[i], what),
                              "case: %s\nimpl trace: %s\nmodel (canonical macros): %s\n"
                              "fields per step: thread, +moved/b blocked/x finished, held.pid.in_callback."
                              "lock_count.accessing-set\nreplay: echo '<case>' | .build/obj/base/h_lock\n"
                              % (ln, co, mo), tag="oracle%d" % nor)
        if mo != co:
            nbad += 1
            if nbad <= 3 and em is not None and em.group(1) == "0":
                run.violation("real lock code and model disagree step by step (%s)" % kinds[i],
                              "case: %s\nmodel: %s\nimpl:  %s\n" % (ln, mo, co), tag="tie%d" % nbad, no_input=True)
    run.cov["disagreements"] = nbad
    run.cov["oracle_failures"] = nor
    run.cov["max_in_callback_seen"] = maxincb
    # what the model predicts under the regenerated configuration for the corpus (reported only)
    if diffs:
        ncorp = len(vlib.read_corpus("C13"))
        pred = vlib.run_lines(model, [], ["lkv gen " + ln[3:] for ln in lines[:ncorp]])[1][:ncorp]
        detail = "\n".join(diffs) + "\n\nmodel under the regenerated configuration, corpus:\n" + \
            "\n".join("%s -> %s" % (a, b) for a, b in zip(lines, pred)) + "\n\n" + \
            json.dumps({"api_not_ok": diag["api"]["bad"],
                        "callbacks_not_wrapped":
                        [s for s in diag["callbacks"]["not_wrapped"] if s["verdict"].startswith("UNWRAPPED")],
                        "callback_scan": {k: diag["callbacks"][k] for k in ("blind", "missing_types")}},
                       indent=1)
        run.violation("locking discipline broken in the tree: " + "; ".join(diffs), detail,
                      tag="config", no_input=True)
    run.cov["tie_seconds"] = round(time.time() - t0, 1)
    # ---- stress on the real API with real threads
    if getattr(run, "replay", None):
        for ln, co in zip(lines, oc):
            vlib.log("replay: %s\n  impl: %s" % (ln, co))
        if replay_stress:
            lock_stress.stress(run, plan=replay_stress, errpaths=False)
        elif re.search(r"h_lock_stress (errpaths|wakeup)", open(run.replay).read()):
            lock_stress.stress(run, plan=[], errpaths=True)
        return
    lock_stress.stress(run)

"""C09 - block-wise transfer delivers the sender's body intact, once, or fails explicitly
(DESIGN.md section 6, C09).  Layer a: leaf functions of coap_block.c against the extracted
model.  Layer b: real client + real server over the scripted network (added below)."""
import re
import vlib
import tie
import gen_block
import blk_e2e

RULE = ("end-to-end transfers between a real client and a real server (non-trivial = at least 4 "
        "datagrams were delivered); leaf cases: option values (all 1- and 2-byte values, boundary/random 3..5-byte), block "
        "size selection, slices at length = k*chunk-1/0/+1 for every size 16..1024, range-array "
        "sequences (all sequences of length <= 5 over 6 block numbers + random with merges and "
        "refusals); non-trivial = the result is not the degenerate one (option refused / empty "
        "slice / a range sequence that never holds two ranges); distinct = distinct case lines")


def replay_lines(run):
    """--replay <file>: only the case lines of a replay file written by this check"""
    path = getattr(run, "replay", None)
    if not path:
        return None
    out = []
    for l in open(path):
        l = l.strip()
        for pre in ("case: ", "(shrunk: ", "(original case: "):
            if l.startswith(pre):
                l = l[len(pre):].rstrip(")")
        if l.split(" ")[0] in ("e2e", "peer") or l.startswith("blk"):
            if l not in out:
                out.append(l)
    return out


def nontrivial(line, out):
    k = line.split()[0]
    if k in ("blkopt", "blkdec"):
        return "r=1" in out
    if k == "blksetup":
        return "r=1" in out
    if k == "blkslice":
        return out.startswith("r=11")
    if k == "blkrb":
        return "," in out
    return True


def leaf(run, model, drv):
    r = tie.rng_for(run, "c09-leaf")
    quick = run.tier == "quick"
    lines = list(vlib.read_corpus("C09"))
    ncorpus = len(lines)
    lines = [l for l in lines if l.split()[0].startswith("blk")]
    rp = replay_lines(run)
    if rp is not None:
        lines = [l for l in rp if l.startswith("blk") and not l.startswith("blkpeer")]
    else:
        lines += gen_block.opt_cases(r, 6000 if quick else 50000, 0 if quick else 8192, 0 if quick else 1)
        lines += gen_block.dec_cases(r, 4000 if quick else 100000, 0 if quick else 37)
        lines += gen_block.setup_cases(r, 2000 if quick else 100000)
        lines += gen_block.fls_cases(r, 3000 if quick else 70000)
        lines += gen_block.slice_cases(r, 300 if quick else 5000)
        lines += gen_block.rb_exhaustive(6, 5 if quick else 6)
        lines += gen_block.rb_random(r, 20000 if quick else 200000)
    if not lines:
        return 0
    om, oc, crashes = tie.run_both(model, drv, lines)
    run.cov["leaf_driver_crashes"] = len(crashes)
    nbad = 0
    for i, ln in enumerate(lines):
        mo, co = om[i], oc[i]
        kind = ln.split()[0]
        run.count(ln, nontrivial(ln, co))
        run.hist("leaf_kind", kind)
        if kind == "blkrb":
            run.hist("rb_refusals", "some" if re.search(r":\d\d0\[", co) else "none")
        if i % 9973 == 7:
            run.sample({"case": ln[:200], "impl": co[:200]})
        if mo != co:
            nbad += 1
            if nbad <= 3:
                what = ("implementation crashes (%s)" % co if co.startswith("CRASH") else
                        "%s: implementation differs from the proved model" % kind)
                small = ln
                if kind == "blkrb":
                    def still(pref, cand):
                        if not cand:
                            return False
                        l2 = "blkrb " + " ".join(c[0] for c in cand)
                        a, b, _ = tie.run_both(model, drv, [l2])
                        return a[0] != b[0]
                    ops = tie.shrink_ops(None, [[t] for t in ln.split()[1:]], still)
                    small = "blkrb " + " ".join(o[0] for o in ops)
                a, b, _ = tie.run_both(model, drv, [small])
                run.violation(what, "case: %s\nmodel: %s\nimpl : %s\n(original case: %s)\n" %
                              (small, a[0], b[0], ln), tag="leaf%d" % nbad)
    run.cov["leaf_cases"] = len(lines)
    run.cov["leaf_disagreements"] = nbad
    run.cov["corpus_cases"] = ncorpus
    return nbad


E2E_WRAPS = ["coap_ticks", "coap_socket_send", "coap_socket_recv"]


def e2e_cases(run):
    rp = replay_lines(run)
    if rp is not None:
        return [l for l in rp if l.startswith("e2e ")]
    r = tie.rng_for(run, "c09-e2e")
    quick = run.tier == "quick"
    lines = [l for l in vlib.read_corpus("C09") if l.startswith("e2e ")]
    lines += gen_block.e2e_boundary(r, full=not quick)
    lines += gen_block.e2e_small_and_large(r, 12 if quick else 300)
    lines += gen_block.e2e_all_lengths(r, 200 if quick else 4200, [0, 1, 2] if quick else gen_block.SZX)
    lines += gen_block.e2e_mtu(r)
    bodies = [("b1", 40, 0, 0, 1), ("b2", 40, 0, 0, 1), ("b1", 33, 0, 1, 1), ("b2", 48, 0, 1, 0)]
    lines += gen_block.e2e_sched_exhaustive(r, ".x2", 5 if quick else 8, bodies[:2])
    lines += gen_block.e2e_sched_exhaustive(r, ".xrh", 4 if quick else 6, bodies[2:])
    lines += gen_block.e2e_sched_random(r, 6000 if quick else 30000)
    lines += gen_block.e2e_two_uploads(r, 800 if quick else 8000)
    lines += gen_block.e2e_slow(r, 120 if quick else 1500)
    lines += gen_block.e2e_wide(r, 600 if quick else 8000)
    lines += gen_block.e2e_two_downloads(r, 500 if quick else 6000)
    return lines


def classify(run, case, fails):
    """split the oracle's failures into known findings and violations"""
    viol = []
    for f in fails:
        tag = f.split()[0]
        kf = run.match_known(lambda k: k.get("signature", {}).get("oracle") == tag)
        if kf:
            run.known(kf)
            run.hist("e2e_known", kf["id"])
        else:
            viol.append(f)
    return viol


def e2e(run, model):
    drv = vlib.build_driver("h_block_e2e", ["h_block_e2e.c"], wraps=E2E_WRAPS)
    lines = e2e_cases(run)
    outs, crashes = vlib.run_lines_robust(drv, lines, timeout=1500)
    run.cov["e2e_driver_crashes"] = len(crashes)
    nbad = 0
    # correspondence: the wire traffic and the receivers' decisions against the extracted model
    mlines, mexp = [], []
    tie_max = 4200 if run.tier == "quick" else 9000
    for ln, out in zip(lines, outs):
        case = blk_e2e.Case(ln)
        if case.len > tie_max:
            continue          # (the model cuts slices of a list: quadratic in the body length)
        w, rcv, obs = blk_e2e.tie_lines(case, out)
        if w:
            mlines.append(w)
            mexp.append((ln, "wire", "k" * (len(w.split()) - 3)))
        if rcv:
            mlines.append(rcv)
            mexp.append((ln, "recv", obs))
    # timers: the client-side state must live exactly as long as the timed model says
    tlines, texp = [], []
    for ln, out in zip(lines, outs):
        case = blk_e2e.Case(ln)
        tl, obs = blk_e2e.timer_line(case, out)
        if tl:
            tlines.append(tl)
            texp.append((ln, obs))
    tout, _ = vlib.run_lines_robust(model, tlines, timeout=600)
    nt = 0
    for tl, (ln, obs), got in zip(tlines, texp, tout):
        run.hist("e2e_timer", got.split("@")[0])
        if (got == "alive") != (obs == "alive"):
            nt += 1
            if nt <= 2:
                run.violation("the client-side transfer state was %s although the timed model says %s "
                              "(state must be kept exactly while the transfer makes progress)" %
                              ("deleted" if obs != "alive" else "kept", got),
                              "case: %s\nmodel case: %s\nmodel: %s\nimpl : %s\n" % (ln, tl[:4000], got, obs),
                              tag="timer%d" % nt)
    run.cov["e2e_timer_cases"] = len(tlines)
    run.cov["e2e_timer_disagreements"] = nt
    mout, _ = vlib.run_lines_robust(model, mlines, timeout=1500)
    ntie = 0
    for ml, (ln, kind, exp), got in zip(mlines, mexp, mout):
        run.hist("e2e_tie", kind)
        if got != exp:
            ntie += 1
            if ntie <= 3:
                what = ("a block message on the wire is not the slice the model cuts" if kind == "wire"
                        else "the receiver did not do what the reassembly model does")
                run.violation("end-to-end correspondence: " + what,
                              "case: %s\nmodel case: %s\nmodel : %s\nimpl  : %s\n" %
                              (ln, ml[:3000], got[:1500], exp[:1500]), tag="e2etie%d" % ntie,
                              no_input=True)
    run.cov["e2e_tie_cases"] = len(mlines)
    run.cov["e2e_tie_disagreements"] = ntie
    for i, (ln, out) in enumerate(zip(lines, outs)):
        case, fails = blk_e2e.run_oracle(ln, out)
        blocks = out.count(" RX:")
        run.count(ln, blocks >= 4)
        run.hist("e2e_dir", case.dir + ("-con" if case.type == 0 else "-non"))
        run.hist("e2e_sched", "lossless" if case.lossless() else "faulty")
        run.hist("e2e_len", "0" if case.len == 0 else "<=1024" if case.len <= 1024 else
                 "<=8192" if case.len <= 8192 else ">8192")
        for o in case.opts:
            run.hist("e2e_option", o + ("=" + case.opts[o] if o in ("meth", "tok") else ""))
        run.hist("e2e_outcome", "delivered" if (" HS:3:" in out and case.dir in ("b1", "b11")) or
                 (" HC:69:" in out and case.dir == "b2") else "not-delivered")
        if i % 397 == 5:
            run.sample({"case": ln, "impl": out[:240] + " ..."})
        viol = classify(run, case, fails)
        if viol:
            nbad += 1
            if nbad <= 4:
                run.violation("end-to-end transfer violates the property: " + "; ".join(viol)[:400],
                              "case: %s\nfailures:\n  %s\ntrace:\n  %s\n" %
                              (ln, "\n  ".join(viol), out.replace(" ", "\n  ")[:20000]),
                              tag="e2e%d" % nbad)
    run.cov["e2e_cases"] = len(lines)
    run.cov["e2e_violating_cases"] = nbad
    return nbad


def peer(run, model):
    """scripted peer: hostile Block1 / Block2 sequences into the real server / client against
    the lg_srcv table model (blk_srv_recv) and the ETag + reassembly model (blk_cli_recv)"""
    drv = vlib.build_driver("h_block_e2e", ["h_block_e2e.c"], wraps=E2E_WRAPS)
    r = tie.rng_for(run, "c09-peer")
    quick = run.tier == "quick"
    cases = []
    rp = replay_lines(run)
    for l in (vlib.read_corpus("C09") if rp is None else rp):
        if l.startswith("peer ") and not l.startswith("peer g2 "):
            t = l.split()
            cases.append((l, "blkpeer %s %s %s %s %s" % (t[1], t[2], t[3], "0" if t[4] == "7" else t[4],
                                                        " ".join(t[6:]))))
    ncons = len(cases)
    if rp is None:
        cases += gen_block.peer_cases(r, 3000 if quick else 20000, 0.0)
        cases += gen_block.peer_reject_cases(r, 400 if quick else 4000)
        ncons = len(cases)            # up to here the peer is honest: the oracle applies
        cases += gen_block.peer_cases(r, 4000 if quick else 30000, 0.35)
        cases += gen_block.peer_cases(r, 2000 if quick else 10000, 0.7)
    mo, _ = vlib.run_lines_robust(model, [m for d, m in cases], timeout=1500)
    co, crashes = vlib.run_lines_robust(drv, [d for d, m in cases], timeout=1500)
    run.cov["peer_driver_crashes"] = len(crashes)
    nbad = 0
    nmix = 0
    for ci, ((d, m), a, b) in enumerate(zip(cases, mo, co)):
        aa, bb = a.split(), b.split()
        run.count(d, len(bb) >= 5)
        if ci < ncons and any(x.endswith(":!") for x in bb):
            # implementation-only oracle: every block came from an honest sender (each
            # Request-Tag / ETag has its own body), yet a delivered body is not the body of the
            # transfer it was delivered for
            nmix += 1
            if nmix <= 2:
                run.violation("a delivered body is not the body of its transfer (blocks of two transfers "
                              "were mixed, or bytes are wrong)",
                              "case: %s\nimpl : %s\nmodel: %s\n" % (d, b, a), tag="peermix%d" % nmix)
        run.hist("peer_dir", d.split()[1])
        for x in bb:
            run.hist("peer_outcome", x[0])
        # "D?": the model delivered storage that was never written (a hole that the inconsistent
        # peer left): the content cannot be compared, the decision can
        same = len(aa) == len(bb) and all(x == y or (x == "D?" and y.startswith("D:")) for x, y in zip(aa, bb))
        if not same:
            nbad += 1
            if nbad <= 3:
                what = ("implementation crashes (%s)" % b if b.startswith("CRASH") else
                        "scripted peer: the receiver's decisions / delivered bytes differ from the model")
                items = d.split()[6:]

                def still(pref, cand):
                    if not cand:
                        return False
                    t = d.split()
                    d2 = " ".join(t[:6] + [c[0] for c in cand])
                    m2 = " ".join(m.split()[:5] + [c[0] for c in cand])
                    x, _ = vlib.run_lines_robust(model, [m2])
                    y, _ = vlib.run_lines_robust(drv, [d2])
                    return x[0] != y[0] and "D?" not in x[0]
                ops = tie.shrink_ops(None, [[t] for t in items], still, max_steps=120)
                small = " ".join(d.split()[:6] + [o[0] for o in ops]) if ops else d
                run.violation(what, "case: %s\nmodel case: %s\nmodel: %s\nimpl : %s\n(shrunk: %s)\n" %
                              (d, m, a, b, small), tag="peer%d" % nbad, no_input=True)
    # the download side: raw GETs with Block2 and different queries into the real server; every
    # block it returns for "?v=n" must be a block of body n (oracle on the implementation alone)
    g2 = [l for l in (vlib.read_corpus("C09") if rp is None else rp) if l.startswith("peer g2 ")]
    if rp is None:
        g2 += gen_block.peer_g2_cases(r, 1500 if quick else 20000)
    go, gcr = vlib.run_lines_robust(drv, g2, timeout=1500) if g2 else ([], [])
    gm = []
    for d in g2:
        t = d.split()
        gm.append("blkpeerg2 %s %s %s %s" % (t[2], t[3], "0" if t[4] == "7" else t[4], " ".join(t[5:])))
    gmo, _ = vlib.run_lines_robust(model, gm, timeout=1500) if gm else ([], [])
    ng2 = 0
    ng2tie = 0
    nrel = 0
    for d, b, mline, mo_ in zip(g2, go, gm, gmo):
        cnt = re.search(r" ADL:(\d+) REL:(\d+)$", b)
        if cnt:
            b = b[:cnt.start()]
            if cnt.group(1) != cnt.group(2):
                nrel += 1
                if nrel <= 2:
                    run.violation("O7 the release callback ran %s times for %s coap_add_data_large_response calls"
                                  % (cnt.group(2), cnt.group(1)),
                                  "case: %s\nimpl : %s ADL:%s REL:%s\n" % (d, b, cnt.group(1), cnt.group(2)),
                                  tag="peerg2rel%d" % nrel)
        if mo_ != b:
            ng2tie += 1
            if ng2tie <= 2:
                run.violation("scripted GET peer: the server's replies differ from the lg_xmit table model",
                              "case: %s\nmodel case: %s\nmodel: %s\nimpl : %s\n" % (d, mline, mo_, b),
                              tag="peerg2tie%d" % ng2tie, no_input=True)
        run.count(d, b.count("R:69") >= 3)
        run.hist("peer_dir", "g2")
        if ":!" in b or b.startswith("CRASH") or "END" not in b:
            ng2 += 1
            if ng2 <= 2:
                run.violation("the server answered a Block2 GET with bytes that are not the body for that "
                              "request's query (stored large responses of different queries were confused)"
                              if ":!" in b else "scripted GET peer: driver crashed",
                              "case: %s\nimpl : %s\n" % (d, b), tag="peerg2_%d" % ng2)
    run.cov["peer_g2_cases"] = len(g2)
    run.cov["peer_g2_release_mismatch"] = nrel
    run.cov["peer_g2_wrong"] = ng2
    run.cov["peer_g2_tie_disagreements"] = ng2tie
    run.cov["peer_cases"] = len(cases)
    run.cov["peer_honest_cases"] = ncons
    run.cov["peer_mixed_deliveries"] = nmix
    run.cov["peer_disagreements"] = nbad


def sanitized(run):
    """thorough tier: the end-to-end and scripted-peer traffic once more with libcoap and the
    driver compiled with ASan + UBSan (a memory error in the block code aborts the driver)"""
    drv = vlib.build_driver("h_block_e2e", ["h_block_e2e.c"], variant="asan", wraps=E2E_WRAPS)
    r = tie.rng_for(run, "c09-asan")
    lines = [l for l in vlib.read_corpus("C09") if l.startswith(("e2e ", "peer "))]
    lines += gen_block.e2e_boundary(r)
    lines += gen_block.e2e_sched_random(r, 3000)
    lines += [d for d, m in gen_block.peer_cases(r, 4000, 0.5)]
    outs, crashes = vlib.run_lines_robust(drv, lines, timeout=1500,
                                          env={"ASAN_OPTIONS": "detect_leaks=1:abort_on_error=0",
                                               "UBSAN_OPTIONS": "halt_on_error=1"})
    run.cov["asan_cases"] = len(lines)
    run.cov["asan_crashes"] = len(crashes)
    for (idx, rc, err) in crashes[:3]:
        run.violation("sanitizer build: the driver aborted (rc=%d)" % rc,
                      "case: %s\n%s\n" % (lines[idx], err), tag="asan%d" % idx)


def main(run):
    run.cov["trusted_base"] = vlib.TRUSTED_COMMON + [
        "model: Block/BlockOpt.v Block/Slices.v Block/RecBlocks.v (transcriptions of the option "
        "codec, setup_block_b, update_received_blocks/check_*; reassembly cores of "
        "coap_handle_request_put_block / coap_handle_response_get_block in single-body mode)",
        "harness/h_block.c includes src/coap_block.c to reach its static helpers"]
    run.assumptions = ["allocation never fails (C18 covers failures)",
                       "UDP sessions: no BERT (SZX 7 refused); Q-Block (RFC 9177) switched off"]
    import time
    t0 = time.time()
    phases = {}

    def mark(name):
        nonlocal t0
        phases[name] = round(time.time() - t0, 1)
        vlib.log("C09 phase %s: %.1f s" % (name, phases[name]))
        t0 = time.time()
    run.prove()
    mark("prove")
    model = vlib.build_model()
    drv = vlib.build_driver("h_block", ["h_block.c"])
    mark("build")
    leaf(run, model, drv)
    mark("leaf")
    e2e(run, model)
    mark("e2e")
    peer(run, model)
    mark("peer")
    if run.tier != "quick" and replay_lines(run) is None:
        sanitized(run)
        mark("sanitized")
    run.cov["phase_seconds"] = phases
    vlib.log("C09 phases: %s" % phases)

"""C01 - wire codec round trip for every API-built message (DESIGN.md section 6, C01)."""
import re
import vlib
import tie
import gen_wire

RULE = ("op lists {Token, Option, Data} over boundary-aimed numbers/lengths, 3 framings, tight "
        "max_size; a case is non-trivial when >= 2 options were accepted and the serialised bytes "
        "re-parse; distinct = distinct case lines")


def in_scope(model_out):
    """the property's hypothesis: what was built re-parses in the model (values within limits,
    Empty message really empty) - everything else is compared too, but reported separately"""
    return "reparse=[REJECT]" not in model_out


def impl_oracle(c_out):
    """implementation-only oracle: re-parse of the serialised bytes = what the accessors showed
    before serialisation (type and mid are not carried by TCP/WS)"""
    m = re.match(r"rets=\S+ built=\[(.*?)\] wire=\S+ reparse=\[(.*?)\]$", c_out)
    if not m:
        return False
    return m.group(1), m.group(2)


def norm(d, proto):
    if proto == "udp":
        return d
    return re.sub(r"^t=\d+ (c=\d+) m=\d+", r"t=0 \1 m=0", d)


def main(run):
    run.cov["trusted_base"] = vlib.TRUSTED_COMMON + [
        "model: Wire/OptCodec.v Wire/Pdu.v Wire/Build.v (abstract builder) and Wire/InsertBytes.v "
        "(the in-place byte edit of coap_insert_option transcribed branch by branch, proved to "
        "refine the abstract insert - C01_insert_bytes_refine - and tied to the C on parsed "
        "datagrams: command bins)"]
    run.assumptions = ["allocation never fails (C18 covers failures)",
                       "option values <= 65804 bytes (the encoder wraps silently above; outside the property)"]
    run.prove()
    model = vlib.build_model()
    drv = vlib.build_driver("h_wire", ["h_wire.c"])
    r = tie.rng_for(run, "c01")
    n = 3000 if run.tier == "quick" else 60000
    cases = []
    corpus = vlib.read_corpus("C01")
    for ln in corpus:
        cases.append((None, None, ln))
    for i in range(n):
        hdr, ops = gen_wire.gen_build_case(r, allow_big=(i % 10 == 0))
        cases.append((hdr, ops, gen_wire.line_of(hdr, ops)))
    # options+payload length exactly at every boundary of the four RFC 8323 Len forms
    nf = 0
    for rep in range(2 if run.tier == "quick" else 12):
        for tgt in gen_wire.FRAME_BND:
            for proto in ("tcp", "tcp", "ws", "udp")[:2 if tgt > 1000 and run.tier == "quick" and rep else 4]:
                hdr, ops = gen_wire.gen_framelen_case(r, tgt, proto)
                cases.append((hdr, ops, gen_wire.line_of(hdr, ops)))
                nf += 1
    run.cov["frame_length_boundary_cases"] = nf
    lines = [c[2] for c in cases]
    om, oc, crashes = tie.run_both(model, drv, lines)
    run.cov["driver_crashes"] = len(crashes)
    nbad = 0
    for i, ln in enumerate(lines):
        mo = om[i] if i < len(om) else "<missing>"
        co = oc[i] if i < len(oc) else "<missing>"
        proto = ln.split()[1]
        acc = mo.split(" ")[0].count("1")
        nontriv = in_scope(mo) and acc >= 3 and ",".join(mo.split("o=")[1:2]).count(":") >= 2
        run.count(ln, nontriv)
        run.hist("proto", proto)
        run.hist("ops", min(len(ln.split()) // 3, 12))
        run.hist("model_reparse", "ok" if in_scope(mo) else "reject")
        if "0" in mo.split(" ")[0]:
            run.hist("refusals", "some")
        if i % 500 == 3:
            run.sample({"case": ln[:300], "impl": co[:300]})
        bad = None
        o = impl_oracle(co)
        if o and in_scope(mo) and norm(o[0], proto) != o[1]:
            bad = "implementation round trip fails: built=[%s] reparse=[%s]" % o
        elif co.startswith("CRASH"):
            bad = "implementation crashes (%s)" % co
        elif mo != co:
            bad = "implementation differs from the proved model"
        if bad:
            nbad += 1
            if nbad <= 3:
                hdr, ops, _ = cases[i]
                small = ln
                if ops is not None:
                    def still(h, cand):
                        l2 = gen_wire.line_of(h, cand)
                        a, b, _ = tie.run_both(model, drv, [l2])
                        return a[0] != b[0]
                    ops2 = tie.shrink_ops(hdr, ops, still)
                    small = gen_wire.line_of(hdr, ops2)
                a, b, _ = tie.run_both(model, drv, [small])
                run.violation(bad, "case: %s\nmodel: %s\nimpl : %s\n(original case: %s)\n" %
                              (small, a[0], b[0], ln), tag="tie%d" % nbad,
                              no_input=not in_scope(a[0]))
    # exhaustive leaf sweep: every delta 0..65535 x boundary value lengths through
    # coap_opt_encode + coap_opt_parse (the domain of C01_opt_roundtrip's delta is finite)
    lens = [0, 13, 269] if run.tier == "quick" else [0, 1, 12, 13, 14, 268, 269, 270, 65804]
    sweep = ["optrt %d %d" % (d, l) for l in lens for d in range(65536)]
    sm, sc, scr = tie.run_both(model, drv, sweep)
    sbad = [(sweep[i], sm[i], sc[i]) for i in range(len(sweep)) if sm[i] != sc[i]]
    run.cov["leaf_sweep"] = {"cases": len(sweep), "exhaustive_over": "delta 0..65535 x value length in %s" % lens,
                             "disagreements": len(sbad)}
    run.cov["evaluations"] += len(sweep)
    for ln, a, b in sbad[:2]:
        nbad += 1
        run.violation("option header codec differs from the proved model (leaf sweep)",
                      "case: %s\nmodel: %s\nimpl : %s\n" % (ln, a, b), tag="sweep%d" % nbad)
    # byte-level tie of coap_insert_option (Wire/InsertBytes.v, theorem C01_insert_bytes_refine):
    # the in-place edit on parsed datagrams, all six header-patch classes
    bl = [gen_wire.gen_bins_case(r) for _ in range(1500 if run.tier == "quick" else 40000)]
    bm, bc, _ = tie.run_both(model, drv, bl)
    bbad = [(bl[i], bm[i], bc[i]) for i in range(len(bl)) if bm[i] != bc[i]]
    from collections import Counter
    run.cov["insert_bytes_tie"] = {"cases": len(bl), "disagreements": len(bbad),
                                   "outcomes": dict(Counter("insert" if o.startswith("r=") else o.split(" ")[0] for o in bc))}
    run.cov["evaluations"] += len(bl)
    for ln, a, b in bbad[:2]:
        nbad += 1
        run.violation("coap_insert_option's in-place edit differs from the proved byte-level model",
                      "case: %s\nmodel: %s\nimpl : %s\n" % (ln, a, b), tag="bins%d" % nbad)
    run.cov["disagreements"] = nbad
    run.cov["corpus_cases"] = len(corpus)
    if run.tier == "thorough":
        # independent re-check of the compiled proofs (coqchk: kernel only, reports axioms)
        rc, out = vlib.sh(["coqchk", "-silent", "-o", "-Q", ".", "LibcoapV", "LibcoapV.Properties_C01"],
                          cwd=vlib.COQ, timeout=1800, check=False)
        ok = rc == 0 and "* Axioms: <none>" in out
        run.cov["coqchk"] = "ok, axioms: none" if ok else out[-600:]
        if not ok:
            run.violation("coqchk does not accept Properties_C01.vo (or finds axioms)", out[-4000:],
                          tag="coqchk", no_input=True)


"""C17 - persisted observe state survives a crash at any point and is restored on restart
(DESIGN.md section 6, C17; notes/C17.md).

Tie: every case line (a history of server events and/or direct updater calls, with process
kills) is run by harness/h_persist.c on the real code (stdio interposed by ld --wrap, server
processes forked and killed before each of their stdio calls) and by the extracted Coq model;
the stdio call logs, the files left by every kill and what a fresh process restores from them
must be equal.  Oracle (implementation only): see ps_oracle.py."""
import os
import shutil
import concurrent.futures

import vlib
import tie
import gen_persist as g
import ps_oracle

RULE = ("histories of server events (PUT creating a dynamic resource, DELETE, GET Observe:0/1 from "
        "4 clients with token/query variants, notifications, process kills followed by restart) "
        "and of direct updater calls with arbitrary binary records, save_freq 1..10, all subsets of "
        "the three files, buffered and unbuffered stdio; for the last process of every history a "
        "kill before each stdio call and at its end. One evaluation = one (history, kill point). "
        "non-trivial = the killed process had made at least one rename before or would make one "
        "after the kill point (i.e. the kill lies inside or after a real update); distinct = "
        "distinct (history, kill point)")

WRAPS = ["coap_ticks", "coap_socket_send", "coap_socket_recv", "fopen", "fread", "fwrite",
         "fprintf", "fgets", "fflush", "fclose", "rename", "remove", "coap_malloc_type",
         "coap_free_type"]
PORT = 35683          # default; main() replaces it by a UDP port that is free right now


def run_driver(exe, lines, scratch, timeout=1800):
    os.makedirs(scratch, exist_ok=True)
    outs, crashes = vlib.run_lines_robust(exe, lines, timeout=timeout,
                                          env={"VERIF_PS_DIR": scratch,
                                               "ASAN_OPTIONS": "detect_leaks=0"})
    shutil.rmtree(scratch, ignore_errors=True)
    return outs, crashes


def run_parallel(exe, lines, scratch_root, workers):
    chunks = [lines[i::workers] for i in range(workers)]
    res = [None] * len(lines)
    ncr = 0
    with concurrent.futures.ThreadPoolExecutor(max_workers=workers) as ex:
        futs = {ex.submit(run_driver, exe, ch, os.path.join(scratch_root, "w%d" % i)): i
                for i, ch in enumerate(chunks) if ch}
        for f in concurrent.futures.as_completed(futs):
            i = futs[f]
            outs, crashes = f.result()
            ncr += len(crashes)
            for j, o in enumerate(outs):
                res[i + j * workers] = o
    return res, ncr


def model_parallel(exe, lines, workers):
    chunks = [lines[i::workers] for i in range(workers)]
    res = [None] * len(lines)
    with concurrent.futures.ThreadPoolExecutor(max_workers=workers) as ex:
        futs = {ex.submit(vlib.run_lines_robust, exe, ch, 1800): i
                for i, ch in enumerate(chunks) if ch}
        for f in concurrent.futures.as_completed(futs):
            i = futs[f]
            outs, _ = f.result()
            for j, o in enumerate(outs):
                res[i + j * workers] = o
    return res


def first_diff(a, b):
    fa, fb = ps_oracle.split_fields(a), ps_oracle.split_fields(b)
    for i in range(max(len(fa), len(fb))):
        x = fa[i] if i < len(fa) else "<missing>"
        y = fb[i] if i < len(fb) else "<missing>"
        if x != y:
            j = 0
            while j < min(len(x), len(y)) and x[j] == y[j]:
                j += 1
            name = x.split("=")[0]
            return "field %s at char %d: impl ...%s  model ...%s" % (
                name, j, x[max(0, j - 60):j + 60], y[max(0, j - 60):j + 60])
    return "equal"


def free_udp_port():
    import socket
    for _ in range(20):
        sk = socket.socket(socket.AF_INET, socket.SOCK_DGRAM)
        try:
            sk.bind(("127.0.0.1", 0))
            p = sk.getsockname()[1]
        finally:
            sk.close()
        if 20000 <= p <= 60000:
            return p
    return 35683


def gen_cases(run, layout, n_hist, n_raw):
    r = tie.rng_for(run, "c17")
    lines, kinds = [], []
    for ln in vlib.read_corpus("C17"):
        lines.append(ps_oracle.with_layout(ln, layout, PORT))
        kinds.append("corpus")
    for i in range(n_hist):
        hg = g.HistGen(r, max_events=r.choice([4, 6, 9, 12]))
        evs = hg.gen()
        cfg = r.choice(["doc"] * 6 + ["do-", "d-c", "-oc", "d--", "-o-", "--c"])
        # resource flags of the application (5th character): none of them may change what is
        # persisted or restored
        cfg += r.choice(["", "", "-w", "-w", "-m", "-f", "-a"])
        # D = the C library's own buffering (only the persistent files are compared then)
        buf = r.choice("LLE") if run.tier == "quick" else r.choice("LLEED")
        freq = (i % 10) + 1
        lines.append(g.case_line(layout, "E", buf, freq, cfg, PORT, evs))
        kinds.append("history")
    for i in range(n_raw):
        evs = g.raw_history(r, layout, big=(run.tier != "quick" and i % 25 == 0))
        lines.append(g.case_line(layout, "E", r.choice("LE") if run.tier == "quick" else r.choice("LED"),
                                 r.randint(1, 10), "doc", PORT, evs))
        kinds.append("raw")
    return lines, kinds


def main(run):
    run.cov["trusted_base"] = vlib.TRUSTED_COMMON + [
        "model: coq/Persist/Fs.v (stdio + file-system semantics: rename(2) replaces atomically; a "
        "killed process loses exactly its streams, what fflush/fclose/an unbuffered write handed to "
        "the kernel stays; fread(p,0,1,f) = fwrite(p,0,1,f) = 0; a stream opened \"a\" cannot be read)",
        "model: coq/Persist/Updaters.v, Server.v transcribed by hand from src/coap_subscribe.c and "
        "the call-outs in src/coap_resource.c; tied by the differential run on every invocation",
        "ocaml/d_persist.ml: classification of a datagram into the abstract event (through the "
        "extracted wire parser of C03), printing",
        "harness: ld --wrap of stdio/rename/remove, coap_malloc_type (subscriptions come from an "
        "arena, lowest free slot, so that record keys are a function of the history), vnet.h",
    ]
    run.assumptions = [
        "process death, not power loss: no fsync in the code, the kernel keeps what it was handed",
        "no I/O errors (disk full, EIO) and no allocation failures inside the persistence code",
        "the three file names are distinct and none is another's <name>.tmp",
        "Observe counter below 2^24 - save_freq (no wrap inside the window considered)",
        "the application's unknown-resource handler is a deterministic function of the request",
    ]
    run.prove()
    model = vlib.build_model()
    drv = vlib.build_driver("h_persist", ["h_persist.c"], wraps=WRAPS)
    global PORT
    PORT = free_udp_port()
    scratch_root = os.path.join(vlib.BUILD, "persist-scratch-%d" % os.getpid())
    shutil.rmtree(scratch_root, ignore_errors=True)
    lay_out, _ = run_driver(drv, ["layout %d" % PORT], os.path.join(scratch_root, "layout"))
    layout = g.Layout(lay_out[0])
    run.cov["layout"] = {"sizeof_coap_address_t": layout.la, "sizeof_coap_addr_tuple_t": layout.lt,
                         **layout.extra}
    if layout.extra.get("key") != "8" or layout.extra.get("len") != "8":
        run.violation("platform layout differs from the model (pointer/ssize_t not 8 bytes)",
                      lay_out[0], tag="layout", no_input=True)
        return
    quick = run.tier == "quick"
    if getattr(run, "replay", None):
        # --replay <file written by an earlier run>: only the case of that file
        lines, kinds = [], []
        for ln in open(run.replay):
            if ln.startswith("case: "):
                short = ps_oracle.strip_layout(ln[6:].strip())
                lines.append(ps_oracle.with_layout(short, layout, PORT))
                kinds.append("replay")
    else:
        lines, kinds = gen_cases(run, layout, 36 if quick else 600, 24 if quick else 400)
    workers = 4
    oc, ncrash = run_parallel(drv, lines, scratch_root, workers)
    om = model_parallel(model, lines, workers)
    run.cov["driver_crashes"] = ncrash
    nbad = ntie = 0
    for i, ln in enumerate(lines):
        co, mo = oc[i] or "<none>", om[i] or "<none>"
        short = ps_oracle.strip_layout(ln)
        info = ps_oracle.parse_output(co)
        # counting: one evaluation per (history, kill point)
        for k, nontrivial in ps_oracle.kill_points(info):
            run.count("%s#%d" % (short, k), nontrivial)
        run.hist("kind", kinds[i])
        run.hist("cfg", ln.split()[4])
        run.hist("buffering", ln.split()[2])
        run.hist("save_freq", ln.split()[3])
        for ek in ps_oracle.event_kinds(short):
            run.hist("events", ek)
        run.hist("kill_points_per_history", min(len(info.get("crash", [])) // 50 * 50, 1000))
        if i % 9 == 1:
            run.sample({"case": short[:300], "stdio_calls_last_process": info.get("n"),
                        "kill_points": len(info.get("crash", [])),
                        "distinct_disk_states": len(info.get("st", {}))})
        # oracle on the implementation's behaviour alone
        for what, known_sig in ps_oracle.check(ln, info):
            f = run.match_known(lambda f: known_sig is not None and
                                f.get("signature", {}).get("kind") == known_sig)
            if f:
                run.known(f, what[:160])
                continue
            nbad += 1
            if nbad <= 3:
                run.violation("persistence property fails on the implementation (%s): %s"
                              % (kinds[i], what[:300]),
                              "case: %s\n\n%s\n\nimpl output:\n%s\n" % (ln, what, co[:20000]),
                              tag="oracle%d" % nbad)
        # tie
        if co != mo:
            ntie += 1
            if ntie <= 3:
                d = first_diff(co, mo)
                run.violation("implementation and model disagree (%s): %s" % (kinds[i], d[:300]),
                              "case: %s\n\n%s\n\nimpl:\n%s\n\nmodel:\n%s\n" %
                              (ln, d, co[:20000], mo[:20000]),
                              tag="tie%d" % ntie, no_input=(nbad == 0))
    # thorough: the same cases again with libcoap and the driver under ASan + UBSan (memory
    # errors in the persistence paths kill the server child; the outputs must be the same)
    if not quick and not getattr(run, "replay", None):
        drv_a = vlib.build_driver("h_persist", ["h_persist.c"], variant="asan", wraps=WRAPS)
        sub = [i for i, k in enumerate(kinds) if k == "corpus"] + \
              [i for i, k in enumerate(kinds) if k != "corpus"][:40]
        oa, _ = run_parallel(drv_a, [lines[i] for i in sub], scratch_root + "-asan", workers)
        nsan = 0
        for j, i in enumerate(sub):
            if (oa[j] or "") != (oc[i] or ""):
                nsan += 1
                if nsan <= 2:
                    run.violation("sanitizer build behaves differently / server child died (%s): %s"
                                  % (kinds[i], first_diff(oa[j] or "<none>", oc[i] or "<none>")[:300]),
                                  "case: %s\n\nasan build:\n%s\n\nplain build:\n%s\n"
                                  % (lines[i], (oa[j] or "")[:20000], (oc[i] or "")[:20000]),
                                  tag="asan%d" % nsan)
        run.cov["sanitizer_cases"] = len(sub)
        run.cov["sanitizer_differences"] = nsan
    run.cov["oracle_failures"] = nbad
    run.cov["disagreements"] = ntie
    shutil.rmtree(scratch_root, ignore_errors=True)

"""C14 - OSCORE protection round-trips, matches RFC 8613, and any tampering is rejected
(DESIGN.md section 6, C14).

tie     : every generated exchange runs through libcoap (harness/h_oscore.c) and through the
          extracted Gallina reference (coq/Oscore/Protect.v): derived keys / common IV, protected
          request and response datagrams (byte-exact), messages handed out by the peers.
oracle  : on libcoap's output alone - the peer's result equals the original message (Observe of a
          notification = low bytes of the notification's Partial IV); every single-bit flip and
          every truncation of each protected datagram, delivered to a fresh endpoint, is rejected
          whenever it touches the OSCORE option value or the ciphertext; a message protected under
          a different context is rejected; rejected deliveries answer with an error or not at all.
"""
import re
import vlib
import tie
import gen_oscore as G

RULE = ("full exchanges (context, request, response) with ids 0..7 bytes, optional salt / id "
        "context, sequence numbers at the Partial IV length boundaries, class E/U/both options, "
        "payload 0..1024; an exchange is non-trivial when both protected datagrams verify at the "
        "peer in the reference and the request carries >= 2 options or a payload; distinct = "
        "distinct case lines.  Tamper deliveries are counted in coverage.tamper, not here.")

WRAPS = ["coap_send_internal", "coap_send_ack_lkd", "coap_handle_event_lkd"]

FIELD = re.compile(r"(ck|p1|d1|p2|d2)=((?:OK|PLAIN) \[[^\]]*\]|\S+)")


def fields(line):
    return dict(FIELD.findall(line))


def obs_fix(opts, piv):
    return [(n, piv[-3:] if n == 6 else v) for n, v in opts]


def expected_dumps(x, p2_hex):
    """what the peers must hand out, from the case alone (+ the Partial IV libcoap put into the
    response's OSCORE option)"""
    d1 = "OK [" + G.dump_of(x["req"]) + "]"
    d2 = None
    if p2_hex and p2_hex != "NONE":
        dg = bytes.fromhex(p2_hex)
        loc = G.locate(dg)
        piv = loc.get("piv", b"") if loc else b""
        d2 = "OK [" + G.dump_of(x["resp"], opts=obs_fix(x["resp"]["opts"], piv)) + "]"
    return d1, d2


def variant_class(dg, loc, tag):
    """which part of the datagram a variant touches: 'opt' (OSCORE option value), 'ct'
    (ciphertext), 'other' (header, token, other options, option headers)"""
    kind, pos = tag[0], int(tag[1:])
    if kind == "t":
        return "trunc"
    byte = pos // 8
    if loc is None:
        return "other"
    if loc["opt"] and loc["opt"][0] <= byte < loc["opt"][1]:
        return "opt"
    if loc["payload"][0] <= byte < loc["payload"][1]:
        return "ct"
    return "other"


def apply_variant(dg, tag):
    kind, pos = tag[0], int(tag[1:])
    if kind == "t":
        return dg[:pos]
    b = bytearray(dg)
    b[pos // 8] ^= 0x80 >> (pos % 8)
    return bytes(b)


def known_match(run, what_kind, detail):
    def sig(f):
        s = f.get("signature", {})
        return s.get("kind") == what_kind and all(detail.get(k) == v for k, v in s.items() if k != "kind")
    return run.match_known(sig)


def main(run):
    run.cov["trusted_base"] = vlib.TRUSTED_COMMON + [
        "reference: coq/Oscore/{Aes128,Ccm,Sha256,Hkdf,Cbor,OscOption,Protect}.v written from FIPS-197, "
        "RFC 3610, FIPS 180-4, RFC 2104/5869, RFC 8949, RFC 8152, RFC 8613; validated in Coq against "
        "the published vectors (Oscore/Vectors.v, vm_compute)",
        "CoAP option/PDU codec shared with C01 (Wire/OptCodec.v, Wire/Pdu.v)",
        "tamper theorems: AEAD integrity is a named Section hypothesis (ideal AEAD), not proved for AES-CCM",
        "GnuTLS AES-CCM / HMAC-SHA-256 are exercised through libcoap, never modelled"]
    run.assumptions = [
        "allocation never fails (C18)",
        "messages are built through the public API (Proxy-Uri already split; Hop-Limit present with Proxy-Scheme)",
        "PDU-level delivery: coap_oscore_new_pdu_encrypted_lkd / coap_oscore_decrypt_pdu on a blank UDP "
        "session, transmit path interposed (no sockets)",
        "Appendix B.1.2 / B.2 negotiation switched off in the configuration (C15 covers them)"]
    run.prove()
    model = vlib.build_model()
    drv = vlib.build_driver("h_oscore", ["h_oscore.c"], wraps=WRAPS)
    quick = run.tier == "quick"
    r = tie.rng_for(run, "c14")

    # ---------------------------------------------------------------- exchanges
    n_ex = 150 if quick else 4000
    cases = []          # (exchange or None, line)
    corpus = vlib.read_corpus("C14")
    for ln in corpus:
        if ln.startswith("oscx "):
            cases.append((None, ln))
    for i in range(n_ex):
        x = G.gen_exchange(r, big=(i % 8 == 0))
        cases.append((x, G.line_of(x)))
    lines = [c[1] for c in cases]
    # corpus deliveries (tampered datagrams of fixed defects): reference and libcoap must agree
    cun = [ln for ln in corpus if ln.startswith("oscun ")]
    if cun:
        cm, cc, _ = tie.run_both(model, drv, cun)
        for k, ln in enumerate(cun):
            run.count(ln, True)
            if cm[k] != cc[k]:
                run.violation("corpus delivery: libcoap %s, the reference %s" % (cc[k][:80], cm[k][:80]),
                              "case: %s\nmodel: %s\nimpl : %s\n" % (ln, cm[k], cc[k]), tag="corpus%d" % k,
                              no_input=not cc[k].startswith("OK"))
    om, oc, crashes = tie.run_both(model, drv, lines)
    run.cov["driver_crashes"] = len(crashes)
    nbad = 0
    tamper_jobs = []    # (ctx tokens for the receiving endpoint, mode tokens, datagram hex, info)
    for i, (x, ln) in enumerate(cases):
        mo, co = om[i], oc[i]
        fm, fc = fields(mo), fields(co)
        ok_model = fm.get("d1", "").startswith("OK") and fm.get("d2", "").startswith("OK")
        nontriv = bool(x) and ok_model and (len(x["req"]["opts"]) >= 2 or len(x["req"]["payload"]) > 0)
        run.count(ln, nontriv or (x is None and ok_model))
        if x:
            run.hist("ids", "%d/%d" % (len(x["ctx"][3]), len(x["ctx"][4])))
            run.hist("salt/idctx", "%s/%s" % ("salt" if x["ctx"][1] else "-", "ctx" if x["ctx"][2] else "-"))
            run.hist("piv_len_req", len(G.uint_bytes(x["cseq"])) or 1)
            run.hist("observe", "obs" if any(n == 6 for n, _ in x["req"]["opts"]) else "-")
            run.hist("payload_req", min(len(x["req"]["payload"]) // 16 * 16, 1024))
            run.hist("resp_piv", "piv" if (x["sendpiv"] or any(n == 6 for n, _ in x["resp"]["opts"])) else "none")
        if i % 40 == 1:
            run.sample({"case": ln[:400], "impl": co[:400]})
        bad = None
        no_input = False
        if co.startswith("CRASH"):
            bad = "implementation crashes (%s)" % co
        elif x is not None:
            # implementation-only oracle
            e1, e2 = expected_dumps(x, fc.get("p2"))
            if fc.get("p1") in (None, "NONE"):
                bad = "libcoap does not protect the request (sender sequence number %d)" % x["cseq"]
            elif fc.get("d1") != e1:
                bad = "peer does not recover the request: got %s expected %s" % (fc.get("d1"), e1)
            elif fc.get("p2") in (None, "NONE"):
                bad = "libcoap does not protect the response (sender sequence number %d)" % x["sseq"]
            elif fc.get("d2") != e2:
                bad = "peer does not recover the response: got %s expected %s" % (fc.get("d2"), e2)
        if bad is None and mo != co:
            bad = "protected bytes / keys / result differ from the RFC 8613 reference"
            for k in ("ck", "p1", "d1", "p2", "d2"):
                if fm.get(k) != fc.get(k):
                    bad += " (first difference: %s)" % k
                    break
            no_input = False
        if bad:
            detail = {"cseq": x["cseq"] if x else None, "sseq": x["sseq"] if x else None,
                      "what": bad.split(":")[0].split(" (")[0]}
            f = known_match(run, "exchange", detail)
            if f:
                run.known(f, ln[:120])
            else:
                nbad += 1
                if nbad <= 3:
                    run.violation(bad, "case: %s\nmodel: %s\nimpl : %s\n" % (ln, mo, co),
                                  tag="tie%d" % nbad, no_input=no_input)
            continue
        # collect tamper jobs from libcoap's own datagrams
        if x is not None and fc.get("p1") not in (None, "NONE"):
            secret, salt, idctx, cid, sid = G.ctx_tokens(x["ctx"])
            tamper_jobs.append(([secret, salt, idctx, sid, cid], ["req"], fc["p1"], (i, "req")))
            if fc.get("p2") not in (None, "NONE"):
                tamper_jobs.append(([secret, salt, idctx, cid, sid],
                                    ["resp", G.tok(x["req"]["token"]), str(x["cseq"])], fc["p2"], (i, "resp")))

    # ---------------------------------------------------------------- different context
    other = []
    for ctxt, mode, dg, info in tamper_jobs:
        if mode[0] != "req":
            continue
        secret, salt, idctx, sid, rid = ctxt
        alt = [
            (["%02x" % (int(secret[:2], 16) ^ 1) + secret[2:], salt, idctx, sid, rid], "secret"),
            ([secret, "5a" if salt == "-" else "-", idctx, sid, rid], "salt"),
            ([secret, salt, "c7" if idctx == "-" else "-", sid, rid], "idctx"),
            ([secret, salt, idctx, sid, (rid + "00") if len(rid) < 14 and rid != "-" else "01"], "recipient id"),
        ]
        for c2, what in alt:
            other.append((" ".join(["oscun"] + c2 + mode + [dg]), what, info))
    if quick:
        other = other[:240]
    am, ac, _ = tie.run_both(model, drv, [o[0] for o in other])
    n_other_bad = 0
    for k, (ln, what, info) in enumerate(other):
        run.cov["evaluations"] += 1
        if ac[k] != "REJECT" and not ac[k].startswith("PARSE-REJECT"):
            n_other_bad += 1
            if n_other_bad <= 2:
                run.violation("a request protected under a different %s is accepted: %s" % (what, ac[k][:200]),
                              "case: %s\nmodel: %s\nimpl : %s\n" % (ln, am[k], ac[k]), tag="ctx%d" % n_other_bad)
        elif am[k] != ac[k]:
            n_other_bad += 1
            if n_other_bad <= 2:
                run.violation("different-context delivery: implementation differs from the reference",
                              "case: %s\nmodel: %s\nimpl : %s\n" % (ln, am[k], ac[k]), tag="ctx%d" % n_other_bad,
                              no_input=True)
    run.cov["different_context"] = {"deliveries": len(other), "failures": n_other_bad}

    # ---------------------------------------------------------------- bit flips and truncations
    budget = 300_000 if quick else 12_000_000     # bits+truncations delivered to libcoap
    jobs = []
    used = 0
    for j in sorted(tamper_jobs, key=lambda j: len(j[2])):
        cost = 9 * (len(j[2]) // 2)
        if used + cost > budget:
            continue
        used += cost
        jobs.append(j)
    flines = [" ".join(["oscflip"] + c + m + [dg]) for c, m, dg, _ in jobs]
    fo, fcr = vlib.run_lines_robust(drv, flines, timeout=1500)
    stats = {"datagrams": len(jobs), "variants": 0, "parse_rej": 0, "osc_rej": 0, "plain": 0,
             "accepted_unprotected_field": 0, "accepted_protected_field": 0, "crashes": len(fcr)}
    followups = []       # oscun lines for accepted / plain variants + a sample of rejected ones
    nflip_bad = 0
    for (ctxt, mode, dgh, info), ln, out in zip(jobs, flines, fo):
        if out.startswith("CRASH") or " n=" not in out:
            nflip_bad += 1
            if nflip_bad <= 3:
                run.violation("implementation crashes or gives no answer while receiving a tampered datagram: %s" % out[:100],
                              "case: %s\nimpl : %s\n" % (ln, out), tag="flip%d" % nflip_bad)
            continue
        m = re.search(r" n=(\d+) parse_rej=(\d+) osc_rej=(\d+) plain=(\d+) accepted=(\d+) replies=(\S+)$", out)
        n, pr, orj, pl, acc, replies = m.groups()
        stats["variants"] += int(n)
        stats["parse_rej"] += int(pr)
        stats["osc_rej"] += int(orj)
        stats["plain"] += int(pl)
        dg = bytes.fromhex(dgh)
        loc = G.locate(dg)
        accs = out[4:out.index(" n=")]
        for rep in ([] if replies == "-" else replies.split(",")):
            c = int(rep)
            run.hist("reply_to_rejected", "%d.%02d" % (c >> 5, c & 31))
            if c != 0 and (c >> 5) < 4:
                nflip_bad += 1
                run.violation("a rejected tampered datagram is answered with code %d.%02d" % (c >> 5, c & 31),
                              "case: %s\nimpl : %s\n" % (ln, out), tag="flip%d" % nflip_bad)
        if accs != "-":
            for item in accs.split("|"):
                tag, rest = item.split(":", 1)
                kind = rest[0]
                cls = variant_class(dg, loc, tag)
                var = apply_variant(dg, tag)
                un = " ".join(["oscun"] + ctxt + mode + [var.hex() if var else "-"])
                if kind == "A" and cls in ("opt", "ct", "trunc"):
                    stats["accepted_protected_field"] += 1
                    detail = {"direction": mode[0], "field": cls, "peer_id_empty": ctxt[4] == "-",
                              "flag_bit": (loc["opt"] and (int(tag[1:]) - 8 * loc["opt"][0])) if cls == "opt" else None}
                    run.hist("accepted_tamper", "%s/%s/bit%s" % (mode[0], cls, detail["flag_bit"]))
                    f = known_match(run, "tamper", detail)
                    if f:
                        run.known(f, "%s %s" % (tag, un[:100]))
                    else:
                        nflip_bad += 1
                        if nflip_bad <= 3:
                            run.violation("tampered datagram accepted (%s of the %s, variant %s): %s" %
                                          ({"opt": "OSCORE option value", "ct": "ciphertext", "trunc": "truncation"}[cls],
                                           "request" if mode[0] == "req" else "response", tag, rest[:200]),
                                          "original datagram: %s\nvariant %s (b<bit index from the first byte's MSB> / t<kept length>)\n"
                                          "replay: %s\nimpl : %s\n" % (dgh, tag, un, rest), tag="flip%d" % nflip_bad)
                elif kind == "A":
                    stats["accepted_unprotected_field"] += 1
                followups.append((un, info, tag))
        # rejected variants: confirm a sample against the reference (all of them for short datagrams)
        nvar = 9 * len(dg)
        # the reference costs ~0.06 ms per byte and delivery: bound the work per datagram
        want = max(3, min(24, 2400 // len(dg))) if quick else max(8, min(400, 40000 // len(dg)))
        step = max(1, nvar // want)
        for v in range(r.randrange(step), nvar, step):
            tag = ("b%d" % v) if v < 8 * len(dg) else ("t%d" % (v - 8 * len(dg)))
            var = apply_variant(dg, tag)
            followups.append((" ".join(["oscun"] + ctxt + mode + [var.hex() if var else "-"]), info, tag))
    um, uc, _ = tie.run_both(model, drv, [f[0] for f in followups])
    ndis = 0
    for k, (ln, info, tag) in enumerate(followups):
        run.cov["evaluations"] += 1
        if um[k] != uc[k]:
            ndis += 1
            vlib.log("reference disagreement: %s\n   model: %s\n   impl : %s" % (ln[:300], um[k][:200], uc[k][:200]))
            if ndis <= 3 and nflip_bad == 0:
                run.violation("tampered delivery: implementation differs from the reference (variant %s)" % tag,
                              "case: %s\nmodel: %s\nimpl : %s\n" % (ln, um[k], uc[k]), tag="un%d" % ndis,
                              no_input=not uc[k].startswith("OK"))
    stats["reference_checked"] = len(followups)
    stats["reference_disagreements"] = ndis
    run.cov["tamper"] = stats
    run.cov["evaluations"] += stats["variants"]
    run.cov["disagreements"] = nbad + n_other_bad + nflip_bad + ndis
    run.cov["corpus_cases"] = len(corpus)

"""C14 - OSCORE protection round-trips, matches RFC 8613, and any tampering is rejected
(DESIGN.md section 6, C14).

tie     : every generated exchange runs through libcoap (harness/h_oscore.c) and through the
          extracted Gallina reference (coq/Oscore/Protect.v): derived keys / common IV, protected
          request and response datagrams (byte-exact), messages handed out by the peers.
oracle  : on libcoap's output alone - the peer's result equals the original message (Observe of a
          notification = low bytes of the notification's Partial IV); every single-bit flip and
          every truncation of each protected datagram, delivered to a fresh endpoint, is rejected
          whenever it touches the OSCORE option value or the ciphertext; a message protected under
          a different context is rejected; rejected deliveries answer with an error or not at all.
"""
import re
import time
import vlib
import tie
import gen_oscore as G

RULE = ("full exchanges (context, request, response) with ids 0..7 bytes, optional salt / id "
        "context, sequence numbers at the Partial IV length boundaries, class E/U/both options, "
        "payload 0..1024; an exchange is non-trivial when both protected datagrams verify at the "
        "peer in the reference and the request carries >= 2 options or a payload; distinct = "
        "distinct case lines.  Tamper deliveries are counted in coverage.tamper, not here.")

WRAPS = ["coap_send_internal", "coap_send_ack_lkd", "coap_handle_event_lkd"]

FIELD = re.compile(r"(ck|p1|d1|p2|d2)=((?:OK|PLAIN) \[[^\]]*\]|\S+)")


def fields(line):
    return dict(FIELD.findall(line))


def obs_fix(opts, piv):
    return [(n, piv[-3:] if n == 6 else v) for n, v in opts]


def expected_dumps(x, p2_hex):
    """what the peers must hand out, from the case alone (+ the Partial IV libcoap put into the
    response's OSCORE option)"""
    d1 = "OK [" + G.dump_of(x["req"]) + "]"
    d2 = None
    if p2_hex and p2_hex != "NONE":
        dg = bytes.fromhex(p2_hex)
        loc = G.locate(dg)
        piv = loc.get("piv", b"") if loc else b""
        d2 = "OK [" + G.dump_of(x["resp"], opts=obs_fix(x["resp"]["opts"], piv)) + "]"
    return d1, d2


def variant_class(dg, loc, tag):
    """which part of the datagram a variant touches: 'opt' (OSCORE option value), 'ct'
    (ciphertext), 'other' (header, token, other options, option headers)"""
    kind, pos = tag[0], int(tag[1:])
    if kind == "t":
        return "trunc"
    byte = pos // 8
    if loc is None:
        return "other"
    if loc["opt"] and loc["opt"][0] <= byte < loc["opt"][1]:
        return "opt"
    if loc["payload"][0] <= byte < loc["payload"][1]:
        return "ct"
    return "other"


def apply_variant(dg, tag):
    kind, pos = tag[0], int(tag[1:])
    if kind == "t":
        return dg[:pos]
    b = bytearray(dg)
    b[pos // 8] ^= 0x80 >> (pos % 8)
    return bytes(b)


def known_match(run, what_kind, detail):
    def sig(f):
        s = f.get("signature", {})
        return s.get("kind") == what_kind and all(detail.get(k) == v for k, v in s.items() if k != "kind")
    return run.match_known(sig)


LIVE_WRAPS = ["coap_ticks", "coap_socket_send", "coap_socket_recv"]


def cap_by_bytes(items, cap, r):
    """uniform subsample of deliveries so that the datagram bytes the reference has to process
    stay below cap (item[0] = case line ending in the datagram)"""
    w = [len(it[0].split()[-1]) // 2 + 64 for it in items]
    total = sum(w)
    if total <= cap:
        return items
    keep = cap / total
    return [it for it in items if r.random() < keep]


def strip_tm(d):
    """drop type and message id of a dump (chosen by the library for responses)"""
    return re.sub(r"t=\d+ (c=\d+) m=\d+", r"\1", d)


def corpus_exchange(ln):
    """the parts of a corpus live line the oracle needs"""
    t = ln.split()
    b = lambda s_: b"" if s_ == "-" else bytes.fromhex(s_)
    i = 6
    nreq = int(t[i + 4])
    req = dict(type=int(t[i]), code=int(t[i + 1]), mid=int(t[i + 2]), token=b(t[i + 3]),
               opts=[(int(t[i + 5 + 2 * k]), b(t[i + 6 + 2 * k])) for k in range(nreq)],
               payload=b(t[i + 5 + 2 * nreq]))
    j = i + 6 + 2 * nreq
    return dict(ctx=(b(t[1]), None if t[2] == "-" else b(t[2]), None if t[3] == "-" else b(t[3]), b(t[4]), b(t[5])),
                req=req, cseq=int(t[j]), resp=None, sseq=int(t[-1]), sendpiv=0)


def live_phase(run, model, live_cases, quick):
    """real client session + real server context joined by harness/common/vnet.h: what the
    application handlers see, for the genuine exchange and for every flip / truncation of the
    request at the server (cold: first datagram of a new peer; warm: after the genuine exchange
    from the same address) and of the response at the client"""
    t0 = time.time()
    import os
    if not os.path.exists(os.path.join(vlib.ROOT, "harness", "common", "vnet.h")):
        # the shared scripted network is the coordinator's file; a tree without it (a branch
        # checked out on its own) can only run the PDU-level part
        run.cov["live"] = {"skipped": "harness/common/vnet.h is not in this tree"}
        vlib.log("note (C14): live client/server phase skipped, harness/common/vnet.h missing")
        return
    ldrv = vlib.build_driver("h_oscore_live", ["h_oscore_live.c"], wraps=LIVE_WRAPS)
    st = {"exchanges": len(live_cases), "variants": 0, "handler_runs_unprotected_field": 0,
          "violations": 0, "reference_checked": 0}
    lines, meta = [], []
    for ln in vlib.read_corpus("C14"):
        if ln.split()[0] in ("liveflip", "liveflipw", "liveflipr"):
            lines.append(ln)
            meta.append((ln.split()[0], corpus_exchange(ln), {}))
    for x, fm, fc in live_cases:
        for cmd in ("live", "liveflip", "liveflipw", "liveflipr"):
            lines.append(G.live_line(cmd, x))
            meta.append((cmd, x, fm))
    out, crashes = vlib.run_lines_robust(ldrv, lines, timeout=1500)
    st["crashes"] = len(crashes)
    follow = []     # (oscun line, expected libcoap application dump, description, replay)
    nbad = 0

    def bad(what, replay_text, no_input=False):
        nonlocal nbad
        nbad += 1
        st["violations"] += 1
        if nbad <= 4:
            run.violation(what, replay_text, tag="live%d" % nbad, no_input=no_input)

    for (cmd, x, fm), ln, o in zip(meta, lines, out):
        run.cov["evaluations"] += 1
        secret, salt, idctx, cid, sid = G.ctx_tokens(x["ctx"])
        if o.startswith("CRASH") or o.startswith("NOCTX") or "=" not in o:
            bad("live driver: libcoap crashes or refuses (%s)" % o[:80], "case: %s\nimpl : %s\n" % (ln, o))
            continue
        if cmd == "live":
            m = re.match(r"p1=(\S+) app=(.*) handler=(\d+) responses=(\d+) nacks=(\d+)$", o)
            if not m:
                bad("live exchange: no protected request (%s)" % o[:80], "case: %s\nimpl : %s\n" % (ln, o))
                continue
            p1, app, nh, nr, nn = m.groups()
            piv = G.uint_bytes(x["sseq"]) or b"\0"
            exp = "H[" + G.dump_of(x["req"]) + "]R[" + strip_tm(G.dump_of(x["resp"], opts=obs_fix(x["resp"]["opts"], piv))) + "]"
            got = re.sub(r"R\[(.*)\]$", lambda mm: "R[" + strip_tm(mm.group(1)) + "]", app)
            if p1 != fm.get("p1"):
                bad("live exchange: the datagram sent by coap_send differs from the reference",
                    "case: %s\nreference p1: %s\nimpl : %s\n" % (ln, fm.get("p1"), o))
            elif got != exp:
                bad("live exchange: the application does not see the original messages: got %s expected %s" % (got[:200], exp[:200]),
                    "case: %s\nimpl : %s\nexpected app=%s\n" % (ln, o, exp))
            if run.cov.get("live_sample") is None:
                run.cov["live_sample"] = {"case": ln[:300], "impl": o[:300]}
            continue
        m = re.match(r"(p1|p2)=(\S+) ran=(.*) n=(\d+) handler_runs=(\d+)", o)
        if not m:
            bad("live tamper run gives no answer (%s)" % o[:80], "case: %s\nimpl : %s\n" % (ln, o))
            continue
        which, dgh, ran, nvar, nruns = m.groups()
        st["variants"] += int(nvar)
        dg = bytes.fromhex(dgh)
        loc = G.locate(dg)
        rtok = x["req"]["token"]
        if ran == "-":
            continue
        for item in ran.split("|"):
            tag, seen = item.split(":", 1)
            var = apply_variant(dg, tag)
            vloc = G.locate(var) if len(var) >= 4 else None
            cls = variant_class(dg, loc, tag)
            has_osc = bool(vloc and vloc.get("opt"))
            if which == "p1":
                un = " ".join(["oscun", secret, salt, idctx, sid, cid, "req", var.hex() if var else "-"])
                if cls in ("opt", "ct", "trunc") or not has_osc:
                    bad("live server (%s): the handler of an OSCORE-only resource ran for a tampered request (variant %s, %s): %s" %
                        ("after a genuine exchange from the same peer" if cmd == "liveflipw" else "first datagram of the peer",
                         tag, "no OSCORE option left" if not has_osc else cls, seen[:160]),
                        "case: %s\noriginal datagram: %s\nvariant %s\nhandler saw: %s\nreplay (PDU level): %s\n" % (ln, dgh, tag, seen, un))
                else:
                    st["handler_runs_unprotected_field"] += 1
                    if len(follow) < (4000 if quick else 60000):
                        follow.append((un, "OK [" + seen[2:-1] + "]", tag, ln))
            else:
                tkl = var[0] & 15 if var else 0
                vtok_ = var[4:4 + tkl] if tkl <= 8 else None
                un = " ".join(["oscun", secret, salt, idctx, cid, sid, "resp", G.tok(rtok), str(x["cseq"]),
                               var.hex() if var else "-"])
                code = var[1] if len(var) > 1 else 0
                if cls in ("opt", "ct", "trunc") and has_osc and vtok_ == rtok:
                    f = known_match(run, "tamper", {"direction": "resp", "field": cls, "peer_id_empty": sid == "-",
                                                    "flag_bit": (loc["opt"] and (int(tag[1:]) - 8 * loc["opt"][0])) if cls == "opt" else None})
                    if f:
                        run.known(f, "live %s" % tag)
                    else:
                        bad("live client: the response handler ran for a tampered response (variant %s, %s): %s" % (tag, cls, seen[:160]),
                            "case: %s\noriginal datagram: %s\nvariant %s\nhandler saw: %s\nreplay (PDU level): %s\n" % (ln, dgh, tag, seen, un))
                elif not has_osc and vtok_ == rtok and (code >> 5) == 2:
                    bad("live client: an unprotected 2.xx response to the protected request reached the response handler (variant %s): %s" % (tag, seen[:160]),
                        "case: %s\noriginal datagram: %s\nvariant %s\nhandler saw: %s\n" % (ln, dgh, tag, seen))
                else:
                    st["handler_runs_unprotected_field"] += 1
    # ---- Observe over time: notifications carry increasing Partial IVs and the application sees
    # them as Observe values; every notification datagram verifies in the reference to what the
    # client's handler saw
    r2 = tie.rng_for(run, "liveobs")
    olines, ometa = [], []
    for x, fm, fc in live_cases[:(12 if quick else 120)]:
        secret, salt, idctx, cid, sid = G.ctx_tokens(x["ctx"])
        tok = x["req"]["token"] or b"\x01"
        n = r2.choice([1, 3, 6])
        sseq = r2.choice([0, 254, 255, 65534, (1 << 24) - 3, (1 << 32) - 2, x["sseq"]])
        sseq = min(sseq, (1 << 40) - 12)
        olines.append(" ".join(["liveobs", secret, salt, idctx, cid, sid, str(x["req"]["type"]), G.tok(tok),
                                str(x["cseq"]), str(sseq), str(n)]))
        ometa.append((x, tok, sseq, n))
    oout, _ = vlib.run_lines_robust(ldrv, olines, timeout=600)
    overify = []
    for (x, tok, sseq, n), ln, o in zip(ometa, olines, oout):
        run.cov["evaluations"] += 1
        m = re.match(r"dgrams=(\S*) app=(.*) responses=(\d+)$", o)
        if not m:
            bad("live observe: no answer (%s)" % o[:80], "case: %s\nimpl : %s\n" % (ln, o))
            continue
        dgs = [d for d in m.group(1).split(",") if d]
        seen = re.findall(r"R\[([^\]]*)\]", m.group(2))
        exp = []
        for i in range(n + 1):
            piv = G.uint_bytes(sseq + i) or b"\0"
            exp.append("o=6:%s p=%s" % (piv[-3:].hex(), ("v%d" % i).encode().hex()))
        got = [re.sub(r"^.* (o=\S+ p=\S+)$", r"\1", d) for d in seen]
        if got != exp or len(dgs) != n + 1:
            bad("live observe: the application sees Observe/payload %s, expected %s (one per notification, Observe = low bytes of the notification's Partial IV)" % (got, exp),
                "case: %s\nimpl : %s\n" % (ln, o))
            continue
        secret, salt, idctx, cid, sid = G.ctx_tokens(x["ctx"])
        for d, sd in zip(dgs, seen):
            overify.append((" ".join(["oscun", secret, salt, idctx, cid, sid, "resp", G.tok(tok), str(x["cseq"]), d]),
                            "OK [" + sd + "]", "notification", ln))
    st["observe_sequences"] = len(olines)
    follow = overify + follow
    # what the handler saw for variants of unprotected fields = what the reference hands out
    if follow:
        follow = cap_by_bytes(follow, 400_000 if quick else 3_000_000, tie.rng_for(run, "live"))
        fm_ = vlib.run_lines_robust(model, [f[0] for f in follow], timeout=3000)[0]
        for (un, seen, tag, ln), mo in zip(follow, fm_):
            st["reference_checked"] += 1
            if mo != seen:
                bad("live server: the handler saw something else than the reference hands out (variant %s)" % tag,
                    "case: %s\nreplay (PDU level): %s\nreference: %s\nhandler : %s\n" % (ln, un, mo, seen), no_input=True)
    st["seconds"] = round(time.time() - t0, 1)
    run.cov["live"] = st
    run.cov["evaluations"] += st["variants"]


def replay(run, model, drv, path):
    """re-run the case(s) of a replay file: lines 'case: <line>' / 'replay: <line>'"""
    lines = []
    for ln in open(path):
        m = re.match(r"(?:case|replay): ((?:oscx|oscun|oscderive|oscseq|oscmulti) .*)$", ln.strip())
        if m:
            lines.append(m.group(1))
    om, oc, _ = tie.run_both(model, drv, lines)
    for k, ln in enumerate(lines):
        run.count(ln, True)
        run.sample({"case": ln[:400], "model": om[k][:300], "impl": oc[k][:300]})
        if om[k] != oc[k]:
            run.violation("replay: libcoap differs from the reference", "case: %s\nmodel: %s\nimpl : %s\n" %
                          (ln, om[k], oc[k]), tag="replay%d" % k,
                          no_input=not (oc[k].startswith("OK") or "NONE" in oc[k] or "REJECT" in oc[k]))
    run.cov["replayed"] = len(lines)


def main(run):
    run.cov["trusted_base"] = vlib.TRUSTED_COMMON + [
        "reference: coq/Oscore/{Aes128,Ccm,Sha256,Hkdf,Cbor,OscOption,Protect}.v written from FIPS-197, "
        "RFC 3610, FIPS 180-4, RFC 2104/5869, RFC 8949, RFC 8152, RFC 8613; validated in Coq against "
        "the published vectors (Oscore/Vectors.v, vm_compute)",
        "CoAP option/PDU codec shared with C01 (Wire/OptCodec.v, Wire/Pdu.v)",
        "tamper theorems: AEAD integrity is a named Section hypothesis (ideal AEAD), not proved for AES-CCM",
        "GnuTLS AES-CCM / HMAC-SHA-256 are exercised through libcoap, never modelled"]
    run.assumptions = [
        "allocation never fails (C18)",
        "messages are built through the public API (Proxy-Uri already split; Hop-Limit present with Proxy-Scheme)",
        "PDU-level delivery: coap_oscore_new_pdu_encrypted_lkd / coap_oscore_decrypt_pdu on a blank UDP "
        "session, transmit path interposed (no sockets)",
        "Appendix B.1.2 / B.2 negotiation switched off in the configuration (C15 covers them)"]
    run.prove()
    model = vlib.build_model()
    drv = vlib.build_driver("h_oscore", ["h_oscore.c"], wraps=WRAPS)
    quick = run.tier == "quick"
    if getattr(run, "replay", None):
        return replay(run, model, drv, run.replay)
    r = tie.rng_for(run, "c14")

    # ---------------------------------------------------------------- exchanges
    n_ex = 150 if quick else 2000
    cases = []          # (exchange or None, line)
    corpus = vlib.read_corpus("C14")
    for ln in corpus:
        if ln.startswith("oscx "):
            cases.append((None, ln))
    for i in range(n_ex):
        x = G.gen_exchange(r, big=(i % 8 == 0))
        cases.append((x, G.line_of(x)))
    n_live = 40 if quick else 400
    for i in range(n_live):
        x = G.gen_live_exchange(r)
        cases.append((x, G.line_of(x)))
    lines = [c[1] for c in cases]
    t_phase = time.time()
    # corpus deliveries (tampered datagrams of fixed defects): reference and libcoap must agree
    cun = [ln for ln in corpus if ln.startswith("oscun ")]
    if cun:
        cm, cc, _ = tie.run_both(model, drv, cun)
        for k, ln in enumerate(cun):
            run.count(ln, True)
            if cm[k] != cc[k]:
                run.violation("corpus delivery: libcoap %s, the reference %s" % (cc[k][:80], cm[k][:80]),
                              "case: %s\nmodel: %s\nimpl : %s\n" % (ln, cm[k], cc[k]), tag="corpus%d" % k,
                              no_input=not cc[k].startswith("OK"))
    om, oc, crashes = tie.run_both(model, drv, lines)
    run.cov["driver_crashes"] = len(crashes)
    nbad = 0
    live_cases = []     # (exchange, reference fields, libcoap PDU-level fields)
    tamper_jobs = []    # (ctx tokens for the receiving endpoint, mode tokens, datagram hex, info)
    for i, (x, ln) in enumerate(cases):
        mo, co = om[i], oc[i]
        fm, fc = fields(mo), fields(co)
        ok_model = fm.get("d1", "").startswith("OK") and fm.get("d2", "").startswith("OK")
        nontriv = bool(x) and ok_model and (len(x["req"]["opts"]) >= 2 or len(x["req"]["payload"]) > 0)
        run.count(ln, nontriv or (x is None and ok_model))
        if x:
            run.hist("ids", "%d/%d" % (len(x["ctx"][3]), len(x["ctx"][4])))
            run.hist("salt/idctx", "%s/%s" % ("salt" if x["ctx"][1] else "-", "ctx" if x["ctx"][2] else "-"))
            run.hist("piv_len_req", len(G.uint_bytes(x["cseq"])) or 1)
            run.hist("observe", "obs" if any(n == 6 for n, _ in x["req"]["opts"]) else "-")
            run.hist("payload_req", min(len(x["req"]["payload"]) // 16 * 16, 1024))
            run.hist("resp_piv", "piv" if (x["sendpiv"] or any(n == 6 for n, _ in x["resp"]["opts"])) else "none")
        if i % 40 == 1:
            run.sample({"case": ln[:400], "impl": co[:400]})
        bad = None
        no_input = False
        if co.startswith("CRASH"):
            bad = "implementation crashes (%s)" % co
        elif x is not None:
            # implementation-only oracle
            e1, e2 = expected_dumps(x, fc.get("p2"))
            if fc.get("p1") in (None, "NONE"):
                bad = "libcoap does not protect the request (sender sequence number %d)" % x["cseq"]
            elif fc.get("d1") != e1:
                bad = "peer does not recover the request: got %s expected %s" % (fc.get("d1"), e1)
            elif fc.get("p2") in (None, "NONE"):
                bad = "libcoap does not protect the response (sender sequence number %d)" % x["sseq"]
            elif fc.get("d2") != e2:
                bad = "peer does not recover the response: got %s expected %s" % (fc.get("d2"), e2)
        if bad is None and mo != co:
            bad = "protected bytes / keys / result differ from the RFC 8613 reference"
            for k in ("ck", "p1", "d1", "p2", "d2"):
                if fm.get(k) != fc.get(k):
                    bad += " (first difference: %s)" % k
                    break
            no_input = False
        if bad:
            detail = {"cseq": x["cseq"] if x else None, "sseq": x["sseq"] if x else None,
                      "what": bad.split(":")[0].split(" (")[0]}
            f = known_match(run, "exchange", detail)
            if f:
                run.known(f, ln[:120])
            else:
                nbad += 1
                if nbad <= 3:
                    run.violation(bad, "case: %s\nmodel: %s\nimpl : %s\n" % (ln, mo, co),
                                  tag="tie%d" % nbad, no_input=no_input)
            continue
        if x is not None and x.get("live"):
            live_cases.append((x, fm, fc))
        # collect tamper jobs from libcoap's own datagrams
        if x is not None and fc.get("p1") not in (None, "NONE"):
            secret, salt, idctx, cid, sid = G.ctx_tokens(x["ctx"])
            tamper_jobs.append(([secret, salt, idctx, sid, cid], ["req"], fc["p1"], (i, "req")))
            if fc.get("p2") not in (None, "NONE"):
                tamper_jobs.append(([secret, salt, idctx, cid, sid],
                                    ["resp", G.tok(x["req"]["token"]), str(x["cseq"])], fc["p2"], (i, "resp")))

    run.cov.setdefault("phase_seconds", {})["exchanges"] = round(time.time() - t_phase, 1)
    t_phase = time.time()
    # ---------------------------------------------------------------- different context
    other = []
    for ctxt, mode, dg, info in tamper_jobs:
        if mode[0] != "req":
            continue
        secret, salt, idctx, sid, rid = ctxt
        alt = [
            (["%02x" % (int(secret[:2], 16) ^ 1) + secret[2:], salt, idctx, sid, rid], "secret"),
            ([secret, "5a" if salt == "-" else "-", idctx, sid, rid], "salt"),
            ([secret, salt, "c7" if idctx == "-" else "-", sid, rid], "idctx"),
            ([secret, salt, idctx, sid, (rid + "00") if len(rid) < 14 and rid != "-" else "01"], "recipient id"),
        ]
        for c2, what in alt:
            other.append((" ".join(["oscun"] + c2 + mode + [dg]), what, info))
    other = other[:240] if quick else other[:3000]
    am, ac, _ = tie.run_both(model, drv, [o[0] for o in other])
    n_other_bad = 0
    for k, (ln, what, info) in enumerate(other):
        run.cov["evaluations"] += 1
        if ac[k] != "REJECT" and not ac[k].startswith("PARSE-REJECT"):
            n_other_bad += 1
            if n_other_bad <= 2:
                run.violation("a request protected under a different %s is accepted: %s" % (what, ac[k][:200]),
                              "case: %s\nmodel: %s\nimpl : %s\n" % (ln, am[k], ac[k]), tag="ctx%d" % n_other_bad)
        elif am[k] != ac[k]:
            n_other_bad += 1
            if n_other_bad <= 2:
                run.violation("different-context delivery: implementation differs from the reference",
                              "case: %s\nmodel: %s\nimpl : %s\n" % (ln, am[k], ac[k]), tag="ctx%d" % n_other_bad,
                              no_input=True)
    run.cov["different_context"] = {"deliveries": len(other), "failures": n_other_bad}

    # ---------------------------------------------------------------- sequences on one token
    # registration, re-registration / cancellation with the same token, responses with and
    # without Partial IV: the request binding kept by both endpoints is refreshed in between
    sq = [ln for ln in corpus if ln.startswith("oscseq ")]
    sq += [G.gen_sequence(r) for _ in range(60 if quick else 1500)]
    # ... and two security contexts at one server session, requests interleaved, responses delayed
    sq += [ln for ln in corpus if ln.startswith("oscmulti ")]
    sq += [G.gen_multi(r) for _ in range(40 if quick else 1000)]
    qm, qc, _ = tie.run_both(model, drv, sq, timeout=3000)
    n_sq_bad = 0
    for k, ln in enumerate(sq):
        run.count(ln, "REJECT" not in qm[k] and "NONE" not in qm[k])
        nfix = 17 if ln.startswith("oscmulti") else 10
        run.hist("sequence_steps", "%s:%d" % (ln.split()[0], len(ln.split()) - nfix))
        bad = None
        if qc[k].startswith("CRASH"):
            bad = "implementation crashes in a request/response sequence on one token"
        elif re.search(r"=(NONE|REJECT|PARSE-REJECT|PLAIN)", qc[k]):
            step = len(re.findall(r" d[qr]=", qc[k].split("REJECT")[0].split("NONE")[0]))
            bad = "request/response sequence (%s): a genuine message is not protected / not recovered by the peer (step %%d of %%s)" % ("two contexts on one server session" if nfix == 17 else "one token") % (
                max(step, 1), " ".join(ln.split()[nfix:]))
        elif qm[k] != qc[k]:
            bad = "request/response sequence: protected bytes / results differ from the RFC 8613 reference"
        if bad:
            n_sq_bad += 1
            if n_sq_bad <= 3:
                run.violation(bad, "case: %s\nmodel: %s\nimpl : %s\n" % (ln, qm[k], qc[k]), tag="seq%d" % n_sq_bad)
    run.cov["sequences"] = {"cases": len(sq), "failures": n_sq_bad}
    # ---------------------------------------------------------------- re-spelled OSCORE options
    sv = []
    for ctxt, mode, dgh, info in tamper_jobs:
        for tag, var, must in G.structured_variants(bytes.fromhex(dgh), mode[0] == "req"):
            sv.append((" ".join(["oscun"] + ctxt + mode + [var.hex()]), tag, must, dgh))
    if len(sv) > (4000 if quick else 12000):
        sv = r.sample(sv, 4000 if quick else 12000)
    sm, sc, _ = tie.run_both(model, drv, [v[0] for v in sv], timeout=3000)
    n_sv_bad = 0
    for k, (ln, tag, must, dgh) in enumerate(sv):
        run.cov["evaluations"] += 1
        run.hist("structured_option_change", "%s:%s" % (re.sub(r"\d+$", "", tag), sc[k].split(" ")[0]))
        if must and sc[k].startswith("OK"):
            n_sv_bad += 1
            if n_sv_bad <= 3:
                run.violation("datagram with a modified OSCORE option value (%s) is accepted: %s" % (tag, sc[k][:160]),
                              "original datagram: %s\nreplay: %s\nmodel: %s\nimpl : %s\n" % (dgh, ln, sm[k], sc[k]),
                              tag="opt%d" % n_sv_bad)
        elif sm[k] != sc[k]:
            n_sv_bad += 1
            if n_sv_bad <= 3:
                run.violation("modified OSCORE option value (%s): implementation differs from the reference" % tag,
                              "original datagram: %s\nreplay: %s\nmodel: %s\nimpl : %s\n" % (dgh, ln, sm[k], sc[k]),
                              tag="opt%d" % n_sv_bad, no_input=not sc[k].startswith("OK"))
    run.cov["structured_option_changes"] = {"deliveries": len(sv), "failures": n_sv_bad}
    run.cov["phase_seconds"]["different_context"] = round(time.time() - t_phase, 1)
    t_phase = time.time()
    # ---------------------------------------------------------------- bit flips and truncations
    budget = 1_500_000 if quick else 40_000_000     # bits+truncations delivered to libcoap
    jobs = []
    used = 0
    for j in sorted(tamper_jobs, key=lambda j: len(j[2])):
        cost = 9 * (len(j[2]) // 2)
        if used + cost > budget:
            continue
        used += cost
        jobs.append(j)
    flines = [" ".join(["oscflip"] + c + m + [dg]) for c, m, dg, _ in jobs]
    fo, fcr = vlib.run_lines_robust(drv, flines, timeout=1500)
    stats = {"datagrams": len(jobs), "variants": 0, "parse_rej": 0, "osc_rej": 0, "plain": 0,
             "accepted_unprotected_field": 0, "accepted_protected_field": 0, "crashes": len(fcr)}
    nother = 0
    followups = []       # oscun lines for accepted / plain variants + a sample of rejected ones
    nflip_bad = 0
    for (ctxt, mode, dgh, info), ln, out in zip(jobs, flines, fo):
        if out.startswith("CRASH") or " n=" not in out:
            nflip_bad += 1
            if nflip_bad <= 3:
                run.violation("implementation crashes or gives no answer while receiving a tampered datagram: %s" % out[:100],
                              "case: %s\nimpl : %s\n" % (ln, out), tag="flip%d" % nflip_bad)
            continue
        m = re.search(r" n=(\d+) parse_rej=(\d+) osc_rej=(\d+) plain=(\d+) accepted=(\d+) replies=(\S+)$", out)
        n, pr, orj, pl, acc, replies = m.groups()
        stats["variants"] += int(n)
        stats["parse_rej"] += int(pr)
        stats["osc_rej"] += int(orj)
        stats["plain"] += int(pl)
        dg = bytes.fromhex(dgh)
        loc = G.locate(dg)
        accs = out[4:out.index(" n=")]
        for rep in ([] if replies == "-" else replies.split(",")):
            c = int(rep)
            run.hist("reply_to_rejected", "%d.%02d" % (c >> 5, c & 31))
            if c != 0 and (c >> 5) < 4:
                nflip_bad += 1
                run.violation("a rejected tampered datagram is answered with code %d.%02d" % (c >> 5, c & 31),
                              "case: %s\nimpl : %s\n" % (ln, out), tag="flip%d" % nflip_bad)
        if accs != "-":
            for item in accs.split("|"):
                tag, rest = item.split(":", 1)
                kind = rest[0]
                cls = variant_class(dg, loc, tag)
                var = apply_variant(dg, tag)
                un = " ".join(["oscun"] + ctxt + mode + [var.hex() if var else "-"])
                if kind == "A" and cls in ("opt", "ct", "trunc"):
                    stats["accepted_protected_field"] += 1
                    detail = {"direction": mode[0], "field": cls, "peer_id_empty": ctxt[4] == "-",
                              "flag_bit": (loc["opt"] and (int(tag[1:]) - 8 * loc["opt"][0])) if cls == "opt" else None}
                    run.hist("accepted_tamper", "%s/%s/bit%s" % (mode[0], cls, detail["flag_bit"]))
                    f = known_match(run, "tamper", detail)
                    if f:
                        run.known(f, "%s %s" % (tag, un[:100]))
                    else:
                        nflip_bad += 1
                        if nflip_bad <= 3:
                            run.violation("tampered datagram accepted (%s of the %s, variant %s): %s" %
                                          ({"opt": "OSCORE option value", "ct": "ciphertext", "trunc": "truncation"}[cls],
                                           "request" if mode[0] == "req" else "response", tag, rest[:200]),
                                          "original datagram: %s\nvariant %s (b<bit index from the first byte's MSB> / t<kept length>)\n"
                                          "replay: %s\nimpl : %s\n" % (dgh, tag, un, rest), tag="flip%d" % nflip_bad)
                elif kind == "A":
                    stats["accepted_unprotected_field"] += 1
                    # type / message id / token / outer-option flips: compare a sample with the reference
                    nother += 1
                    if nother % (6 if quick else 2) != 1:
                        continue
                followups.append((un, info, tag))
        # rejected variants: confirm a sample against the reference (all of them for short datagrams)
        nvar = 9 * len(dg)
        # the reference costs ~0.06 ms per byte and delivery: bound the work per datagram
        want = max(3, min(24, 2400 // len(dg))) if quick else max(8, min(60, 12000 // len(dg)))
        step = max(1, nvar // want)
        for v in range(r.randrange(step), nvar, step):
            tag = ("b%d" % v) if v < 8 * len(dg) else ("t%d" % (v - 8 * len(dg)))
            var = apply_variant(dg, tag)
            followups.append((" ".join(["oscun"] + ctxt + mode + [var.hex() if var else "-"]), info, tag))
    run.cov["phase_seconds"]["flips_impl"] = round(time.time() - t_phase, 1)
    t_phase = time.time()
    # the reference costs about 20 us per ciphertext byte and delivery: bound the total
    followups = cap_by_bytes(followups, 1_500_000 if quick else 9_000_000, r)
    stats["reference_bytes"] = sum(len(f[0].split()[-1]) // 2 for f in followups)
    um, uc, _ = tie.run_both(model, drv, [f[0] for f in followups], timeout=3000)
    run.cov["phase_seconds"]["flips_reference"] = round(time.time() - t_phase, 1)
    ndis = 0
    for k, (ln, info, tag) in enumerate(followups):
        run.cov["evaluations"] += 1
        if um[k] != uc[k]:
            ndis += 1
            vlib.log("reference disagreement: %s\n   model: %s\n   impl : %s" % (ln[:300], um[k][:200], uc[k][:200]))
            if ndis <= 3 and nflip_bad == 0:
                run.violation("tampered delivery: implementation differs from the reference (variant %s)" % tag,
                              "case: %s\nmodel: %s\nimpl : %s\n" % (ln, um[k], uc[k]), tag="un%d" % ndis,
                              no_input=not uc[k].startswith("OK"))
    if not quick:
        # independent re-check of the compiled proofs (coqchk) incl. the list of axioms used
        rc, out = vlib.sh(["coqchk", "-silent", "-o", "-Q", ".", "LibcoapV", "LibcoapV.Properties_C14"],
                          cwd=vlib.COQ, timeout=2400, check=False)
        ok = rc == 0 and re.search(r"Axioms:\s*<none>", out) is not None
        run.cov["coqchk"] = {"ok": ok, "summary": " ".join(out.split())[-400:]}
        if not ok:
            run.violation("coqchk does not accept Properties_C14 or reports axioms", out[-4000:], tag="coqchk",
                          no_input=True)
    if not quick:
        # sanitizer variant (ASan + UBSan, libcoap itself instrumented): the exchanges and the
        # tampered deliveries of the shortest datagrams again; only crashes/reports matter here
        adrv = vlib.build_driver("h_oscore", ["h_oscore.c"], variant="asan", wraps=WRAPS)
        alines = lines[:600] + flines[:400]
        ao, acr = vlib.run_lines_robust(adrv, alines, timeout=1500,
                                        env={"ASAN_OPTIONS": "detect_leaks=0:abort_on_error=1"})
        stats["sanitizer_lines"] = len(alines)
        stats["sanitizer_reports"] = len(acr)
        for idx, rc, err in acr[:2]:
            nflip_bad += 1
            run.violation("sanitizer report / crash in libcoap (rc=%d)" % rc,
                          "case: %s\n\n%s\n" % (alines[idx], err), tag="asan%d" % idx)
    live_phase(run, model, live_cases, quick)
    stats["reference_checked"] = len(followups)
    stats["reference_disagreements"] = ndis
    run.cov["tamper"] = stats
    run.cov["evaluations"] += stats["variants"]
    run.cov["disagreements"] = nbad + n_other_bad + n_sq_bad + n_sv_bad + nflip_bad + ndis
    run.cov["corpus_cases"] = len(corpus)

"""C16 - URI text and CoAP options convert both ways without loss, confusion or overread
(DESIGN.md section 6, C16; notes/C16.md)."""
import re
import time
import vlib
import tie
import gen_uri as G

RULE = ("byte strings as path / query / URI input (exhaustive over a 12-character alphabet up to "
        "length 3-5, grammar-built strings with every delimiter and escape form, escapes cut at the "
        "end of the input, mutated and blind strings), output buffers of sizes 0..needed+7, segment "
        "lists over the full byte alphabet; every input is an exact-size heap copy without "
        "terminator (asan variant for a part of the cases). Non-trivial: a path/query with an escape, "
        "a dot or >= 2 separators, a URI that contains '://' and at least one more delimiter, a "
        "segment list with a byte that must be escaped or with >= 2 segments; distinct = distinct "
        "case lines")

SPECIAL = set(b"%.")


def nontrivial(ln):
    t = ln.split()
    cmd = t[0]
    if cmd in ("upath", "uquery", "upol", "uqol"):
        s = G.untok(t[-1])
        sep = b"&" if cmd in ("uquery", "uqol") else b"/"
        return bool(SPECIAL & set(s)) or s.count(sep) >= 2
    if cmd == "uspl":
        s = G.untok(t[-1])
        i = s.find(b"://")
        return i >= 0 and any(c in s[i + 3:] for c in b":/?[")
    if cmd == "uinto":
        return True
    if cmd in ("uhostunix", "uunix"):
        return b"%" in G.untok(t[-1])
    if cmd == "unew":
        return b"://" in G.untok(t[-1])
    if cmd in ("ugetp", "ugetq"):
        segs = [G.untok(x) for x in t[1:]]
        return len(segs) >= 2 or any(not (chr(c).isalnum()) for s in segs for c in s)
    return False


class Ctx:
    def __init__(self, run):
        self.run = run
        self.nbad = 0
        self.per = {}
        self.notrun = 0
        self.rebuilt = {"ugetp": {}, "ugetq": {}}
        self.expect = {}        # sweep line -> what RFC 7252 prescribes, precomputed (fast path)

    def bad(self, what, ln, mo, co, extra="", no_input=False, tag=None):
        self.nbad += 1
        self.per[what] = self.per.get(what, 0) + 1
        self.run.hist("failures", what[:60])
        if self.per[what] <= 2 and len(self.per) <= 12:
            self.run.violation(what, "case : %s\nmodel: %s\nimpl : %s\n%s" % (ln, mo, co, extra),
                               tag=tag or ("c%d" % self.nbad), no_input=no_input)


def known_trailing_dot(run, ln, detail):
    f = run.match_known(lambda f: f.get("signature", {}).get("kind") == "trailing-dot-segment")
    if f:
        run.known(f)
        return True
    return False


def check_case(cx, ln, mo, co, spec):
    """tie (model = implementation) and the implementation-only oracles for one case"""
    run = cx.run
    t = ln.split()
    cmd = t[0]
    if co == "<not run>":
        cx.notrun += 1          # the driver died too often before this case (crashes are reported)
        return
    if co.startswith("CRASH"):
        cx.bad("implementation crashes: access outside the input/output buffers or abort (%s)" % co,
               ln, mo, co)
        return
    if mo == "OOB":
        cx.bad("the proved model reads outside its input (model no longer matches its theorem)",
               ln, mo, co, no_input=True)
        return
    # ---- oracles on the implementation's output alone
    exp = cx.expect.get(ln)
    if exp is not None:
        if (co if not exp.startswith("reject") else ("reject" if re.match(r"rc=-\d+$", co) else co)) != exp:
            cx.bad("port handling differs from RFC 7252 6.4 / section 6 (default ports, 0..65535, "
                   "Uri-Port unless default)", ln, mo, co, "expected: %s\n" % exp)
        elif mo != co:
            cx.bad("implementation differs from the proved model", ln, mo, co, no_input=True)
        return
    if cmd in ("upath", "uquery"):
        buflen = int(t[1])
        vals = G.parse_split_out(co)
        m = re.search(r"used=(\d+)", co)
        if vals is None or (m and int(m.group(1)) > buflen):
            cx.bad("output is not n delta-0 options within the buffer", ln, mo, co)
            return
        if cmd == "upath" and any(v in (b".", b"..") for v in vals):
            cx.bad("a '.' or '..' segment is emitted as Uri-Path option", ln, mo, co)
            return
        if spec:
            sm = re.match(r"spec=(\S*) (?:rfc=(\S*) )?need=(\d+)$", spec)
            want = G.parse_spec_list(sm.group(1))
            need = int(sm.group(3))
            if want is not None and buflen >= need:
                if vals != want:
                    cx.bad("options differ from RFC 3986 / RFC 7252 6.4 (decode once, resolve dots)",
                           ln, mo, co, "spec : %s\n" % spec)
                    return
                if cmd == "upath":
                    rfc = G.parse_spec_list(sm.group(2))
                    if G.norm(rfc) != G.norm(vals):
                        # strict RFC 3986 5.2.4 keeps a trailing "/" for a final dot segment
                        if rfc == want + [b""] and known_trailing_dot(run, ln, spec):
                            run.hist("known", "trailing-dot-segment")
                        else:
                            cx.bad("options differ from RFC 3986 5.2.4 remove_dot_segments",
                                   ln, mo, co, "spec : %s\n" % spec)
                            return
    elif cmd in ("upol", "uqol"):
        pc = G.parse_chain(co)
        if pc is None:
            cx.bad("unreadable chain", ln, mo, co)
            return
        rc, chain = pc
        npre, num = int(t[1]), int(t[2])
        pre = [(3, b"h"), (7, b"p"), (11, b"x")][:npre]
        if chain[:npre] != pre:
            cx.bad("options that were in the chain before the call were removed or changed",
                   ln, mo, co)
            return
        added = chain[npre:]
        if any(n != num for n, _ in added):
            cx.bad("wrong option number in the chain", ln, mo, co)
            return
        if cmd == "upol" and any(v in (b".", b"..") for _, v in added):
            cx.bad("a '.' or '..' segment is emitted as Uri-Path option", ln, mo, co)
            return
        if spec:
            sm = re.match(r"spec=(\S*) (?:rfc=(\S*) )?need=(\d+)$", spec)
            want = G.parse_spec_list(sm.group(1))
            if want is not None and [v for _, v in added] != want:
                cx.bad("optlist differs from RFC 3986 / RFC 7252 6.4 (decode once, resolve dots)",
                       ln, mo, co, "spec : %s\n" % spec)
                return
    elif cmd in ("ugetp", "ugetq"):
        segs = [G.untok(x) for x in t[1:]]
        m = re.match(r"str=(\S+) back=(.*)$", co)
        if not m:
            if co != "NOADD":
                cx.bad("unreadable result", ln, mo, co)
            return
        s = G.untok(m.group(1))
        key = tuple(G.norm(segs))
        seen = cx.rebuilt[cmd].setdefault(s, (key, ln))
        if seen[0] != key:
            cx.bad("reconstruction is not injective: two different option lists give the same "
                   "string", ln, mo, co, "other case: %s\n" % seen[1])
            return
        if cmd == "ugetq" or not G.has_dots(segs):
            back = G.parse_split_out(m.group(2))
            if back is None or G.norm(back) != G.norm(segs):
                cx.bad("reconstructed string does not feed back to the same options", ln, mo, co)
                return
    elif cmd == "uinto":
        m = re.match(r"rc=0 into=(\d) chain=(\S+)$", co)
        u = G.untok(t[3])
        want = G.ref_split(u, False, "11111")
        if (want is None) != (m is None):
            cx.bad("coap_split_uri differs from the URI grammar (RFC 3986 s.3 / RFC 7252 s.6)",
                   ln, mo, co, "grammar: %s\n" % G.show_parts(want))
            return
        if m and spec is not None:
            exp = G.expected_into(want, t[2], t[1] == "1", spec)
            got = G.parse_chain("rc=%s chain=%s" % (m.group(1), m.group(2)))[1]
            if exp is not None and got != exp:
                cx.bad("coap_uri_into_optlist: options differ from RFC 7252 6.4 (Uri-Host unless it "
                       "is the destination, Uri-Port unless default, decoded path and query)",
                       ln, mo, co, "expected: %s\n" % exp)
                return
        if m:
            pc = G.parse_chain("rc=%s chain=%s" % (m.group(1), m.group(2)))
            nums = [n for n, _ in pc[1]]
            if m.group(1) != "1" or nums != sorted(nums) or \
               any(n == 11 and v in (b".", b"..") for n, v in pc[1]) or \
               nums.count(3) > 1 or nums.count(7) > 1 or (t[1] == "0" and (3 in nums or 7 in nums)):
                cx.bad("coap_uri_into_optlist: options out of order, duplicated Uri-Host/Uri-Port, "
                       "or a dot segment emitted", ln, mo, co)
                return
    elif cmd == "uunix":
        want = "max=%s rc=1 path=%s" % (t[1], G.tok(G.ref_unix_path(G.untok(t[2]), int(t[1]))))
        if co != want:
            cx.bad("coap_address_set_unix_domain: sun_path is not the host with its complete %2F "
                   "escapes decoded (or COAP_UNIX_PATH_MAX changed)", ln, mo, co, "expected: %s\n" % want)
            return
    elif cmd == "uhostunix":
        h = G.untok(t[1])
        want = "unix=%d" % int(h[:3] in (b"%2F", b"%2f") or h[:1] == b"/")
        if co != want:
            cx.bad("coap_host_is_unix_domain: wrong answer for the length-delimited host", ln, mo, co,
                   "expected: %s\n" % want)
            return
    elif cmd == "unew":
        want = G.ref_split(G.untok(t[2]), False, t[1])
        got = "reject" if co == "rc=-1" else co.split(" clone=")[0]
        if got != G.show_parts(want):
            cx.bad("coap_new_uri differs from the URI grammar", ln, mo, co,
                   "grammar: %s\n" % G.show_parts(want))
            return
    elif cmd == "uspl":
        s = G.untok(t[3])
        want = G.ref_split(s, t[1] == "1", t[2])
        got = "reject" if re.match(r"rc=-\d+$", co) else co
        if got != G.show_parts(want):
            cx.bad("coap_split_uri differs from the URI grammar (RFC 3986 s.3 / RFC 7252 s.6)",
                   ln, mo, co, "grammar: %s\n" % G.show_parts(want))
            return
    # ---- tie
    if mo != co:
        cx.bad("implementation differs from the proved model", ln, mo, co, no_input=True)


def spec_lines(lines, skip=()):
    """for every path/query case the line that asks the extracted specification"""
    out = []
    for ln in lines:
        if ln in skip:
            out.append("")
            continue
        t = ln.split()
        if t[0] in ("upath", "upol"):
            out.append("spec_path " + t[-1])
        elif t[0] in ("uquery", "uqol"):
            out.append("spec_query " + t[-1])
        elif t[0] == "uinto":
            p = G.ref_split(G.untok(t[3]), False, "11111")
            out.append("spec_pq %s %s" % (G.tok(p[3]), G.tok(p[4])) if p else "")
        else:
            out.append("")
    return out


def run_batch(cx, model, drv, lines, variant):
    run = cx.run
    om, oc, crashes = tie.run_both(model, drv, lines, c_env={"ASAN_OPTIONS": "detect_leaks=0"})
    sp, _ = vlib.run_lines_robust(model, spec_lines(lines, cx.expect))
    for i, ln in enumerate(lines):
        check_case(cx, ln, om[i], oc[i], sp[i])
    for idx, rc, err in crashes[:3]:
        m = re.search(r"SUMMARY: (.*)", err)
        vlib.log("crash (%s) on '%s': %s" % (variant, lines[idx][:120], m.group(1) if m else rc))
    return len(crashes)


def main(run):
    run.cov["trusted_base"] = vlib.TRUSTED_COMMON + [
        "model: Uri/Uri.v Uri/Split.v (scanners of src/coap_uri.c transcribed with checked reads; "
        "coap_opt_setheader's size logic for delta 0 and the option walk of backup_segment are "
        "abstracted to the list of options written), spec: Uri/Spec.v",
        "oracle for coap_split_uri: the grammar as a Python regular expression (tools/gen_uri.py), "
        "independent of the Coq grammar"]
    run.assumptions = ["allocation never fails (C18 covers failures)",
                       "C locale for isdigit/isxdigit",
                       "input lengths < 2^64 (size_t)"]
    run.prove()
    if run.tier != "quick" and getattr(run, "proof_broken", None) is None:
        # independent re-check of the compiled property file and everything it depends on
        rc, out = vlib.sh(["coqchk", "-silent", "-o", "-Q", ".", "LibcoapV", "LibcoapV.Properties_C16"],
                          cwd=vlib.COQ, timeout=1500, check=False)
        ok = rc == 0 and "Axioms: <none>" in out
        run.cov["coqchk"] = "ok, Axioms: <none>" if ok else out[-400:]
        if not ok:
            run.violation("coqchk rejects Properties_C16 or reports axioms", out, tag="coqchk", no_input=True)
    model = vlib.build_model()
    drv = vlib.build_driver("h_uri", ["h_uri.c"])
    drv_asan = vlib.build_driver("h_uri", ["h_uri.c"], variant="asan")
    quick = run.tier == "quick"
    r = tie.rng_for(run, "c16")
    cx = Ctx(run)
    _, capo, _ = vlib.run_lines(drv, [], ["ucaps"])
    caps = capo[0].split("=")[1]
    run.cov["caps"] = caps

    if getattr(run, "replay", None):
        # re-run the case(s) named in a replay file through both variants, nothing else
        lines = [ln.split(":", 1)[1].strip() for ln in open(run.replay)
                 if ln.startswith("case") or ln.startswith("other case")]
        run_batch(cx, model, drv, lines, "base")
        run_batch(cx, model, drv_asan, lines, "asan")
        for ln in lines:
            run.count(ln, nontrivial(ln))
            run.sample({"case": ln[:200]})
        run.cov["replayed"] = len(lines)
        return
    base_lines = []      # base variant
    asan_lines = []      # additionally through the asan variant
    corpus = vlib.read_corpus("C16")
    corpus = [ln.replace("CAPS", caps) for ln in corpus]
    base_lines += corpus
    asan_lines += corpus

    # exhaustive leaf sweeps over the 12-character alphabet
    n_all = 4
    n_pq = 4 if quick else 5
    sweep = []
    for s in G.all_strings(n_pq):
        h = G.tok(s)
        sweep.append("upath 64 " + h)
        sweep.append("uquery 64 " + h)
        if len(s) <= n_all or not quick:
            sweep.append("upol 2 11 " + h)
            sweep.append("uqol 1 15 " + h)
        if len(s) <= n_all:
            sweep.append("uspl 0 %s %s" % (caps, G.tok(b"coap://h" + s)))
            sweep.append("uspl 0 %s %s" % (caps, G.tok(b"coap://" + s)))
            sweep.append("uspl 0 %s %s" % (caps, G.tok(b"/" + s)))
            sweep.append("uspl 1 %s %s" % (caps, G.tok(b"http://[" + s)))
        if len(s) <= 3:
            for bl in (0, 1, 2, 3, 4, 5, 6, 7):
                sweep.append("upath %d %s" % (bl, h))
                sweep.append("uquery %d %s" % (bl, h))
    run.cov["leaf_sweep"] = {"cases": len(sweep), "exhaustive": True,
                             "also_exhaustive": "all 256 byte values through the escape tables; '%' + all "
                             "65536 byte pairs through coap_split_path and coap_path_into_optlist; port texts "
                             "0..66000 through coap_split_uri; all 65536 ports x 6 schemes through "
                             "coap_uri_into_optlist; 20 scheme names x proxy flag x 6 tails",
                             "exhaustive_over": "all strings over 'a./%%2eE?#&:[' of length <= %d as "
                             "path and query (buffer 64), <= %d through the optlist functions and as "
                             "URI tails, <= 3 with every buffer size 0..7" % (n_pq, n_all)}
    base_lines += sweep
    asan_lines += [ln for ln in sweep if len(G.untok(ln.split()[-1])) <= (n_pq if not quick else 3) + 8]

    # scheme table: every known and unknown scheme x Proxy-Uri or not x explicit/empty/no port
    for sch in list(G.SCHEMES) + G.BAD_SCHEMES:
        for px in (0, 1):
            for tail in (b"://h", b"://h:", b"://h:1", b"://[::1]:65535/a?b", b"://%2Fsock", b":/h"):
                base_lines.append("uspl %d %s %s" % (px, caps, G.tok(sch + tail)))
    # option-length representability boundaries: a single segment / item of exactly L DECODED bytes
    # (header forms change at 12/13 and 268/269; 65804 = 269 + 65535 is the largest length an
    # option header can carry, 65805 would wrap to "0e 00 00"), written plainly, with the last
    # byte escaped, and fully escaped for the small ones; alone and between two other segments;
    # buffer exactly fitting, one short, roomy.  Both tiers, base and asan.
    bnd = []
    for L in (11, 12, 13, 14, 267, 268, 269, 270, 65803, 65804, 65805, 65806, 70000):
        hdr = 1 if L < 13 else 2 if L < 269 else 3
        big = L > 300
        forms = [b"a" * L, b"a" * (L - 1) + b"%7A"]
        if not big or not quick:
            forms.append(b"%41" + b"a" * (L - 1))
        if not big:
            forms.append(b"%7a" * L)
        for raw in forms:
            h = G.tok(raw)
            for bl in ((hdr + L, hdr + L - 1) if big and quick else (hdr + L, hdr + L - 1, hdr + L + 10)):
                bnd.append("upath %d %s" % (bl, h))
                bnd.append("uquery %d %s" % (bl, h))
            if not big or not quick or raw is forms[0]:
                bnd.append("upol 1 11 " + h)
                bnd.append("uqol 1 15 " + h)
        if not big or not quick or L == 65805:
            bnd.append("upath %d %s" % (L + 20, G.tok(b"x/" + b"a" * L + b"/y")))
            bnd.append("uquery %d %s" % (L + 20, G.tok(b"x&" + b"a" * (L - 1) + b"%7A" + b"&y")))
    base_lines += bnd
    asan_lines += [ln for ln in bnd if not quick or len(ln) < 2000 or ln.startswith("upath")]
    run.cov["length_boundary_cases"] = len(bnd)
    # hosts that END the exact-size buffer, through coap_uri_into_optlist / coap_host_is_unix_domain
    # / coap_split_uri: the Unix-domain test reads host->s[0..2] (asan traps a read past "%2")
    hostend = []
    HEND = [b"%", b"%2", b"%2f", b"%2F", b"%2Fx", b"%2fsock", b"%2G", b"%3", b"%25", b"%2%", b"%%2F",
            b"/", b"h", b"2F", b"%2F%2F", b"[%2]", b"[%2F]", b"a%2", b"a%2F"]
    for h in HEND:
        hostend.append("uhostunix " + G.tok(h))
        for sch in (b"coap", b"coaps", b"coap+tcp", b"coaps+tcp", b"coap+ws", b"coaps+ws"):
            for tail in (b"", b":1", b"/a", b"?q"):
                u = G.tok(sch + b"://" + h + tail)
                hostend.append("uspl 0 %s %s" % (caps, u))
                if caps == "11111":
                    for dst in ("-", "198.51.100.1"):
                        hostend.append("uinto 1 %s %s" % (dst, u))
                    hostend.append("uinto 0 - %s" % u)
    for s in G.all_strings(3):
        hostend.append("uhostunix " + G.tok(s))
        if caps == "11111" and s:
            hostend.append("uinto 1 - " + G.tok(b"coap://" + s))
    # coap_address_set_unix_domain on exact-size Unix-domain hosts (asan traps a read past "%2")
    _, pmo, _ = vlib.run_lines(drv, [], ["uunixmax"])
    pmax = int(pmo[0])
    run.cov["COAP_UNIX_PATH_MAX"] = pmax
    UH = [b"%2Ftmp%2Fa%2", b"%2Ftmp%2Fa%2Fb", b"%2F%", b"%2Fx%2", b"%2F", b"%2f", b"%2", b"%", b"/tmp/x",
          b"%2Fa%2fb%2Fc", b"%2F%2F%2F", b"%2F%41", b"%2F%2e", b"%2Fa%00b", b"%2F" + b"a" * 21, b"%2F" + b"a" * 22,
          b"%2F" + b"a" * 23, b"%2F" + b"a" * 24, b"%2F" + b"a" * 25, b"%2F" + b"a" * 40, b"%2F" * 25, b"%2F" * 26,
          b"%2F" * 27, b"a" * 24 + b"%2F", b"a" * 24 + b"%2", b"a" * 25 + b"%2F", b"a" * 23 + b"%2F%2", b""]
    for h in UH:
        hostend.append("uunix %d %s" % (pmax, G.tok(h)))
    for s in G.all_strings(4, b"a%2Ff/"):
        hostend.append("uunix %d %s" % (pmax, G.tok(b"%2F" + s)))
        if len(s) <= 3:
            hostend.append("uunix %d %s" % (pmax, G.tok(s)))
            hostend.append("uunix %d %s" % (pmax, G.tok(b"a" * (pmax - 4) + s)))
    base_lines += hostend
    asan_lines += hostend
    run.cov["host_at_end_cases"] = len(hostend)
    # Uri-Port decision: every port x every scheme coap_split_uri accepts (finite leaf domain)
    if caps == "11111":
        for sch in (b"coap", b"coaps", b"coap+tcp", b"coaps+tcp", b"coap+ws", b"coaps+ws"):
            pre = "uinto 1 - " + G.tok(sch + b"://h:")
            dflt = G.SCHEMES[sch][1]
            for port in range(65536):
                ln = pre + str(port).encode().hex()
                base_lines.append(ln)
                v = "-" if port == 0 else ("%02x" % port if port < 256 else "%04x" % port)
                cx.expect[ln] = "rc=0 into=1 chain=" + ("-" if port == dflt else "7:" + v)
    # port text -> value: every number 0..66000 (finite leaf domain of the port scanner)
    pre = "uspl 0 %s %s" % (caps, G.tok(b"coap://h:"))
    for port in range(66001):
        ln = pre + str(port).encode().hex()
        base_lines.append(ln)
        cx.expect[ln] = ("rc=0 sch=0 host=68 port=%d path=- query=-" % port) if port < 65536 else "reject"
    # escape decoding: '%' followed by every pair of byte values, through all three decoders
    for x in range(256):
        for y in range(256):
            h = "25%02x%02x" % (x, y)
            base_lines.append("upath 8 " + h)
            base_lines.append("upol 0 11 " + h)
            if y % 4 == x % 4:
                base_lines.append("uquery 8 " + h)
    # escape tables: every byte value alone and next to a neighbour
    for b in range(256):
        for cmd in ("ugetp", "ugetq"):
            base_lines.append("%s %02x" % (cmd, b))
            base_lines.append("%s 61%02x %02x62" % (cmd, b, b))
    # generated cases; buffer sizes are aimed at the exact need the specification computes
    n = 20000 if quick else 600000
    pstr = [G.gen_path(r) for _ in range(n * 3 // 10)]
    qstr = [G.gen_path(r, query=True) for _ in range(n * 2 // 10)]
    needs, _ = vlib.run_lines_robust(model, ["spec_path " + G.tok(s) for s in pstr] +
                                     ["spec_query " + G.tok(s) for s in qstr])
    needs = [int(x.rsplit("need=", 1)[1]) for x in needs]

    def buflen_for(need, s, query):
        x = r.random()
        if x < 0.5:
            return max(0, need + r.choice([-1, 0, 0, 1]))
        if x < 0.6:
            return r.choice([0, 1, 2, 3, 4])
        if x < 0.8:
            return need + r.choice([2, 7, 300])
        return G.gen_buflen(r, s, query)

    gen = []
    for i, s in enumerate(pstr):
        gen.append("upath %d %s" % (buflen_for(needs[i], s, False), G.tok(s)))
        if i % 3 == 0:
            gen.append("upol %d 11 %s" % (r.choice([0, 0, 1, 2, 3]), G.tok(s)))
    for i, s in enumerate(qstr):
        gen.append("uquery %d %s" % (buflen_for(needs[len(pstr) + i], s, True), G.tok(s)))
        if i % 2 == 0:
            gen.append("uqol %d 15 %s" % (r.choice([0, 1, 2]), G.tok(s)))
    for i in range(n * 3 // 10):
        u = G.gen_uri(r)
        gen.append("uspl %d %s %s" % (r.random() < 0.25, caps, G.tok(u)))
        if i % 4 == 0:
            gen.append("unew %s %s" % (caps, G.tok(u)))
    if caps == "11111":
        for i in range(n // 20):
            u = G.gen_uri(r)
            if 0 < len(u) <= 1034:
                gen.append("ugetproxy " + G.tok(u))
        for i in range(n // 10):
            dst, u = G.gen_into(r)
            gen.append("uinto %d %s %s" % (r.random() < 0.8, dst, G.tok(u)))
    for i in range(n * 2 // 10):
        segs = G.gen_seglist(r)
        gen.append("%s %s" % (r.choice(["ugetp", "ugetq"]), " ".join(G.tok(x) for x in segs)))
    r.shuffle(gen)
    gen = [ln.replace("True", "1").replace("False", "0") for ln in gen]
    base_lines += gen
    asan_lines += gen[: (6000 if quick else len(gen))]

    t0 = time.time()
    ncr = run_batch(cx, model, drv, base_lines, "base")
    t1 = time.time()
    ncr += run_batch(cx, model, drv_asan, asan_lines, "asan")
    run.cov["seconds"] = {"base": round(t1 - t0, 1), "asan": round(time.time() - t1, 1)}
    run.cov["driver_crashes"] = ncr
    for ln in base_lines:
        run.count(ln, nontrivial(ln))
        run.hist("entry", ln.split()[0])
    run.cov["evaluations"] += len(asan_lines)
    run.cov["asan_cases"] = len(asan_lines)
    for ln in gen[:4] + sweep[700:702]:
        run.sample({"case": ln[:200]})
    for ln in gen:
        t = ln.split()
        if t[0] in ("upath", "uquery"):
            run.hist("buflen", min(int(t[1]), 20))
        run.hist("input_len", min(len(G.untok(t[-1])) // 4 * 4, 64) if t[0][:4] != "uget" else "segs")
    run.cov["disagreements"] = cx.nbad
    run.cov["not_run_after_crashes"] = cx.notrun
    run.cov["corpus_cases"] = len(corpus)

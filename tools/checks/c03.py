"""C03 - the decoder accepts exactly the well-formed messages (DESIGN.md section 6, C03)."""
import vlib
import tie
import gen_wire

RULE = ("byte strings: valid encodings (3 framings) mutated at every field, blind bytes, and an "
        "exhaustive sweep of option headers after max_opt in {0,65000,65535}; non-trivial = the "
        "reference decoder accepts it with >= 1 option or it is a single-field mutation of such an "
        "encoding; distinct = distinct (framing, bytes)")


def main(run):
    run.cov["trusted_base"] = vlib.TRUSTED_COMMON + [
        "model: Wire/OptCodec.v Wire/Pdu.v (parser transcribed from coap_opt_parse, "
        "coap_pdu_parse_header, coap_pdu_parse_opt; per-option limit tables transcribed by hand, "
        "swept against the code for all option numbers, and proved equal to the RFC tables of "
        "Wire/RfcLimits.v - theorem C03_limits_are_the_rfc_limits; RfcLimits.v itself is read "
        "off RFC 7252 5.10, 7641, 7959, 7967, 8323 5, 8613, 8768, 8974, 9175, 9177 by hand)"]
    run.assumptions = ["for TCP/TLS the Len prefix is checked by the stream reader (C05), coap_pdu_parse itself ignores it",
                       "on WebSocket the Len nibble of the first byte is ignored by the receiver"]
    run.prove()
    model = vlib.build_model()
    drv = vlib.build_driver("h_wire", ["h_wire.c"])
    r = tie.rng_for(run, "c03")
    n = 12000 if run.tier == "quick" else 400000
    lines = list(vlib.read_corpus("C03"))
    kinds = ["corpus"] * len(lines)
    for i in range(n):
        x = r.random()
        if x < 0.15:
            proto = r.choice(["udp", "tcp", "ws"])
            b = gen_wire.rbytes(r, r.choice([0, 1, 2, 3, 4, 5, 6, 8, 12, 30]))
            kind = "blind"
        else:
            proto, b = gen_wire.gen_valid_msg(r, small=(x < 0.9))
            kind = "valid"
            if x > 0.35:
                for _ in range(r.choice([1, 1, 1, 2, 3])):
                    b = gen_wire.mutate(r, b)
                kind = "mutated"
        lines.append("c03 %s %s" % (proto, b.hex() if b else "-"))
        kinds.append(kind)
    # exhaustive option-header sweep
    exts = [0x00, 0xfe, 0xff] if run.tier == "quick" else [0x00, 0x01, 0xfd, 0xfe, 0xff]
    prevs = {0: b"", 65000: gen_wire.py_opt(65000, b""), 65535: gen_wire.py_opt(65535, b"")}
    nsweep = 0
    for pv, pb in prevs.items():
        for b0 in range(256):
            for k in range(0, 5):
                import itertools
                for ext in itertools.product(exts, repeat=k):
                    if k >= 3 and b0 >> 4 < 13 and (b0 & 15) < 13:
                        continue       # no extension bytes for this header; already covered by k<3
                    msg = bytes([0x40, 0x01, 0x12, 0x34]) + pb + bytes([b0]) + bytes(ext)
                    lines.append("c03 udp " + msg.hex())
                    kinds.append("sweep")
                    nsweep += 1
    # per-option limit sweep: option n alone at boundary lengths, request and signalling codes
    blens = [0, 1, 2, 3, 4, 5, 8, 9, 40, 41, 255, 256, 1034, 1035]
    nums = range(0, 65536) if run.tier == "thorough" else list(range(0, 320)) + [2048, 65000, 65535]
    for code in ([1, 69, 225, 226, 227, 228, 229, 230] if run.tier == "thorough" else [1, 225, 226, 228, 229]):
        for nn in nums:
            for bl in blens:
                lines.append("c01 udp 0 %d 1 0 O %d %s" % (code, nn, "@%d,1" % bl if bl else "-"))
                kinds.append("limit")
    # the top of the length ranges: tokens and option values of 65535 .. 65804 bytes (the two-byte
    # extension forms up to their maximum), on every framing, plus the same bytes cut by one byte
    big = [65535, 65536, 65537, 65803, 65804]
    for proto in ("udp", "tcp", "ws"):
        for tl in [269, 300] + big:
            b = gen_wire.py_serialize(proto, 0, 1, 0x1234, gen_wire.rbytes(r, tl), [(11, b"a")], b"x")
            lines.append("c03 %s %s" % (proto, b.hex()))
            kinds.append("bigfield")
            lines.append("c03 %s %s" % (proto, b[:-3].hex()))
            kinds.append("bigfield")
        for vl in big:
            for num in (65000, 2049):
                b = gen_wire.py_serialize(proto, 0, 2, 0x1234, b"\x01", [(11, b"a"), (num, gen_wire.rbytes(r, vl))],
                                          b"" if vl % 2 else b"p")
                lines.append("c03 %s %s" % (proto, b.hex()))
                kinds.append("bigfield")
            lines.append("c03 %s %s" % (proto, b[:-2].hex()))
            kinds.append("bigfield")
    # stream framing: coap_pdu_parse_size on the header (+ token-length extension bytes) of valid
    # and mutated TCP encodings, all four Len forms x token forms
    for i in range(1500 if run.tier == "quick" else 40000):
        proto, b = gen_wire.gen_valid_msg(r, small=(i % 7 != 0))
        if proto != "tcp":
            tl = r.choice([0, 1, 8, 12, 13, 14, 268, 269, 300])
            pl = gen_wire.rbytes(r, r.choice([0, 1, 5, 11, 12, 13, 200, 267, 268, 269, 300]))
            b = gen_wire.py_serialize("tcp", 0, r.choice([1, 2, 69, 225]), 0, gen_wire.rbytes(r, tl),
                                      [(11, b"a")] if r.random() < 0.5 else [], pl)
        if r.random() < 0.3:
            b = gen_wire.mutate(r, b)
        if not b:
            continue
        hs = 2 if b[0] >> 4 < 13 else 3 if b[0] >> 4 == 13 else 4 if b[0] >> 4 == 14 else 6
        ext = 1 if b[0] & 15 == 13 else 2 if b[0] & 15 == 14 else 0
        if len(b) < hs + ext:
            continue
        for cut in (hs + ext, len(b)):
            lines.append("psize tcp " + b[:cut].hex())
            kinds.append("framesize")
        lines.append("psize ws " + b[:max(2, hs)].hex())
        kinds.append("framesize")
    # coap_pdu_parse_size over the token-length extension field itself: TKL 13 with every extension
    # byte, TKL 14 with every 16-bit extension (thorough) / every value with a boundary byte
    # (quick), under all four Len forms - only the header bytes are needed
    edge = (0, 1, 2, 0x7f, 0x80, 0xfd, 0xfe, 0xff)
    lenforms = [bytes([0x00]), bytes([0xd0, 0x05]), bytes([0xe0, 0x01, 0x02]), bytes([0xf0, 0, 0, 0x01, 0x02])]
    for lf in lenforms:
        for e in range(256):
            h = bytes([lf[0] | 13]) + lf[1:] + bytes([0x01, e])
            lines.append("psize tcp " + h.hex())
            kinds.append("framesize")
        for e in range(65536):
            if run.tier != "thorough" and (e >> 8) not in edge and (e & 0xff) not in edge:
                continue
            if run.tier == "thorough" and lf is not lenforms[0] and (e >> 8) not in edge and (e & 0xff) not in edge:
                continue
            h = bytes([lf[0] | 14]) + lf[1:] + bytes([0x01, e >> 8, e & 0xff])
            lines.append("psize tcp " + h.hex())
            kinds.append("framesize")
    om, oc, crashes = tie.run_both(model, drv, lines)
    run.cov["driver_crashes"] = len(crashes)
    nbad = 0
    for i, ln in enumerate(lines):
        mo, co = om[i], oc[i]
        acc = mo != "REJECT" and "REJECT" not in mo
        nontriv = kinds[i] in ("mutated", "sweep", "limit", "framesize", "bigfield") or (acc and "o=-" not in mo)
        run.count(ln, nontriv)
        run.hist("kind", kinds[i])
        run.hist("reference_verdict", "accept" if acc else "reject")
        if i % 4000 == 7:
            run.sample({"case": ln[:200], "impl": co[:200]})
        if mo != co:
            nbad += 1
            if nbad <= 3:
                what = ("decoder disagrees with the reference decoding (%s): reference=%s impl=%s"
                        % (kinds[i], mo[:120], co[:120]))
                run.violation(what, "case: %s\nreference (proved model): %s\nimpl: %s\n" % (ln, mo, co),
                              tag="dec%d" % nbad)
    run.cov["disagreements"] = nbad
    if run.tier == "thorough":
        # independent re-check of the compiled proofs (coqchk: kernel only, reports axioms)
        rc, out = vlib.sh(["coqchk", "-silent", "-o", "-Q", ".", "LibcoapV", "LibcoapV.Properties_C03"],
                          cwd=vlib.COQ, timeout=1800, check=False)
        ok = rc == 0 and "* Axioms: <none>" in out
        run.cov["coqchk"] = "ok, axioms: none" if ok else out[-600:]
        if not ok:
            run.violation("coqchk does not accept Properties_C03.vo (or finds axioms)", out[-4000:],
                          tag="coqchk", no_input=True)
    run.cov["header_sweep_cases"] = nsweep

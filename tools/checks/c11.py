"""C11 - Observe: registered observers get fresh, ordered notifications until cancelled
(DESIGN.md section 6, C11).

Every run: (1) Properties_C11.vo is rebuilt (theorems about the Gallina model of the Observe
bookkeeping and about the trace acceptor); (2) a real libcoap server (objects from /repo's working
tree) is driven through histories by scripted observers; its trace is
  F: replayed through the extracted model - notifications (observer, Observe value, NON/CON),
     registration responses, 4.04s and the final subscriber lists must be identical;
  R: judged by the extracted, verified acceptor (freshness, latest-after-step, CON cadence, nothing
     after de-registration) - once as libcoap defines the RST rule, once as the property states it;
  O: checked by implementation-only oracles (body = latest application state, session alive and
     referenced while it has observers, the I/O loop looks at the observers on every turn).
(3) real libcoap clients (coap_send with Observe, coap_cancel_observe, applications that forget an
observation and reset what arrives) observe the same server through a FIFO network with loss;
oracles on the clients' response-handler log: Observe order = order of the application states,
after a loss-free closing phase every registered observer has heard the latest state and nobody who
cancelled / reset is still registered, no notification to an observer after the server deleted it.
"""
import re
import vlib
import tie
import gen_observe as G

RULE = ("histories of register / cancel / re-register / change bursts / I/O turns / ACK / RST (fresh, "
        "stale, duplicated) / give-up / error answers / session loss / resource deletion by 1..4 "
        "scripted observers on 1..3 resources (3 notify modes, NSTART 1..3); non-trivial = at least "
        "3 notifications were sent and at least one of: a de-registration event took effect, a "
        "notification was held back by NSTART, a confirmable notification was sent; distinct = "
        "distinct case lines")

REASONS = {1: "outputs do not fit the op", 2: "message to an observer that is not registered",
           3: "notification does not carry the resource's current Observe value",
           4: "notification repeats the previous Observe value",
           5: "more than COAP_OBS_MAX_NON non-confirmable notifications in a row",
           6: "observer misses the latest state after an I/O step although its NSTART window is free",
           7: "ordinals out of sequence", 8: "registration response with a wrong Observe value",
           9: "Observe value out of range"}


class Verdict:
    def __init__(self):
        self.kind = None          # None = fine; else a short class name
        self.what = ""
        self.known = None
        self.detail = ""
        self.nontrivial = False
        self.stats = {}


def stale_rst_signature(t, idx):
    """The strict acceptor differs from the libcoap-rule acceptor in exactly one clause: on an RST
    it also removes the observer when the RST names ANY notification of its current registration
    (Accept.v, ac_rst_strict).  So when the libcoap-rule acceptor accepts the whole history and
    the strict one rejects at group idx, the first divergence is an RST op before idx that names a
    notification which was neither in flight nor the observer's latest one.  Find it."""
    sent = {}                     # ordinal -> (r, c, tok, con)
    latest = {}                   # (r, c, tok) -> ordinal of its latest notification
    for gi, gg in enumerate(t.groups[:idx + 1]):
        if gg[0].startswith("T:") and gi < idx:
            _, c, k = gg[0].split(":")
            k = int(k)
            if k in sent and sent[k][1] == c and latest.get(sent[k][:3]) != k:
                return ("RST for the older %s notification #%d (observer %s token %s) was ignored"
                        % ("confirmable" if sent[k][3] else "non-confirmable", k, c, sent[k][2]))
        for o in gg[1]:
            if o[0] in "NE":
                f = o[1:].split(":")
                sent[int(f[0])] = (f[1], f[2], f[3], f[-1] == "C")
                latest[(f[1], f[2], f[3])] = int(f[0])
    return None


def fresh_oracle(t):
    """implementation-only form of 'Observe value strictly greater (24-bit serial numbers) than in
    any earlier notification': every notification to (resource, observer, token) against the
    previous value-carrying message to it (a registration response may be repeated once: the
    registration can fall between a change and the I/O step).  -> None or a description"""
    last = {}                       # (r, c, tok) -> (value, was_registration_response)
    extras = {}
    for e in t.extra_notifs:
        extras.setdefault(e[0], []).append(e)
    for gi, g in enumerate(list(t.groups) + [["-", []]]):
        for (_, r, c, tok, v, ev) in extras.get(gi, []):
            # an Observe option on the answer to a request for a later block
            key = (r, c, tok)
            if key in last:
                pv, weak = last[key]
                d = (v - pv) % (1 << 24)
                if not (1 <= d < (1 << 23)):
                    return ("block response %s: Observe %d after %d for the same observer is not fresher"
                            % (ev, v, pv))
            last[key] = (v, False)
        for o in g[1]:
            if o[0] == "Q":
                r, c, tok, v = o[1:].split(":")
                if v != "-":
                    last[(r, c, tok)] = (int(v), True)
                else:
                    last.pop((r, c, tok), None)
            elif o[0] == "N":
                f = o[1:].split(":")
                key, v = (f[1], f[2], f[3]), int(f[4])
                if key in last:
                    pv, weak = last[key]
                    d = (v - pv) % (1 << 24)
                    if not ((0 if weak else 1) <= d < (1 << 23)):
                        return ("notification %s: Observe %d after %d for the same observer is not fresher"
                                % (o, v, pv))
                last[key] = (v, False)
            elif o[0] in "EG":
                f = o[1:].split(":")
                last.pop(tuple(f[1:4]) if o[0] == "E" else tuple(f[0:3]), None)
        if g[0][0] == "D":
            r = g[0].split(":")[1]
            for k in [k for k in last if k[0] == r]:
                del last[k]
    return None


def judge(case, trace, mo, acc_l, acc_s, consts_expected=None):
    """-> Verdict for one history"""
    v = Verdict()
    if trace.startswith("CRASH") or trace.startswith("<not run>") or trace.startswith("ERROR"):
        v.kind, v.what = "crash", "driver: " + trace[:100]
        return v
    t = G.translate(case, trace)
    v.t = t
    if not t.ok:
        v.kind, v.what = "trace", "implementation trace outside the vocabulary: " + t.why
        return v
    nnot = sum(1 for d in t.datagrams if d["origin"] == "n")
    ncon = sum(1 for d in t.datagrams if d["origin"] == "n" and d["type"] == "C")
    v.stats = {"notifications": nnot, "con": ncon, "steps": t.steps}
    # ---- O: implementation-only oracles
    # body = latest application state (number of changes so far, by position of the datagram)
    cnt = {}
    for tk in trace.split():
        if tk.startswith("[chg:"):
            f = tk[1:].split(":")
            cnt[int(f[1])] = cnt.get(int(f[1]), 0) + int(f[2])
        elif tk.startswith("X"):
            f = tk[1:].split(":")
            if len(f) >= 9 and f[2] == "n" and (int(f[4]) >> 5) == 2 and f[8] != "-":
                body = bytes.fromhex(f[8]).decode("latin-1")
                m = re.match(r"(\d+)\.(\d+)(\.x*)?$", body)
                if not m or int(m.group(2)) != cnt.get(int(m.group(1)), 0):
                    v.kind = "oracle"
                    v.what = ("notification %s carries body %r, the resource's latest state is %d"
                              % (tk, body, cnt.get(int(m.group(1)), 0) if m else -1))
                    return v
    # every message with an Observe option (block responses included) is fresher than the last one
    fo = fresh_oracle(t)
    if fo is not None:
        v.kind = "oracle"
        v.what = fo
        return v
    # session alive and referenced while it has observers
    subs_per_peer = {}
    for tk in t.dump.split():
        m = re.match(r"R\d+=\d+/\d/\d:(.*)$", tk)
        if m and m.group(1) != "-":
            for it in m.group(1).split(","):
                c = int(it.split(".")[0])
                subs_per_peer[c] = subs_per_peer.get(c, 0) + 1
    if t.refs_raw is not None:
        for c, n in subs_per_peer.items():
            if c < 0 or c >= len(t.refs_raw) or t.refs_raw[c] == "-" or int(t.refs_raw[c]) < n:
                v.kind = "oracle"
                v.what = ("observer %d has %d subscriptions but its session is %s" %
                          (c, n, "gone" if t.refs_raw[c] == "-" else "referenced %s times" % t.refs_raw[c]))
                return v
    # every turn of the I/O loop looks at the observers
    toks = trace.split()
    for i, tk in enumerate(toks):
        if tk.startswith("[") and tk[1:].split(":")[0] in ("io", "adv", "idle", "reg", "can"):
            j = i + 1
            seen = False
            while j < len(toks) and not toks[j].startswith("[") and toks[j] != "|":
                if toks[j].startswith("S"):
                    seen = True
                j += 1
            refused = any(x.startswith("X") and x.split(":")[3] == "R" for x in toks[i + 1:j])
            if not seen and not refused:
                v.kind = "oracle"
                v.what = "I/O turn %s did not run coap_check_notify" % tk
                return v
    # ---- R: verified acceptor on the implementation's trace
    if acc_l.startswith("REJECT"):
        _, idx, code = acc_l.split()
        idx, code = int(idx), int(code)
        g = t.groups[idx] if idx < len(t.groups) else ["?", [], "?"]
        v.what = ("acceptor rejects the implementation's history at op %d (%s, harness op %s): %s"
                  % (idx, g[0], g[2], REASONS.get(code, "reason %d" % code)))
        v.detail = "outputs of that op: %s" % " ".join(g[1])
        if t.ca_leaks:
            v.detail += ("\nNSTART accounting: " + "; ".join(t.ca_leaks[:3]) +
                         " (the acceptor was given the number outstanding on the wire)")
        if code in (3, 8):
            # the acceptor ties the Observe value to libcoap's counter (one step per change); the
            # property only asks for freshness: decide that on the implementation's values alone
            fo = fresh_oracle(t)
            if fo is None:
                v.kind = "tie"
                v.what = ("Observe values differ from the model's counter scheme but are fresh (%s)"
                          % REASONS.get(code))
                return v
            v.detail += "\nfreshness oracle: " + fo
        v.kind = "acceptor"
        return v
    if not acc_l.startswith("ACCEPT"):
        v.kind, v.what = "acceptor", "acceptor failed: " + acc_l[:200]
        return v
    # ---- F: exact correspondence with the model
    ic = G.impl_canonical(t)
    v.internal_diff = G.canon_model(mo) != G.canon_model(ic)
    if G.strip_internal(G.canon_model(mo)) != G.strip_internal(G.canon_model(ic)):
        v.kind = "tie"
        v.what = "implementation differs from the proved model"
        v.detail = "model: %s\nimpl : %s" % (mo, ic)
        return v
    # ---- the property as stated (every RST for a notification de-registers)
    if acc_s.startswith("REJECT"):
        _, idx, code = acc_s.split()
        idx, code = int(idx), int(code)
        sig = stale_rst_signature(t, idx)
        v.kind = "strict"
        v.what = ("as stated the property is violated at op %d (%s): %s" %
                  (idx, t.groups[idx][0] if idx < len(t.groups) else "?", REASONS.get(code, str(code))))
        if sig:
            v.known = "stale-rst"
            v.detail = sig
        return v
    dereg = any(g[0][0] in "CTFLD" for g in t.groups) or any(o[0] == "E" for g in t.groups for o in g[1])
    held = " P1" in (" " + t.dump) or any(re.search(r"\.\d+\.\d+\.1(,|$)", tk) for tk in t.dump.split())
    v.nontrivial = nnot >= 3 and (dereg or held or ncon > 0)
    return v


def evaluate(lines, drv, model):
    """run a batch of case lines -> list of Verdict"""
    traces, crashes = vlib.run_lines_robust(drv, lines, timeout=900)
    ts = []
    ml, al, sl = [], [], []
    for ln, tr in zip(lines, traces):
        t = G.translate(ln, tr) if tr.startswith("K ") else None
        ts.append(t)
        if t is not None and t.ok:
            ml.append(G.model_line(t))
            al.append(G.acceptor_line(t, False))
            sl.append(G.acceptor_line(t, True))
        else:
            ml.append("")
            al.append("")
            sl.append("")
    mo, _ = vlib.run_lines_robust(model, ml, timeout=900)
    ao, _ = vlib.run_lines_robust(model, al, timeout=900)
    so, _ = vlib.run_lines_robust(model, sl, timeout=900)
    out = []
    for i, ln in enumerate(lines):
        v = judge(ln, traces[i], mo[i], ao[i], so[i])
        v.trace = traces[i]
        v.model_out = mo[i]
        out.append(v)
    return out, len(crashes)


def shrink(line, kind, drv, model, known=None):
    toks = line.split()
    hdr, ops = toks[:6], [[o] for o in toks[6:]]

    def still(prefix, cand):
        ln = " ".join(prefix + [c[0] for c in cand])
        vs, _ = evaluate([ln], drv, model)
        return vs[0].kind == kind and vs[0].known == known
    small = tie.shrink_ops(hdr, ops, still, max_steps=250)
    return " ".join(hdr + [c[0] for c in small])


def main(run):
    run.cov["trusted_base"] = vlib.TRUSTED_COMMON + [
        "model: Observe/Observe.v transcribed by hand from coap_resource.c / coap_net.c / "
        "coap_cache.c (sessions = peers, cache key = its preimage tuple, mids = notification "
        "ordinals, con_active is an input of every I/O step)",
        "harness/h_observe.c: ld --wrap of coap_check_notify_lkd, coap_handle_failed_notify, "
        "coap_retransmit (observation only) on top of common/vnet.h; scripted observers",
        "tools/gen_observe.py: translation of the implementation's trace into model ops"]
    run.assumptions = [
        "the digest of the cache key has no collisions (the model compares the preimage tuples)",
        "message ids of one session do not wrap within a history",
        "COAP_OBS_MAX_FAIL = 1 (the property: a failed confirmable notification de-registers)",
        "the application handler answers 2.05 or an error-class code and does not call back into the library",
        "notification bodies fit one block (block-wise: C09; persistence: C17)"]
    run.prove()
    model = vlib.build_model()
    drv = vlib.build_driver("h_observe", ["h_observe.c"], wraps=G.WRAPS)
    r = tie.rng_for(run, "c11")
    n = 5000 if run.tier == "quick" else 120000
    lines = [ln for ln in vlib.read_corpus("C11") if ln.startswith("c11 ")]
    kinds = ["corpus"] * len(lines)
    for i in range(n):
        prof = None
        hdr, ops = G.gen_case(r, profile=prof)
        lines.append(G.line_of(hdr, ops))
        kinds.append("generated")
    if run.tier == "thorough":
        # exhaustive sweep of short histories over a small alphabet (every interleaving of
        # register / re-register / cancel / change / I/O / ACK / RST fresh+stale / give-up /
        # error mode / session loss / deletion after one registration)
        import itertools
        alpha = ["reg:0:0:-:a1:0", "reg:0:0:-:a2:1", "reg:1:0:61:b1:0", "can:0:0:-:a1:0", "chg:0:1",
                 "io", "ack:0:0", "rst:0:0", "rst:0:1", "fail", "err:0:132", "err:0:0", "lost:0", "del:0"]
        for mode, nstart, depth in ((0, 1, 4), (1, 1, 4), (1, 2, 3)):
            for seq in itertools.product(alpha, repeat=depth):
                lines.append("c11 1 %d 0 0 %d reg:0:0:-:a1:0 chg:0:1 %s chg:0:1 io" %
                             (mode, nstart, " ".join(seq)))
                kinds.append("sweep")
    verdicts, ncrash = evaluate(lines, drv, model)
    if run.tier == "thorough":
        # the same corpus + a sample of the generated histories under ASan/UBSan: the deletion
        # paths (observer freed while its list is walked, session released) must be memory safe
        drv_asan = vlib.build_driver("h_observe", ["h_observe.c"], variant="asan", wraps=G.WRAPS)
        sample = [ln for ln, k in zip(lines, kinds) if k != "sweep"][:6000]
        outs_a, crashes_a = vlib.run_lines_robust(drv_asan, sample, timeout=1800,
                                                  env={"ASAN_OPTIONS": "detect_leaks=1:abort_on_error=0"})
        run.cov["asan_cases"] = len(sample)
        run.cov["asan_crashes"] = len(crashes_a)
        for idx, rc, err in crashes_a[:2]:
            run.violation("the driver built with ASan/UBSan stops on this history (rc=%d)" % rc,
                          "case: %s\n\n%s\nreplay: echo '<case>' | .build/obj/asan/h_observe\n"
                          % (sample[idx], err), tag="asan%d" % idx)
    run.cov["driver_crashes"] = ncrash
    nbad = {}
    consts = None
    for i, (ln, v) in enumerate(zip(lines, verdicts)):
        run.count(ln, v.nontrivial)
        run.hist("source", kinds[i])
        run.hist("ops", min(len(ln.split()) - 6, 60) // 10 * 10)
        if v.stats:
            run.hist("notifications", min(v.stats["notifications"], 40) // 5 * 5)
            run.hist("has_con", 1 if v.stats["con"] else 0)
        t = getattr(v, "t", None)
        if t is not None and t.ok:
            consts = t.consts
            for g in t.groups:
                run.hist("model_op", g[0][0])
        run.hist("verdict", v.kind or "ok")
        if getattr(v, "internal_diff", False) and v.kind is None:
            # flags the property cannot observe differ from the model: recorded, not a violation
            run.hist("internal_state_differs", 1)
        if i % 200 == 5 and v.kind is None:
            run.sample({"case": ln[:400], "impl_trace": v.trace[:600]})
        if v.kind is None:
            continue
        if v.known:
            f = run.match_known(lambda f: f.get("signature", {}).get("class") == v.known)
            if f:
                run.known(f, v.detail if nbad.get("known", 0) == 0 else "")
                nbad["known"] = nbad.get("known", 0) + 1
                continue
        nbad[v.kind] = nbad.get(v.kind, 0) + 1
        if nbad[v.kind] > 2:
            continue
        small = ln
        if v.kind in ("acceptor", "oracle", "tie", "strict"):
            try:
                small = shrink(ln, v.kind, drv, model, v.known)
            except Exception:
                small = ln
        sv, _ = evaluate([small], drv, model)
        sv = sv[0]
        text = ("case: %s\nwhat: %s\n%s\nimplementation trace: %s\nmodel: %s\n"
                "replay: echo '<case>' | .build/obj/base/h_observe\n" %
                (small, sv.what or v.what, sv.detail or v.detail, getattr(sv, "trace", ""),
                 getattr(sv, "model_out", "")))
        concrete = v.kind in ("acceptor", "oracle", "strict", "crash")
        run.violation(v.what, text, tag="%s%d" % (v.kind, nbad[v.kind]), no_input=not concrete)
    # ---- real libcoap clients behind a lossy FIFO network (implementation-only oracles)
    rc = tie.rng_for(run, "c11r")
    nc = 700 if run.tier == "quick" else 20000
    clines = [ln for ln in vlib.read_corpus("C11") if ln.startswith("c11r ")]
    clines += [G.gen_client_case(rc) for _ in range(nc)]
    couts, ccr = vlib.run_lines_robust(drv, clines, timeout=1800)
    run.cov["client_histories"] = len(clines)
    run.cov["client_driver_crashes"] = len(ccr)
    tot = {"handler_calls": 0, "notifications": 0, "registered_at_end": 0}
    for i, (ln, out) in enumerate(zip(clines, couts)):
        ok, what, st = G.judge_client(ln, out)
        run.count(ln, ok and st.get("handler_calls", 0) >= 4)
        run.hist("source", "real_clients")
        for k in tot:
            tot[k] += st.get(k, 0)
        if i % 300 == 7 and ok:
            run.sample({"case": ln[:300], "impl_trace": out[:500]})
        if ok:
            continue
        nbad["client"] = nbad.get("client", 0) + 1
        if nbad["client"] > 2:
            continue
        toks = ln.split()

        def still(prefix, cand):
            l2 = " ".join(prefix + [c[0] for c in cand])
            o2, _ = vlib.run_lines_robust(drv, [l2], timeout=300)
            return not G.judge_client(l2, o2[0])[0]
        try:
            small = " ".join(toks[:7] + [c[0] for c in
                                         tie.shrink_ops(toks[:7], [[o] for o in toks[7:]], still, max_steps=200)])
        except Exception:
            small = ln
        o2, _ = vlib.run_lines_robust(drv, [small], timeout=300)
        ok2, what2, _ = G.judge_client(small, o2[0])
        run.violation("real libcoap client: " + (what2 or what),
                      "case: %s\nwhat: %s\nimplementation trace: %s\nreplay: echo '<case>' | .build/obj/base/h_observe\n"
                      % (small, what2 or what, o2[0]), tag="client%d" % nbad["client"])
    run.cov["client_totals"] = tot
    run.cov["failures_by_class"] = nbad
    if consts is not None:
        run.cov["constants_from_build"] = consts
        if consts.get("non", 5) + 1 > 6:
            run.violation("COAP_OBS_MAX_NON = %d: fewer than every sixth notification is confirmable"
                          % consts["non"], "COAP_OBS_MAX_NON=%d" % consts["non"], tag="maxnon",
                          no_input=True)

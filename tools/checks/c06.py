"""C06 - Confirmable messages are retransmitted on schedule and end in one outcome
(DESIGN.md section 6, C06).

prove : coq/Properties_C06.v (timeout range, send-queue bookkeeping, schedule, one outcome,
        wait soundness), statements over Sched/FixedPoint.v, SendQueue.v, Retransmit.v
tie   : the extracted machine (ocaml/d_sched.ml) and the real library behind a virtual clock and a
        scripted peer (harness/h_sched.c) run the same event lists; the timestamped trace of
        transmissions (bytes), NACK calls, coap_send results, every value returned by
        coap_io_prepare_epoll and the send queue's absolute deadlines must be equal; exhaustive
        leaf sweeps of coap_calc_timeout (256 bytes x settings grid) and random op lists on the
        queue primitives
oracle: the property evaluated on the implementation's trace alone (impl_oracle below)
"""
import json
import os
import re

import vlib
import tie
import gen_sched as G

RULE = ("event lists (send / advance / prepare / sleep-as-told / ACK / RST / dump) over 1-6 sessions; a "
        "case is non-trivial when the implementation retransmitted at least once and at least one "
        "message reached an outcome (stopped by ACK, NACK RST, NACK TOO_MANY_RETRIES); distinct = "
        "distinct case lines")
WRAPS = ["coap_ticks", "coap_socket_send", "coap_socket_recv", "epoll_wait"]


# ------------------------------------------------------------------ parsing
def parse_case(line):
    t = line.split()
    ns = int(t[1])
    cfgs = [tuple(int(x) for x in t[2 + 6 * k: 8 + 6 * k]) for k in range(ns)]
    i = 2 + 6 * ns
    ar = {"A": 1, "W": 1, "S": 6, "T": 0, "K": 2, "P": 3, "R": 2, "N": 4, "D": 2, "I": 1, "X": 2, "G": 2, "O": 4, "Q": 0,
          "B": 1, "E": 1, "M": 1, "Y": 4}
    ev = []
    while i < len(t):
        n = ar.get(t[i])
        if t[i] == "Z" and i + 2 < len(t) + 0 and t[i + 2].isdigit():
            n = 2 + 2 * int(t[i + 2])
        if n is None:
            break
        ev.append(t[i:i + 1 + n])
        i += 1 + n
    return cfgs, ev


def parse_items(out):
    """'3.tx:0:0:4201..' -> [(3, 'tx', ['0','0','4201..'])]"""
    if out.strip() in ("-", ""):
        return []
    items = []
    for w in out.split():
        m = re.match(r"^(\d+)\.([a-z]+):(.*)$", w)
        if not m:
            items.append((-1, "?", [w]))
            continue
        items.append((int(m.group(1)), m.group(2), m.group(3).split(":")))
    return items


def is_request(code):
    return 1 <= code <= 31


def has_options(ev):
    """context options B / E / M: timers outside the model (expiry of large transmits / receives,
    keep-alive, idle server sessions) enter the wait the library reports"""
    return any(e[0] in ("B", "E", "M") for e in ev)


def relaxed_wait(ev):
    """an empty ACK for a request makes the library expect a separate response: it starts a
    receive timer of its own (lg_crcv), which enters the reported wait.  That timer is outside the
    model; after such an event the waits are compared one-sidedly (impl <= model, or model 0)."""
    req = set()
    if has_options(ev):
        return True
    for e in ev:
        if e[0] == "S" and is_request(int(e[3])):
            req.add((e[1], e[2]))
        if e[0] == "K" and (e[1], e[2]) in req:
            return True
    return False


def compare(line, mo, co):
    """None if the implementation's trace equals the model's (up to the documented relaxation)"""
    if mo == co:
        return None
    cfgs, ev = parse_case(model_line(line, co))
    if not relaxed_wait(ev):
        return "trace differs"
    mi, ci = parse_items(mo), parse_items(co)
    if len(mi) != len(ci):
        return "trace differs (length)"
    for a, b in zip(mi, ci):
        if a == b:
            continue
        if a[1] == "w" and b[1] == "w" and a[0] == b[0] and a[2][0] == b[2][0] and a[2][2] == b[2][2]:
            mw, cw = int(a[2][1]), int(b[2][1])
            if mw == 0 or cw <= mw:
                if cw > 0:
                    continue
        return "trace differs at item %s / %s" % (a, b)
    return None


# ------------------------------------------------------------------ the property on the implementation
def bounds_ms(cfg):
    """ACK_TIMEOUT and ACK_TIMEOUT*ACK_RANDOM_FACTOR in ms with the resolution C06_timeout_range
    states (Q.6 quantisation of each setting, one tick of rounding)"""
    a = 1000 * cfg[0] + cfg[1]
    f = 1000 * cfg[2] + cfg[3]
    return a - 8, ((a + 8) * (f + 8) + 8313) // 1000


def setting_representable(cfg):
    """what the setters accept (uint16 integer part > 0, fraction < 1000): C06_timeout_range's hypothesis"""
    return 0 < cfg[0] < 65536 and 0 <= cfg[1] < 1000 and 0 < cfg[2] < 65536 and 0 <= cfg[3] < 1000


def readback_cfgs(line, out):
    """The settings in force are what the library's getters report after the setters ran (the
    driver prints them first: 0.cfg:k:...).  A value the setters refuse (integer part 0, fraction
    >= 1000, max_retransmit 0) leaves the library's default; neither the defaults nor the setters'
    acceptance rules are C06's business, so model and oracle take the read-back values."""
    cfgs, _ = parse_case(line)
    got = {}
    for w in out.split():
        m = re.match(r"^0\.cfg:(\d+):(\d+):(\d+):(\d+):(\d+):(\d+)$", w)
        if m:
            got[int(m.group(1))] = tuple(int(x) for x in m.groups()[1:])
    if len(got) != len(cfgs):
        return None
    return [got[k] + (cfgs[k][5],) for k in range(len(cfgs))]


def model_line(line, out):
    """the case line as the model and the oracle get it: session settings replaced by the read-back
    values; an Observe notification (raw event 'O <sess> <r>': the library chooses its mid and
    builds its bytes) replaced by 'O <sess> <mid> <bytes> <r>' with what the library transmitted
    first in that event - or by 'T' if it sent nothing (observer gone); the mid 'L' (last
    notification of the session) replaced by that number"""
    rb = readback_cfgs(line, out)
    t = line.split()
    if rb is not None:
        for k, c in enumerate(rb):
            t[2 + 6 * k: 8 + 6 * k] = [str(x) for x in c]
    ns = int(t[1])
    if not any(x in line for x in (" O ", " L", " U ", " Z ", " B ", " E ", " M ")):
        return " ".join(t)
    head, i = t[:2 + 6 * ns], 2 + 6 * ns
    ar = {"A": 1, "W": 1, "S": 6, "T": 0, "K": 2, "P": 3, "R": 2, "N": 4, "D": 2, "I": 1, "X": 2, "G": 2, "O": 2, "Q": 0,
          "B": 1, "E": 1, "M": 1, "U": 5, "Z": 1}
    items = parse_items(" ".join(w for w in out.split() if ".cfg:" not in w))
    by_ev = {}
    for x in items:
        by_ev.setdefault(x[0], []).append(x)
    opts = any(x in line for x in (" B ", " E ", " M "))
    res, ei, last = [], 0, {}
    now, lastw = 0, None
    while i < len(t) and t[i] in ar:
        e = t[i:i + 1 + ar[t[i]]]
        i += len(e)
        its = by_ev.get(ei, [])
        for x in its:
            if x[1] == "w":
                lastw = (int(x[2][0]), int(x[2][1]))
            elif x[1] == "io":
                now = int(x[2][0])
        if e[0] == "A":
            now += int(e[1])
        elif e[0] == "W":
            # with timers outside the model in the reported wait, "sleep as long as told" means as
            # long as the LIBRARY said: the model's clock follows the implementation's
            new = now
            if lastw is not None:
                new = max(now, lastw[0] + lastw[1] + int(e[1]))
            if opts:
                e = ["A", str(new - now)]
            now = new
        elif e[0] == "O":
            sidx = int(e[1]) % ns
            if its and its[0][1] == "tx" and int(its[0][2][1]) == sidx and not its[0][2][2].startswith("#"):
                b = its[0][2][2]
                mid = int(b[4:8], 16)
                last[sidx] = mid
                e = ["O", e[1], str(mid), b, e[2]]
            else:
                e = ["T"]
        elif e[0] == "U":
            # first block of a large transmit: the library builds the datagram (Block1, Size1, its own token)
            sidx, mid = int(e[1]) % ns, int(e[2])
            b = None
            for x in [y for y in items if y[0] >= ei and y[1] == "tx"]:
                xb = x[2][2]
                if int(x[2][1]) == sidx and "#" not in xb and len(xb) >= 8 and int(xb[4:8], 16) == mid:
                    b = xb
                    break
            if b is None:
                b = "4003%04x" % (mid & 0xffff)
            e = ["Y", e[1], e[2], b, e[5]]
        elif e[0] == "S" and opts:
            # in block mode the library adds options of its own (Request-Tag) to a request: the datagram is
            # what it transmitted
            sidx, mid = int(e[1]) % ns, int(e[2])
            for x in [y for y in items if y[0] >= ei and y[1] == "tx"]:
                xb = x[2][2]
                if int(x[2][1]) == sidx and "#" not in xb and len(xb) >= 8 and int(xb[4:8], 16) == mid:
                    e = ["Y", e[1], e[2], xb, e[6]]
                    break
        elif e[0] == "Z":
            pg = [(int(x[2][0]), int(x[2][1])) for x in its if x[1] == "pg"]
            order = []
            for x in its:
                if x[1] == "tx" and len(x[2][2]) == 8 and x[2][2].startswith("4000"):
                    key = (int(x[2][1]), int(x[2][2][4:8], 16))
                    if key in pg and key not in order:
                        order.append(key)
            order += [k for k in pg if k not in order]
            for (sx, mx) in order:
                last[sx] = mx
            e = ["Z", e[1], str(len(order))] + [str(v) for k in order for v in k]
        if e[0] in ("K", "P", "R", "X") and e[2] == "L":
            e = list(e)
            e[2] = str(last.get(int(e[1]) % ns, 65535))
        res += e
        ei += 1
    return " ".join(head + res)


def run_pair(model, drv, lines):
    """C first, then the model on the settings the library says are in force"""
    oc, crashes = vlib.run_lines_robust(drv, lines)
    ml = [model_line(l, o) if l.startswith("c06 ") else l for l, o in zip(lines, oc)]
    om, _ = vlib.run_lines_robust(model, ml)
    return om, oc, crashes


def impl_oracle(line, out):
    """Evaluate the property on what the implementation did.  Returns (problems, facts)."""
    line = model_line(line, out)
    cfgs, ev = parse_case(line)
    items = parse_items(out)
    items = [i for i in items if i[1] != "cfg"]
    ns = len(cfgs)
    problems = []
    by_ev = {}
    for it in items:
        by_ev.setdefault(it[0], []).append(it)
        if it[1] == "?":
            problems.append("unparsable item %s" % it[2][0])
    live = {}       # (sess, mid) -> list of records
    fog = set()     # keys (sess, mid) whose messages the trace can no longer tell apart
    closed = []
    relaxed = has_options(ev)
    stats = {"retx": 0, "acked": 0, "rst": 0, "giveup": 0, "sent": 0, "disc": 0}
    dead = set()
    now = 0
    last_tick = None
    last_wait = 0

    def rec_for(s, mid):
        """the pending message with that session and mid, if it can be identified: two pending
        messages with the same mid on one session (an application error, but the machine must cope)
        cannot be told apart in the trace; for them only existence and counts are checked"""
        l = live.get((s, mid), [])
        return l[0] if len(l) == 1 and not l[0]["taint"] else None

    def check_T(rec, t, d, cnt):
        """deadline d of a node with counter cnt whose last transmission was rec['tx'][-1]"""
        span = d - rec["tx"][-1]
        if span % (1 << cnt) != 0:
            problems.append("deadline of mid %d is not last transmission + T*2^cnt" % rec["mid"])
            return
        T = span >> cnt
        if rec["T"] is None:
            rec["T"] = T
            lo, hi = bounds_ms(rec["cfg"])
            if setting_representable(rec["cfg"]) and not (lo <= T <= hi):
                problems.append("initial timeout %d ms outside [%d, %d] for settings %s" %
                                (T, lo, hi, rec["cfg"][:4]))
        elif rec["T"] != T:
            problems.append("mid %d: timeout changed from %d to %d" % (rec["mid"], rec["T"], T))

    def process_fired(fired_items):
        nonlocal last_tick, last_wait
        for it in fired_items:
            kind, f = it[1], it[2]
            if kind == "tx":
                t, s2, b = int(f[0]), int(f[1]), f[2]
                mid2 = int(b[4:8], 16) if len(b) >= 8 and not b.startswith("#") else None
                if t != now:
                    problems.append("transmission stamped %d during an event at %d" % (t, now))
                r = rec_for(s2, mid2) if mid2 is not None else None
                if (s2, mid2) in fog:
                    stats["retx"] += 1
                    continue
                if mid2 is not None and not live.get((s2, mid2)):
                    problems.append("mid %d on session %d transmitted although it is not pending "
                                    "(after its outcome, or never accepted)" % (mid2, s2))
                    continue
                if r is not None and not r["tx"]:
                    # a message that waited for a slot goes out for the first time
                    r["bytes"] = b
                    r["tx"].append(t)
                    stats["released"] = stats.get("released", 0) + 1
                    continue
                stats["retx"] += 1
                if r is None:
                    continue
                if b != r["bytes"]:
                    problems.append("retransmission of mid %d is not byte-identical" % r["mid"])
                if r["T"] is not None and t < r["tx"][-1] + (r["T"] << (len(r["tx"]) - 1)):
                    problems.append("mid %d retransmitted at %d, before its deadline" % (r["mid"], t))
                lo_ms = bounds_ms(r["cfg"])[0]
                if setting_representable(r["cfg"]) and t - r["tx"][-1] < (lo_ms << (len(r["tx"]) - 1)):
                    problems.append("mid %d retransmitted %d ms after transmission %d: less than ACK_TIMEOUT * 2^%d" %
                                    (r["mid"], t - r["tx"][-1], len(r["tx"]) - 1, len(r["tx"]) - 1))
                r["tx"].append(t)
                if len(r["tx"]) > r["cfg"][4] + 1:
                    problems.append("mid %d transmitted %d times, MAX_RETRANSMIT=%d" %
                                    (r["mid"], len(r["tx"]), r["cfg"][4]))
            elif kind == "nk":
                t, s2, reason, mid2, has = [int(x) for x in f]
                if reason != 0 or not has:
                    problems.append("unexpected NACK %s" % f)
                    continue
                l = live.get((s2, mid2), [])
                if (s2, mid2) in fog:
                    stats["giveup"] += 1
                    continue
                if not l:
                    problems.append("NACK TOO_MANY_RETRIES for mid %d which is not pending" % mid2)
                    continue
                r = l.pop(0)
                if not r["taint"]:
                    if len(r["tx"]) != r["cfg"][4] + 1:
                        problems.append("mid %d given up after %d transmissions, MAX_RETRANSMIT=%d" %
                                        (mid2, len(r["tx"]), r["cfg"][4]))
                    if r["T"] is not None and t < r["tx"][-1] + (r["T"] << (len(r["tx"]) - 1)):
                        problems.append("mid %d given up at %d, before its deadline" % (mid2, t))
                r["out"] = "giveup"
                closed.append(r)
                stats["giveup"] += 1
            elif kind == "w":
                t, w, hd = int(f[0]), int(f[1]), int(f[2])
                last_tick, last_wait = t, w
                if t != now:
                    problems.append("prepare stamped %d at %d" % (t, now))
                npend = sum(1 for v in live.values() for r in v if r["tx"])
                if relaxed and w > 0 and (hd < 0 or w < hd - t):
                    stats["other_timer_waits"] = stats.get("other_timer_waits", 0) + 1
                if fog:
                    continue
                if hd < 0:
                    if npend:
                        problems.append("nothing queued at %d although %d message(s) are pending" % (t, npend))
                    if w != 0 and not relaxed:
                        problems.append("wait %d reported with nothing pending" % w)
                else:
                    if not npend:
                        problems.append("queue head at %d but no message is pending" % hd)
                    if hd <= t:
                        problems.append("prepare at %d left a message that was due at %d" % (t, hd))
                    if w > hd - t:
                        problems.append("reported wait %d exceeds the time to the earliest deadline %d" % (w, hd - t))
                    if not relaxed and hd - t < (1 << 32) and w != hd - t:
                        problems.append("reported wait %d, earliest deadline in %d" % (w, hd - t))
                    if w == 0 and (hd - t) % (1 << 32) != 0:
                        problems.append("reported wait 0 (= nothing pending) with a deadline in %d" % (hd - t))
                    pend = [r for v in live.values() for r in v if r["tx"]]
                    if len(pend) == 1 and not pend[0]["taint"]:
                        check_T(pend[0], t, hd, len(pend[0]["tx"]) - 1)
            elif kind == "q":
                t = int(f[0])
                ents = [] if f[1] == "-" else [tuple(int(x) for x in z.split("/")) for z in f[1].split(",")]
                want = sorted((r["sess"], r["mid"]) for v in live.values() for r in v if r["tx"])
                got = sorted((s2, m2) for (_, s2, m2, _) in ents if (s2, m2) not in fog)
                if want != got:
                    problems.append("queue holds %s, pending messages are %s" % (got, want))
                if [d for (d, _, _, _) in ents] != sorted(d for (d, _, _, _) in ents):
                    problems.append("queue not ordered by deadline: %s" % ents)
                for (d, s2, m2, cnt) in ents:
                    r = rec_for(s2, m2) if (s2, m2) not in fog else None
                    if r is None:
                        continue
                    if cnt != len(r["tx"]) - 1:
                        problems.append("mid %d: retransmit_cnt %d after %d transmissions" % (m2, cnt, len(r["tx"])))
                    else:
                        check_T(r, t, d, cnt)
            elif kind == "s":
                problems.append("stray coap_send result")

    for ei, e in enumerate(ev):
        k = e[0]
        its = by_ev.get(ei, [])
        if k == "A":
            now += int(e[1])
            continue
        if k == "W":
            if last_tick is not None:
                now = max(now, last_tick + last_wait + int(e[1]))
            continue
        fired = its
        if k == "I":
            # coap_io_process: [fired by the first prepare] ep [fired after the sleep] io
            tmo = int(e[1])
            ep = [j for j, it in enumerate(its) if it[1] == "ep"]
            io = [j for j, it in enumerate(its) if it[1] == "io"]
            if len(ep) != 1 or len(io) != 1 or io[0] != len(its) - 1:
                problems.append("coap_io_process: expected one epoll_wait and a result, got %s" % [i[1] for i in its])
                continue
            t_ep, et = int(its[ep[0]][2][0]), int(its[ep[0]][2][1])
            if t_ep != now:
                problems.append("epoll_wait stamped %d at %d" % (t_ep, now))
            process_fired(its[:ep[0]])
            pend = [r for v in live.values() for r in v if r["tx"]]
            dl = [r["tx"][-1] + (r["T"] << (len(r["tx"]) - 1)) for r in pend if r["T"] is not None]
            if et < -1:
                problems.append("epoll_wait timeout %d" % et)
            if et == -1 and (pend or fog) and tmo == 0 and not fog:
                problems.append("coap_io_process sleeps for ever with %d message(s) pending" % len(pend))
            if et == -1 and tmo != 0:
                problems.append("coap_io_process(%d) sleeps for ever" % tmo)
            if tmo == 4294967295 and et != 0:
                problems.append("COAP_IO_NO_WAIT but epoll_wait timeout %d" % et)
            if dl and et > min(dl) - now and not fog:
                problems.append("coap_io_process sleeps %d ms, earliest deadline in %d ms" % (et, min(dl) - now))
            if 0 < tmo < 4294967295 and et > tmo:
                problems.append("coap_io_process(%d) sleeps %d ms" % (tmo, et))
            if et > 0:
                now += et
            process_fired(its[ep[0] + 1:io[0]])
            t_io, ret = int(its[io[0]][2][0]), int(its[io[0]][2][1])
            if t_io != now or ret != max(et, 0):
                problems.append("coap_io_process returned %d at %d, slept %d until %d" % (ret, t_io, max(et, 0), now))
            if not fog:
                for r in [r for v in live.values() for r in v if r["tx"]]:
                    if r["T"] is not None and r["tx"][-1] + (r["T"] << (len(r["tx"]) - 1)) <= now:
                        problems.append("coap_io_process left mid %d behind although it was due" % r["mid"])
            continue
        if k in ("S", "K", "P", "R", "N", "X", "Y") and int(e[1]) % ns in dead:
            if its:
                problems.append("event on a disconnected session produced %s" % [i[1] for i in its])
            continue
        if k == "D":
            # coap_session_disconnected: every pending message of the session ends with exactly one
            # NACK call carrying the given reason; nothing pending: one call without PDU, mid 0
            s, reason = int(e[1]) % ns, int(e[2])
            if s in dead:
                continue
            dead.add(s)
            foggy = any(key[0] == s for key in fog)
            want = sorted(r["mid"] for key, v in live.items() if key[0] == s for r in v)
            got = []
            for it in its:
                if it[1] != "nk":
                    problems.append("disconnect produced %s" % it[1])
                    continue
                t, s2, r2, m2, has = [int(x) for x in it[2]]
                if (t, s2, r2) != (now, s, reason):
                    problems.append("disconnect NACK reports %s, expected t=%d sess=%d reason=%d" % (it[2], now, s, reason))
                if has:
                    got.append(m2)
                elif want or m2 != 0:
                    problems.append("disconnect: NACK without PDU (mid %d) although %s pending" % (m2, want))
            if not foggy:
                if sorted(got) != want:
                    problems.append("disconnect of session %d: NACK calls for mids %s, pending were %s" % (s, sorted(got), want))
                if not want and len(its) != 1:
                    problems.append("disconnect of an idle session: %d NACK calls" % len(its))
            for key in [key for key in live if key[0] == s]:
                for r in live.pop(key):
                    r["out"] = "disc"
                    closed.append(r)
                    stats["disc"] += 1
            fog = {key for key in fog if key[0] != s}
            continue
        if k in ("G", "B", "E", "M"):
            continue
        if k == "Z":
            # a prepare call from inside which the library may send keep-alive pings (empty CONs with
            # mids of its own choosing): what was due fires, the pings are accepted, and the wait the
            # call reports must cover them too
            n = int(e[2])
            pings = [(int(e[3 + 2 * j]) % ns, int(e[4 + 2 * j])) for j in range(n)]
            rest = [x for x in its if x[1] != "pg"]
            cut = len(rest)
            for j, x in enumerate(rest):
                if x[1] == "tx" and (int(x[2][1]), int(x[2][2][4:8], 16) if "#" not in x[2][2] else -1) in pings \
                        and not live.get((int(x[2][1]), int(x[2][2][4:8], 16))):
                    cut = j
                    break
            process_fired(rest[:cut])
            wi = [x for x in rest[cut:] if x[1] == "w"]
            for x in rest[cut:]:
                if x[1] != "tx":
                    if x[1] != "w":
                        problems.append("after a ping inside prepare: %s" % x[1])
                    continue
                s2, b = int(x[2][1]), x[2][2]
                mid2 = int(b[4:8], 16)
                if (s2, mid2) not in pings or b[:4] != "4000" or len(b) != 8:
                    problems.append("transmission %s after a ping inside prepare" % b)
                    continue
                stats["sent"] += 1
                stats["pings"] = stats.get("pings", 0) + 1
                rec = {"sess": s2, "mid": mid2, "bytes": b, "tx": [int(x[2][0])], "cfg": cfgs[s2], "T": None,
                       "code": 0, "out": None, "taint": False, "tok": "-"}
                if (s2, mid2) not in fog:
                    l = live.setdefault((s2, mid2), [])
                    l.append(rec)
                    if len(l) > 1:
                        fog.add((s2, mid2))
                        live.pop((s2, mid2), None)
            process_fired(wi)
            continue
        if k == "O":
            # a Confirmable notification generated and sent inside the prepare call: accepted like a
            # coap_send at the start of the call; the wait the call reports must cover it
            s, mid, b = int(e[1]) % ns, int(e[2]), e[3]
            stats["sent"] += 1
            if not its or its[0][1] != "tx" or its[0][2][2] != b:
                problems.append("notification of session %d: first item %s" % (s, its[:1]))
                continue
            t = int(its[0][2][0])
            if t != now:
                problems.append("notification stamped %d at %d" % (t, now))
            tkl = int(b[1], 16)
            rec = {"sess": s, "mid": mid, "bytes": b, "tx": [t], "cfg": cfgs[s], "T": None,
                   "code": int(b[2:4], 16), "out": None, "taint": False, "tok": (b[8:8 + 2 * tkl] or "-")}
            if (s, mid) not in fog:
                l = live.setdefault((s, mid), [])
                l.append(rec)
                if len(l) > 1:
                    fog.add((s, mid))
                    live.pop((s, mid), None)
            process_fired(its[1:])
            continue
        if k == "Y":
            # coap_send of a CON whose datagram the library built (first block of a large transmit)
            yb = e[3]
            ytkl = int(yb[1], 16)
            e = ["S", e[1], e[2], str(int(yb[2:4], 16)), (yb[8:8 + 2 * ytkl] or "-"), "-", e[4]]
            k = "S"
            if "ff7575" in yb:
                stats["uploads"] = stats.get("uploads", 0) + 1
        if k == "S":
            s, mid, code = int(e[1]) % ns, int(e[2]), int(e[3])
            stats["sent"] += 1
            if len(its) == 1 and its[0][1] == "s":
                # no free NSTART slot: the message waits (or is refused: result -1); C08 decides
                # whether that is right - here only what happens to it once it goes out
                if int(its[0][2][0]) == -1:
                    stats["sent"] -= 1
                    continue
                if int(its[0][2][0]) != mid:
                    problems.append("coap_send returned %s for mid %d" % (its[0][2][0], mid))
                rec = {"sess": s, "mid": mid, "bytes": None, "tx": [], "cfg": cfgs[s], "T": None,
                       "code": code, "out": None, "taint": False, "tok": e[4].lower()}
                stats["held"] = stats.get("held", 0) + 1
                if (s, mid) in fog:
                    continue
                l = live.setdefault((s, mid), [])
                l.append(rec)
                if len(l) > 1:
                    fog.add((s, mid))
                    live.pop((s, mid), None)
                continue
            if len(its) != 2 or its[0][1] != "tx" or its[1][1] != "s":
                problems.append("coap_send of mid %d: expected one transmission and a result, got %s" %
                                (mid, [i[1] for i in its]))
                continue
            t, ss, b = int(its[0][2][0]), int(its[0][2][1]), its[0][2][2]
            if t != now or ss != s:
                problems.append("first transmission of mid %d at %d on %d, expected %d on %d" % (mid, t, ss, now, s))
            if int(its[1][2][0]) != mid:
                problems.append("coap_send returned %s for mid %d" % (its[1][2][0], mid))
            rec = {"sess": s, "mid": mid, "bytes": b, "tx": [t], "cfg": cfgs[s], "T": None,
                   "code": code, "out": None, "taint": False, "tok": e[4].lower()}
            if (s, mid) in fog:
                continue
            l = live.setdefault((s, mid), [])
            l.append(rec)
            if len(l) > 1:
                # a second pending message with the same session and mid (application error; the
                # machine copes, C06_one_outcome is per message): the trace cannot tell the two
                # apart, nothing is claimed about this key from here on
                fog.add((s, mid))
                live.pop((s, mid), None)
            continue
        if k in ("K", "P", "R", "N", "X"):
            s, mid = int(e[1]) % ns, int(e[2])
            l = live.get((s, mid), [])
            if k in ("K", "P", "R", "X") and len(l) == 1 and not l[0]["tx"]:
                l = []          # still waiting for a slot: not in the send queue, cannot be answered
            if k == "K" and any(is_request(r["code"]) for r in l):
                relaxed = True
            if k in ("K", "P", "R", "X") and (len(l) > 1 or (s, mid) in fog):
                # several pending messages with this session and mid: the first one IN QUEUE ORDER
                # goes and the trace does not say which that is - from here on nothing is claimed
                # about the messages with this key
                fog.add((s, mid))
                live.pop((s, mid), None)
                l = []
            if k == "X" and its:
                problems.append("coap_delete_node produced %s" % [i[1] for i in its])
            if k in ("K", "P", "X") and l:   # (N is handled by token below; X: the node is simply deleted)
                r = l.pop(0)
                r["out"] = "acked"
                closed.append(r)
                stats["acked"] += 1
            if k == "N":
                # a NON response: implicit acknowledgement of every pending message of the session
                # with its token (RFC 7252 5.2.2); its mid is the peer's and must not matter
                tok = e[4].lower()
                for key in list(live):
                    if key[0] != s:
                        continue
                    for r in [x for x in live[key] if x["tok"] == tok and x["tx"]]:
                        live[key].remove(r)
                        r["out"] = "acked"
                        closed.append(r)
                        stats["acked"] += 1
            if k == "R":
                nk = [i for i in its if i[1] == "nk" and int(i[2][2]) == 2]
                fired = [i for i in its if not (i[1] == "nk" and int(i[2][2]) == 2)]
                if len(nk) != 1:
                    problems.append("RST for mid %d: %d NACK(RST) calls" % (mid, len(nk)))
                else:
                    t, ss, _, m2, has = [int(x) for x in nk[0][2]]
                    if (t, ss, m2) != (now, s, mid):
                        problems.append("NACK(RST) reports %s, expected t=%d sess=%d mid=%d" % (nk[0][2], now, s, mid))
                    if (s, mid) not in fog and bool(has) != bool(l):
                        problems.append("NACK(RST) for mid %d: sent PDU %s but message %s" %
                                        (mid, "given" if has else "missing", "pending" if l else "not pending"))
                if l:
                    r = l.pop(0)
                    r["out"] = "rst"
                    closed.append(r)
                    stats["rst"] += 1
        process_fired(fired)
        # a head deadline seen in a wait item also reveals T of the head message
    facts = dict(stats)
    facts["pending_at_end"] = sum(len(v) for v in live.values())
    return problems, facts


# ------------------------------------------------------------------ leaf oracles
def calcrow_oracle(case, out):
    """coap_calc_timeout for all 256 bytes of one setting"""
    a = [int(x) for x in case.split()[1:5]]
    vals = [int(x) for x in out.split(",")] if re.match(r"^[0-9,]+$", out) else None
    if vals is None or len(vals) != 256:
        return ["unparsable"], False
    cfg = (a[0], a[1], a[2], a[3], 4, 1)
    lo, hi = bounds_ms(cfg)
    probs = []
    if any(not (lo <= v <= hi) for v in vals):
        bad = [(r, v) for r, v in enumerate(vals) if not (lo <= v <= hi)][0]
        probs.append("timeout %d ms for byte %d outside [%d, %d] ms" % (bad[1], bad[0], lo, hi))
    if any(vals[i] > vals[i + 1] for i in range(255)):
        probs.append("timeout not monotone in the random byte")
    return probs, setting_representable(cfg)


def qops_oracle(case, out):
    """absolute deadlines of the nodes that stay must not change (insert / pop / remove / adjust)"""
    ops = case.split()[1:]
    outs = out.split("] ")
    probs = []
    prev = {}       # (sess, id, occurrence) -> deadline
    i = 0
    k = 0
    adjust_fwd = False
    while i < len(ops) and k < len(outs):
        op = ops[i]
        m = re.match(r"^(\S*?)\[b=(-?\d+)(.*)$", outs[k])
        if not m:
            return ["unparsable"], False
        base = int(m.group(2))
        ents = [tuple(int(x) for x in z.split("/")) for z in m.group(3).split()]
        acc = base
        cur = {}
        seen = {}
        order = []
        for (t, s, idn) in ents:
            acc += t
            n = seen.get((s, idn), 0)
            seen[(s, idn)] = n + 1
            cur[(s, idn, n)] = acc
            order.append(acc)
        if order != sorted(order) and not adjust_fwd:
            probs.append("queue not ordered after op %d (%s)" % (k, op))
        if op == "b":
            now_ = int(ops[i + 1])
            for key, d in prev.items():
                if key in cur and d > now_ and cur[key] != d:
                    probs.append("coap_adjust_basetime(now=%d) moved a deadline from %d to %d" % (now_, d, cur[key]))
                    adjust_fwd = True
        elif op in ("i", "p", "r"):
            # nodes are identified by (session, id); compare those that are unique before and after
            def uniq(d_):
                return {k_ for k_ in d_ if len([x for x in d_ if x[:2] == k_[:2]]) == 1}
            for key in uniq(prev) & uniq(cur):
                if cur[key] != prev[key]:
                    probs.append("%s moved the deadline of %s from %d to %d" % (op, key, prev[key], cur[key]))
        prev = cur
        i += {"i": 4, "p": 1, "r": 3, "b": 2}.get(op, 1)
        k += 1
    return probs, adjust_fwd


# ------------------------------------------------------------------ main
def main(run):
    run.cov["trusted_base"] = vlib.TRUSTED_COMMON + [
        "model: Sched/FixedPoint.v (coap_calc_timeout, Q.6), Sched/SendQueue.v (insert/pop/remove/"
        "adjust_basetime), Sched/Retransmit.v (send of a CON, wait_ack, retransmit, prepare loop + wait, "
        "ACK/RST dispatch); ticks are unbounded integers (no 64-bit wrap), retransmit_cnt below 256",
        "harness/common/vnet.h: virtual clock, scripted PRNG byte, captured sends, injected datagrams "
        "through coap_io_do_epoll",
        "ocaml/d_sched.ml glue: event parsing, 'W' (sleep as long as the last prepare said)"]
    run.assumptions = [
        "timing is claimed at the resolution of the code's Q.6 fixed point (1/64 s per setting) and of one tick (1 ms)",
        "max_retransmit <= 255 in the theorems (8-bit retransmit_cnt); no wrap of the 64-bit tick counter",
        "the model's wait is the send queue's; where other timers enter the reported wait (block-mode state expiry, keep-alive, idle "
        "server sessions: 'timers' cases; no async/DTLS/lg_srcv timers driven) the wait is compared one-sidedly (not 0, not past the "
        "earliest retransmission); keep-alive periods above the longest back-off delay (coap_retransmit's clamp is outside the model); "
        "after an empty ACK to a request the library's own receive timer is compared one-sidedly",
        "NSTART: hold-back and release are modelled for the released message's timer; order/fairness of slots is C08's",
        "allocation never fails (C18)"]
    run.prove()
    if run.tier != "quick" and getattr(run, "proof_broken", None) is None:
        # independent re-check of the compiled property file and everything it depends on
        rc, out = vlib.sh(["coqchk", "-silent", "-o", "-Q", vlib.COQ, "LibcoapV", "LibcoapV.Properties_C06"],
                          cwd=vlib.COQ, timeout=1500, check=False)
        run.cov["coqchk"] = {"rc": rc, "tail": out.strip().splitlines()[-6:]}
        if rc != 0:
            run.violation("coqchk rejects Properties_C06.vo", out[-4000:], tag="coqchk", no_input=True)
    model = vlib.build_model()
    drv = vlib.build_driver("h_sched", ["h_sched.c"], wraps=WRAPS)
    r = tie.rng_for(run, "c06")
    quick = run.tier == "quick"

    # ---- known findings (signatures)
    kf_wrap = run.match_known(lambda f: f.get("signature", {}).get("api") == "coap_calc_timeout")
    kf_adj = run.match_known(lambda f: f.get("signature", {}).get("api") == "coap_adjust_basetime")

    # ---- event-list cases: corpus first
    corpus = vlib.read_corpus("C06")
    cases = [(None, ln) for ln in corpus if ln.startswith("c06 ")]
    leaf_corpus = [ln for ln in corpus if not ln.startswith("c06 ")]
    gens = []
    n_sched = 300 if quick else 6000
    n_multi = 2500 if quick else 90000
    n_big = 150 if quick else 8000
    n_ns1 = 400 if quick else 12000
    n_long = 12 if quick else 200
    for _ in range(n_sched):
        gens.append(G.gen_schedule_case(r))
    for cfg in [G.DEFAULT, (1, 0, 1, 0, 1, 1), (3, 125, 2, 0, 6, 1)]:
        for rb in (0, 128, 255):
            for late in ("punctual", "late", "early"):
                c = G.gen_schedule_case(r, cfg=cfg, late=late)
                c["ev"][0][6] = rb
                gens.append(c)
    drops = G.all_drop_cases(run.tier)
    gens += drops
    for _ in range(n_multi):
        gens.append(G.gen_multi_case(r))
    for _ in range(n_big):
        gens.append(G.gen_multi_case(r, big=True))
    for _ in range(n_ns1):
        gens.append(G.gen_nstart1_case(r))
    for _ in range(n_long):
        gens.append(G.gen_long_case(r))
    for _ in range(400 if quick else 15000):
        gens.append(G.gen_cancel_case(r))
    for _ in range(300 if quick else 10000):
        gens.append(G.gen_ioloop_case(r))
    for _ in range(700 if quick else 25000):
        gens.append(G.gen_held_case(r))
    for _ in range(300 if quick else 10000):
        gens.append(G.gen_observe_case(r))
    for _ in range(40 if quick else 1000):
        gens.append(G.gen_separate_case(r))
    for _ in range(260 if quick else 9000):
        gens.append(G.gen_timers_case(r))
    for c in gens:
        cases.append((c, G.line_of(c)))
    lines = [c[1] for c in cases]
    om, oc, crashes = run_pair(model, drv, lines)
    run.cov["driver_crashes"] = len(crashes)
    nbad = 0
    nkind = {}
    oracle_self = []
    agg = {"retx": 0, "acked": 0, "rst": 0, "giveup": 0, "sent": 0, "disc": 0, "pending_at_end": 0,
           "pings": 0, "uploads": 0, "other_timer_waits": 0}
    for i, ln in enumerate(lines):
        mo, co = om[i], oc[i]
        c = cases[i][0]
        kind = c["kind"] if c else "corpus"
        probs, facts = impl_oracle(ln, co) if not co.startswith(("CRASH", "ERROR", "<")) else (["driver: " + co[:80]], {})
        for k in agg:
            agg[k] += facts.get(k, 0)
        nontriv = facts.get("retx", 0) >= 1 and (facts.get("acked", 0) + facts.get("rst", 0) +
                                                 facts.get("giveup", 0) + facts.get("disc", 0)) >= 1
        run.count(ln, nontriv)
        run.hist("kind", kind)
        run.hist("sessions", ln.split()[1])
        run.hist("messages", min(facts.get("sent", 0), 8))
        run.hist("events", min(len(parse_case(model_line(ln, co))[1]) // 10 * 10, 100))
        if i % 400 == 7:
            run.sample({"case": ln[:400], "impl": co[:400]})
        bad = None
        no_input = False
        if probs and mo == co:
            # The implementation did exactly what the model does on this case, and for the model
            # every clause the oracle evaluates is a theorem (C06_one_outcome, C06_spacing,
            # C06_deadline_law, C06_wait_sound, C06_timeout_range): a complaint here is a defect of
            # the oracle, not of libcoap.  It is recorded, never reported as a violation.
            oracle_self.append({"case": ln[:3000], "oracle": probs[0]})
            vlib.log("note (C06): oracle complains about a trace that equals the model's: %s [%s]" %
                     (probs[0], ln[:120]))
            probs = []
        if probs:
            bad = "property fails on the implementation: " + probs[0]
        elif co.startswith("CRASH"):
            bad = "implementation crashes (%s)" % co
        else:
            d = compare(ln, mo, co)
            if d:
                bad = "implementation differs from the proved model: " + d
                no_input = True
        if bad:
            nbad += 1
            kindbad = "oracle" if probs or co.startswith("CRASH") else "tie"
            nkind[kindbad] = nkind.get(kindbad, 0) + 1
            if nkind[kindbad] <= 3:
                small = ln
                if c is not None:
                    def still(prefix, cand):
                        c2 = {"cfgs": c["cfgs"], "ev": cand}
                        l2 = G.line_of(c2)
                        a, b, _ = run_pair(model, drv, [l2])
                        if probs:
                            return bool(impl_oracle(l2, b[0])[0]) if not b[0].startswith(("CRASH", "ERROR")) else True
                        return compare(l2, a[0], b[0]) is not None
                    ev2 = tie.shrink_ops(None, c["ev"], still, max_steps=250)
                    small = G.line_of({"cfgs": c["cfgs"], "ev": ev2})
                a, b, _ = run_pair(model, drv, [small])
                p2 = impl_oracle(small, b[0])[0] if not b[0].startswith(("CRASH", "ERROR")) else ["crash"]
                run.violation(bad, "case: %s\nmodel: %s\nimpl : %s\noracle on impl: %s\n(original case: %s)\n" %
                              (small, a[0], b[0], p2 or "holds", ln), tag="tie%d" % nbad,
                              no_input=no_input and not p2)
    # ---- thorough: the same lines through an ASan+UBSan build of library and driver
    if not quick:
        try:
            adrv = vlib.build_driver("h_sched", ["h_sched.c"], variant="asan", wraps=WRAPS)
            sub = lines[:len(corpus)] + lines[len(corpus)::7][:4000]
            ao, acr = vlib.run_lines_robust(adrv, sub, timeout=1500,
                                            env={"ASAN_OPTIONS": "detect_leaks=0:abort_on_error=1",
                                                 "UBSAN_OPTIONS": "halt_on_error=1"})
            base = dict(zip(lines, oc))
            nas = 0
            for ln, o in zip(sub, ao):
                if o != base.get(ln):
                    nas += 1
                    if nas <= 2:
                        run.violation("sanitizer build behaves differently or traps: %s" % o[:100],
                                      "case: %s\nasan: %s\nbase: %s\nstderr: %s\n" %
                                      (ln, o, base.get(ln), acr[0][2] if acr else ""), tag="asan%d" % nas)
            run.cov["asan"] = {"cases": len(sub), "differences": nas, "crashes": len(acr)}
        except vlib.BuildError as e:
            run.cov["asan"] = {"skipped": str(e)[:200]}
    run.cov["impl_totals"] = agg
    run.cov["oracle_self_check_failures"] = oracle_self[:5]
    run.cov["drop_subset_cases"] = len(drops)

    # ---- leaf sweep 1: coap_calc_timeout, all 256 bytes x settings grid
    grid = G.settings_grid(run.tier)
    sweep = ["calcrow %d %d %d %d" % g for g in grid] + [l for l in leaf_corpus if l.startswith("calc")]
    sm, sc, _ = tie.run_both(model, drv, sweep)
    sbad = 0
    n_in, n_out = 0, 0
    for ln, a, b in zip(sweep, sm, sc):
        rep = True
        if ln.startswith("calcrow"):
            probs, rep = calcrow_oracle(ln, b)
            n_in += rep
            n_out += (not rep)
            if probs and not rep and kf_wrap:
                run.known(kf_wrap, ln)
            elif probs:
                sbad += 1
                if sbad <= 3:
                    run.violation("initial timeout out of range: " + probs[0],
                                  "case: %s\nimpl : %s\nmodel: %s\n" % (ln, b, a), tag="calc%d" % sbad)
        if a != b:
            sbad += 1
            if sbad <= 3:
                run.violation("coap_calc_timeout differs from the proved model (leaf sweep)",
                              "case: %s\nmodel: %s\nimpl : %s\n" % (ln, a, b), tag="calcdiff%d" % sbad,
                              no_input=True)
    run.cov["evaluations"] += 256 * len(grid)
    run.cov["leaf_sweep_timeout"] = {"settings": len(grid), "bytes": 256, "representable_settings": n_in,
                                     "wrapping_settings": n_out, "disagreements": sbad,
                                     "exhaustive_over": "random byte 0..255 for each setting of the grid"}

    # ---- leaf sweep 2: queue primitives
    nq = 1500 if quick else 40000
    qs = [G.gen_qops(r, with_adjust=(j % 4 == 0)) for j in range(nq)] + [l for l in leaf_corpus if l.startswith("qops")]
    qm, qc, _ = tie.run_both(model, drv, qs)
    qbad = 0
    for ln, a, b in zip(qs, qm, qc):
        probs, adj = qops_oracle(ln, b)
        real = [p for p in probs if "coap_adjust_basetime" not in p]
        if [p for p in probs if "coap_adjust_basetime" in p]:
            if kf_adj:
                run.known(kf_adj, ln[:120])
            else:
                real = probs
        if real and not adj:
            qbad += 1
            if qbad <= 2:
                run.violation("send queue bookkeeping: " + real[0], "case: %s\nimpl : %s\n" % (ln, b), tag="qops%d" % qbad)
        elif real and adj and not kf_adj:
            qbad += 1
            if qbad <= 2:
                run.violation("send queue bookkeeping: " + real[0], "case: %s\nimpl : %s\n" % (ln, b), tag="qops%d" % qbad)
        if a != b:
            qbad += 1
            if qbad <= 3:
                run.violation("send queue primitives differ from the proved model",
                              "case: %s\nmodel: %s\nimpl : %s\n" % (ln, a, b), tag="qdiff%d" % qbad, no_input=True)
    run.cov["evaluations"] += len(qs)
    run.cov["leaf_sweep_queue"] = {"op_lists": len(qs), "disagreements": qbad}
    run.cov["disagreements"] = nbad + sbad + qbad
    run.cov["corpus_cases"] = len(corpus)

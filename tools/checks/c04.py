"""C04 - in-place message edits change only what they name (DESIGN.md section 6, C04)."""
import re
import vlib
import tie
import gen_edit
import gen_wire

RULE = ("starting message (API-built or parsed from wire bytes) + up to 40 edits "
        "{insert, update, remove, token} + optional coap_pdu_duplicate, exact-fit allocation "
        "before every edit, max_size tight; a case is non-trivial when the start was accepted "
        "and >= 2 edits succeeded on the implementation; distinct = distinct case lines")

STEP = re.compile(r"^(?:start=(\S+)|([01])) \[(.*?)\] b=(\S+) h=(\S+) rp=(=|\[.*?\])( SPECDIFF@\S+)?$")


def parse_out(out):
    """-> dict(start, steps=[(ret, dumpstr, b)], wire, reparse, dup) or None"""
    segs = out.split(" || ")
    steps = []
    for s in segs[0].split(" | "):
        m = STEP.match(s)
        if not m:
            return None
        steps.append((m.group(1) if m.group(1) is not None else int(m.group(2)), m.group(3),
                      m.group(4), m.group(6), m.group(5)))   # (ret, dump, buffer, re-parse, header)
    res = {"start": steps[0][0], "steps": steps, "wire": None, "reparse": None, "dup": None}
    for s in segs[1:]:
        m = re.match(r"^wire=(\S+) reparse=\[(.*?)\]$", s)
        if m:
            res["wire"], res["reparse"] = m.group(1), m.group(2)
            continue
        m = re.match(r"^dup=(NULL|\[(.*?)\] b=(\S+) h=(\S+) rp=(=|\[.*?\]))( SPECDIFF@\S+)?$", s)
        if m:
            res["dup"] = "NULL" if m.group(1) == "NULL" else m.group(2)
            res["dup_rp"] = m.group(5)
            continue
        return None
    return res


def norm(dump, proto):
    if proto == "udp":
        return dump
    return re.sub(r"^t=\d+ (c=\d+) m=\d+", r"t=0 \1 m=0", dump)


def canonical(dump):
    """canonical encoding (hex) of a printed dump whose values are all printed in full, else None"""
    d = gen_edit.parse_dump(dump)
    vals = [d["k"], d["p"]] + [v for _, v in d["o"]]
    if any(v.startswith("#") for v in vals):
        return None
    tok = gen_edit.tok_bytes(d["k"])
    body = b""
    prev = 0
    for n, v in d["o"]:
        body += gen_wire.py_opt(n - prev, gen_edit.tok_bytes(v))
        prev = n
    pl = gen_edit.tok_bytes(d["p"])
    if pl:
        body += b"\xff" + pl
    tl = len(tok)
    ta = tok if tl < 13 else bytes([tl - 13]) + tok if tl < 269 else \
        bytes([(tl - 269) >> 8, (tl - 269) & 0xff]) + tok
    return gen_edit.show(ta + body)


def oracle(line, out, in_scope, notes=None):
    """The property evaluated on one driver's output alone.  -> None or a description."""
    if out.startswith("start=") and "[" not in out:
        return None                      # start refused (REJECT / TOOSMALL / NOPDU): nothing to say
    o = parse_out(out)
    if o is None:
        return "unreadable result: %s" % out[:200]
    pre, edits, dup = gen_edit.split_case(line)
    proto, mx = pre[1], int(pre[3])
    if len(o["steps"]) != len(edits) + 1:
        return "result has %d steps for %d edits" % (len(o["steps"]) - 1, len(edits))
    d = gen_edit.parse_dump(o["steps"][0][1])
    steps_scope = in_scope if isinstance(in_scope, list) else [in_scope] * (len(edits) + 2)
    in_scope = steps_scope[len(edits)]
    for i, e in enumerate(edits):
        r, dump = o["steps"][i + 1][0], o["steps"][i + 1][1]
        note = [] if notes is not None else None
        er, ed = gen_edit.spec_step(d, mx, e, note)
        if r != er or dump != gen_edit.fmt_dump(ed):
            return ("edit %d (%s): returned %s, message [%s]; the edit applied to the message "
                    "before it gives %s, [%s]" % (i + 1, " ".join(e)[:80], r, dump, er,
                                                  gen_edit.fmt_dump(ed)))
        hdr = o["steps"][i + 1][4]
        if hdr != "-":
            dd = gen_edit.parse_dump(dump)
            tl = gen_edit.plen(dd["k"])
            exp = "%02x%02x%04x" % (0x40 | (dd["t"] << 4) | (tl if tl < 13 else 13 if tl < 269 else 14),
                                    dd["c"], dd["m"])
            if hdr != exp:
                return ("after edit %d (%s) the header in memory is %s, the message [%s] needs %s" %
                        (i + 1, " ".join(e)[:80], hdr, dump, exp))
        can = canonical(dump)
        if can is not None and not can.startswith("#") and o["steps"][i + 1][2] != can:
            return ("after edit %d (%s) the message is [%s] but the buffer holds %s, not its "
                    "encoding %s" % (i + 1, " ".join(e)[:80], dump, o["steps"][i + 1][2], can))
        if steps_scope[i + 1] and o["steps"][i + 1][3] != "=":
            return ("after edit %d (%s) the message is [%s] but its bytes re-parse to %s" %
                    (i + 1, " ".join(e)[:80], dump, o["steps"][i + 1][3]))
        if notes is not None and r == 1:
            notes.extend(note)
        d = ed
    last = gen_edit.fmt_dump(d)
    if in_scope and o["reparse"] is not None and o["reparse"] != norm(last, proto):
        return "after the edits the message is [%s] but its bytes re-parse to [%s]" % (last, o["reparse"])
    if dup:
        exp = gen_edit.spec_dup(d, mx, int(dup[1]), int(dup[2]), dup[3], dup[4])
        exps = "NULL" if exp is None else gen_edit.fmt_dump(exp)
        if o["dup"] is None or o["dup"] != exps:
            return "duplicate is [%s], the specification gives [%s]" % (o["dup"], exps)
        if exp is not None and steps_scope[len(edits) + 1] and o.get("dup_rp") != "=":
            return "the duplicate is [%s] but its bytes re-parse to %s" % (o["dup"], o.get("dup_rp"))
        if notes is not None:
            notes.append("dup:" + ("null" if exp is None else "filter" if dup[4] != "N" else "copy"))
    return None


def coq_oracle_queries(line, out):
    """for every step whose dump before, dump after and edit value are printed in full: a query for
    the EXTRACTED specification (model command c04o) and what the implementation showed"""
    if "[" not in out.split(" | ")[0]:
        return []
    o = parse_out(out)
    if o is None:
        return []
    pre, edits, _ = gen_edit.split_case(line)
    if len(o["steps"]) != len(edits) + 1:
        return []
    qs = []
    for i, e in enumerate(edits):
        before, after = o["steps"][i][1], o["steps"][i + 1][1]
        val = e[-1] if e[0] != "R" else "-"
        if "#" in before or "#" in after or (val.startswith("@") and int(val[1:].split(",")[0]) > 48):
            continue
        qs.append(("c04o %s %s %s" % (pre[3], before, " ".join(e)),
                   "%d [%s]" % (o["steps"][i + 1][0], after), i + 1))
    return qs


def scope_of(model_out):
    """the wire/re-parse part of the property presupposes a message the parser accepts (option
    lengths within their limits, Empty message empty): per step (index 0 = start, i = after edit
    i, last = the duplicate), taken from the proved model's own re-parse verdict"""
    o = parse_out(model_out) if "[" in model_out else None
    if o is None:
        return [False] * 64
    sc = [st[3] == "=" for st in o["steps"]]
    sc.append(o.get("dup_rp") == "=")
    return sc


def sweep_lines(tier):
    """leaf sweep of the header patches: one option numbered K (then one before it), insert /
    remove so that the neighbour's delta goes K -> K-n and back, for every K in range"""
    ks = list(range(1, 65536)) if tier == "thorough" else \
        sorted(set(list(range(1, 700)) + list(range(700, 65536, 97)) + [65535, 65534, 65266, 65267]))
    out = []
    for k in ks:
        v = ["-", "01", "@13,1", "@269,2"][k % 4]
        for dn in (1, 12, 13, 268, 269, k):
            n = k - dn
            if n < 0 or (dn == k and k in (1, 12, 13, 268, 269)):
                continue
            # insert n before K (K's delta K -> dn), then remove it again (dn -> K)
            out.append("c04 udp 1 0 B 0 1 1 O %d %s D 01 E I %d %s R %d" % (k, v, n, ["-", "@14,3"][k % 2], n))
    return out


def small_scope_lines(tier):
    """every start with two options numbered in a boundary set x every single edit aimed at the same
    set: all delta-class transitions with a neighbour on either side, systematically"""
    S = [0, 1, 12, 13, 14, 268, 269, 270, 281, 282, 283, 537, 538, 539, 65535] if tier == "quick" else \
        [0, 1, 2, 12, 13, 14, 25, 26, 27, 268, 269, 270, 271, 281, 282, 283, 537, 538, 539, 540, 807,
         808, 65266, 65267, 65534, 65535]
    out = []
    for i, a in enumerate(S):
        for b in S[i:]:
            pre = "c04 udp 1 0 B 0 1 1 O %d 61 O %d - D 01 E" % (a, b)
            for n in S:
                out.append("%s I %d -" % (pre, n))
                out.append("%s I %d @13,1 R %d" % (pre, n, a))
                out.append("%s U %d @14,2" % (pre, n))
            out.append("%s R %d R %d" % (pre, a, b))
            out.append("%s R %d R %d" % (pre, b, a))
    return out


def resize_lines(r, n):
    """coap_pdu_check_resize on (alloc_size, max_size, size): around alloc, 2*alloc, 256, max"""
    out = []
    for _ in range(n):
        alloc = r.choice([0, 1, 4, 100, 127, 128, 129, 255, 256, 257, 300, 511, 512, 513, 1000, 4096,
                          65536, r.randrange(0, 3000)])
        w = r.random()
        if w < 0.3:
            mx = 0
        else:
            mx = max(alloc, r.choice([alloc, alloc + 1, alloc + 2, 2 * alloc - 1, 2 * alloc, 2 * alloc + 1,
                                      256, 257, 300, 512, 1024, 4096, 70000, 4 * alloc + 3, 1]))
            if mx == 0:
                mx = 1
        base = r.choice([alloc, 2 * alloc, 4 * alloc, 256, 512, mx, mx, 1 << r.randrange(0, 21)])
        size = max(0, base + r.choice([-2, -1, 0, 1, 2]))
        out.append("resize %d %d %d" % (alloc, mx, size))
    return out


def main(run):
    run.cov["trusted_base"] = vlib.TRUSTED_COMMON + [
        "model: Edit/EdBytes.v (byte-level transcription of coap_insert_option, coap_update_option, "
        "coap_remove_option, coap_update_token, coap_add_option_internal, coap_pdu_duplicate_lkd, "
        "the option iterator), Edit/EdSpec.v (edits on the abstract message), Wire/*.v",
        "oracle: tools/gen_edit.py spec_step/spec_dup (the property on printed accessor dumps)"]
    run.assumptions = ["allocation never fails (C18 covers failures)",
                       "alloc_size <= max_size whenever max_size <> 0 (kept by coap_pdu_init / coap_pdu_resize)",
                       "option values and tokens <= 65804 bytes, option numbers <= 65535"]
    run.prove()
    model = vlib.build_model()
    drv = vlib.build_driver("h_edit", ["h_edit.c"], wraps=["coap_realloc_type"])
    if getattr(run, "replay", None):
        lines = [l[6:].strip() for l in open(run.replay) if l.startswith("case: ")] or \
            [l.strip() for l in open(run.replay) if l.startswith("c04 ")]
        a, b, _ = tie.run_both(model, drv, lines)
        for ln, mo, co in zip(lines, a, b):
            print("case : %s\nmodel: %s\nimpl : %s" % (ln, mo, co))
            bad = "implementation crashes" if co.startswith("CRASH") else oracle(ln, co, scope_of(mo))
            if bad:
                run.violation("implementation violates the property: " + bad,
                              "case: %s\nmodel: %s\nimpl : %s\n" % (ln, mo, co), tag="replay")
            elif mo != co:
                run.violation("implementation differs from the proved byte-level model",
                              "case: %s\nmodel: %s\nimpl : %s\n" % (ln, mo, co), tag="replay",
                              no_input=True)
            run.count(ln, True)
        return
    r = tie.rng_for(run, "c04")
    n = 3000 if run.tier == "quick" else 60000
    cases = []
    corpus = vlib.read_corpus("C04")
    for ln in corpus:
        cases.append(ln)
    for i in range(n):
        pre, edits, dup = gen_edit.gen_case(r, big=(i % 12 == 0))
        cases.append(gen_edit.line_of(pre, edits, dup))
    nsw = len(cases)
    cases += sweep_lines(run.tier)
    nss = len(cases)
    cases += small_scope_lines(run.tier)
    nrs = len(cases)
    cases += resize_lines(r, 2000 if run.tier == "quick" else 40000)
    # three separate runs: a crash storm in one group must not starve the others
    om, oc, crashes = [], [], []
    for lo, hi in ((0, nsw), (nsw, nrs), (nrs, len(cases))):
        a, b, c = tie.run_both(model, drv, cases[lo:hi])
        om += a
        oc += b
        crashes += c
    run.cov["driver_crashes"] = len(crashes)
    notrun = sum(1 for x in oc if x == "<not run>")
    run.cov["not_run"] = notrun
    run.cov["small_scope"] = {"cases": nrs - nss,
                              "over": "two options numbered in a boundary set (all pairs) x one or two "
                                      "edits {insert, insert+remove, update, remove both} aimed at the same set"}
    run.cov["leaf_sweep"] = {"cases": nss - nsw,
                             "over": "single option K, insert K-d / remove again, d in {1,12,13,268,269,K}, "
                                     + ("every K in 1..65535" if run.tier == "thorough" else
                                        "K in 1..699 and every 97th K up to 65535")}
    nbad = 0
    for i, ln in enumerate(cases[:nrs]):
        mo, co = om[i], oc[i]
        if co == "<not run>":
            continue
        scope = scope_of(mo)
        notes = []
        bad_impl = "implementation crashes (%s)" % co if co.startswith("CRASH") else \
            oracle(ln, co, scope, notes)
        bad_model = None if bad_impl else oracle(ln, mo, scope)
        nsucc = len(re.findall(r" \| 1 \[", co))
        run.count(ln, "[" in co.split(" | ")[0] and nsucc >= 2)
        if i < nsw:
            run.hist("proto", ln.split()[1])
            run.hist("start", "built" if " B " in ln[:40] else "wire")
            run.hist("edits", min(40, len(gen_edit.split_case(ln)[1])))
            run.hist("start_result", co.split(" ")[0][:20] if "[" not in co.split(" | ")[0] else "accepted")
            run.hist("refused_edits", len(re.findall(r" \| 0 \[", co)) > 0)
        for x in notes:
            run.hist("transitions", x)
        if i % 700 == 5 and i < nsw:
            run.sample({"case": ln[:400], "impl": co[:400]})
        what = None
        if bad_impl:
            what = "implementation violates the property: " + bad_impl
            pred = "impl"
        elif "SPECDIFF" in mo or "STUCK" in mo or bad_model:
            what = "byte-level model leaves the specification (refinement theorem contradicted?): " + \
                (bad_model or mo[:200])
            pred = "model"
        elif mo != co:
            what = "implementation differs from the proved byte-level model"
            pred = "tie"
        if what:
            nbad += 1
            if nbad <= 3:
                pre, edits, dup = gen_edit.split_case(ln)

                def still(_pfx, cand, pred=pred, pre=pre, dup=dup):
                    l2 = gen_edit.line_of(pre, cand, dup)
                    a, b, _ = tie.run_both(model, drv, [l2])
                    if pred == "impl":
                        return b[0].startswith("CRASH") or oracle(l2, b[0], scope_of(a[0])) is not None
                    if pred == "model":
                        return "SPECDIFF" in a[0] or "STUCK" in a[0] or oracle(l2, a[0], scope_of(a[0])) is not None
                    return a[0] != b[0]
                small_edits = tie.shrink_ops(None, edits, still)
                small_dup = dup
                if dup and still(None, small_edits, dup=[]):
                    small_dup = []
                small = gen_edit.line_of(pre, small_edits, small_dup)
                a, b, _ = tie.run_both(model, drv, [small])
                # the shrunk case of a tie difference may well be a concrete failing input
                why = None if b[0].startswith("CRASH") else oracle(small, b[0], scope_of(a[0]))
                concrete = pred == "impl" or (pred == "tie" and (why or b[0].startswith("CRASH")))
                if concrete and pred == "tie":
                    what = "implementation violates the property: " + (why or b[0])
                run.violation(what, "case: %s\nmodel: %s\nimpl : %s\n%s(original case: %s)\n" %
                              (small, a[0], b[0], ("oracle: %s\n" % why) if why else "", ln),
                              tag="%s%d" % ("impl" if concrete else pred, nbad), no_input=not concrete)
    run.cov["check_resize_cases"] = len(cases) - nrs
    for i in range(nrs, len(cases)):
        # coap_pdu_check_resize: verdict = "fits", enough bytes afterwards, alloc_size <= max_size kept
        ln, mo, co = cases[i], om[i], oc[i]
        if co == "<not run>":
            continue
        run.count(ln, False)
        _, alloc, mx, size = ln.split()
        alloc, mx, size = int(alloc), int(mx), int(size)
        run.hist("check_resize", co.split(" ")[0])
        bad = None
        m = re.match(r"^([01]) (\d+)$", co)
        if not m:
            bad = "unreadable result " + co
        else:
            ok, a2 = int(m.group(1)), int(m.group(2))
            fits = mx == 0 or size <= mx
            if ok != int(fits) or (ok and a2 < size) or (mx != 0 and a2 > mx):
                bad = "coap_pdu_check_resize(alloc_size=%d, max_size=%d, size=%d) returned %d, alloc_size %d" % \
                    (alloc, mx, size, ok, a2)
        # only the verdict is compared with the model: how much is allocated beyond the request is
        # the allocator's business (not observable by the property)
        if bad or mo.split(" ")[0] != co.split(" ")[0]:
            nbad += 1
            if nbad <= 5:
                run.violation("implementation violates the property: " + bad if bad else
                              "coap_pdu_check_resize differs from the proved model",
                              "case: %s\nmodel: %s\nimpl : %s\n" % (ln, mo, co),
                              tag="resize%d" % nbad, no_input=not bad)
    # the extracted Coq specification as the oracle, on the implementation's own dumps (all steps
    # whose values are printed in full)
    qs = []
    for i, ln in enumerate(cases[:nrs]):
        for q, shown, step in coq_oracle_queries(ln, oc[i]):
            qs.append((q, shown, step, ln))
    if qs:
        ans, _ = vlib.run_lines_robust(model, [q[0] for q in qs])
        nq = 0
        for (q, shown, step, ln), a in zip(qs, ans):
            if a != shown:
                nq += 1
                nbad += 1
                if nq <= 2:
                    run.violation("implementation violates the property (extracted specification as "
                                  "oracle): edit %d gives %s, the specification gives %s" % (step, shown, a),
                                  "case: %s\nquery: %s\nimpl : %s\nspec : %s\n" % (ln, q, shown, a),
                                  tag="coqoracle%d" % nq)
        run.cov["coq_oracle_steps"] = len(qs)
        run.cov["coq_oracle_failures"] = nq
    run.cov["disagreements"] = nbad
    if notrun and not nbad:
        run.violation("the C driver could not complete %d cases (too many crashes)" % notrun,
                      "not run: %d cases\n" % notrun, tag="notrun", no_input=True)
    run.cov["corpus_cases"] = len(corpus)
    if run.tier == "thorough":
        # independent re-check of the compiled proofs (coqchk: kernel only, reports axioms)
        rc, out = vlib.sh(["coqchk", "-silent", "-o", "-Q", ".", "LibcoapV", "LibcoapV.Properties_C04"],
                          cwd=vlib.COQ, timeout=1800, check=False)
        ok = rc == 0 and "* Axioms: <none>" in out
        run.cov["coqchk"] = "ok, axioms: none" if ok else out[-600:]
        if not ok:
            run.violation("coqchk does not accept Properties_C04.vo (or finds axioms)", out[-4000:],
                          tag="coqchk", no_input=True)
        # the same generated cases under ASan+UBSan (library instrumented): a wrong memmove length or
        # a stale pointer after realloc traps even where the bytes happen to come out right
        adrv = vlib.build_driver("h_edit", ["h_edit.c"], variant="asan", wraps=["coap_realloc_type"])
        sub = cases[:nsw]
        oa, cra = vlib.run_lines_robust(adrv, sub, env={"ASAN_OPTIONS": "detect_leaks=0:abort_on_error=0"})
        nd = 0
        for i, ln in enumerate(sub):
            if oa[i] != oc[i]:
                nd += 1
                if nd <= 2:
                    err = [c for c in cra if c[0] == i]
                    run.violation("sanitizer build behaves differently (memory error in an edit)",
                                  "case: %s\nbase: %s\nasan: %s\n%s\n" %
                                  (ln, oc[i], oa[i], err[0][2] if err else ""), tag="asan%d" % nd)
        run.cov["asan_cases"] = len(sub)
        run.cov["asan_differences"] = nd

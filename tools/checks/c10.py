"""C10 - server answers each request datagram once, with the protocol-prescribed code
(DESIGN.md section 6, C10; notes/C10.md)."""
import re
import vlib
import tie
import gen_dispatch

RULE = ("request datagrams (all codes 0.01..0.31, classes 1/3/6/7 and response classes, all four "
        "types, option sets with known/unknown critical/elective/unsafe options and legal/illegal "
        "repeats, Uri-Paths with escapes/empty segments/.well-known/core, No-Response, Hop-Limit, "
        "Proxy-*, unicast/multicast) x generated resource tables x handler behaviours; non-trivial "
        "= the parser accepts the datagram, it is a request (code 0.01..0.31) of type CON/NON and "
        "carries >= 1 option; distinct = distinct case lines")

WRAPS = ["coap_ticks", "coap_socket_send", "coap_socket_recv"]

TX_RE = re.compile(r"TX\[t=(\d+) c=(\d+) m=(\d+) k=(\S+) o=(\S+) p=(\S+)\]")


def canon(line):
    """compare only what the property constrains: the diagnostic payload of an error reply the
    library builds itself is free text; the listing of /.well-known/core is C20's subject"""
    if "H[" in line:
        return line

    def fix(m):
        t, c, mid, k, o, p = m.groups()
        c = int(c)
        if c >= 128 or c == 66:
            p = "*"
        elif c == 69 and p == "-":
            p = "WK"
        return "TX[t=%s c=%d m=%s k=%s o=%s p=%s]" % (t, c, mid, k, o, p)
    return TX_RE.sub(fix, line)


def gen_lines(run, r, ntables, nreq):
    lines, infos = [], []
    for _ in range(ntables):
        t = gen_dispatch.gen_table(r)
        tt = gen_dispatch.table_tokens(t)
        for _ in range(nreq):
            ln, info = gen_dispatch.gen_case(r, t, tt)
            lines.append(ln)
            infos.append(info)
    return lines, infos


def main(run):
    run.cov["trusted_base"] = vlib.TRUSTED_COMMON + [
        "model: Server/Dispatch.v, Server/NoResponse.v transcribed by hand from coap_dispatch, "
        "handle_request, no_response, coap_option_check_critical, coap_new_error_response, "
        "coap_get_uri_path/coap_get_query; Wire/Pdu.v parse (C03) decodes the datagram",
        "harness/common/vnet.h (scripted network, virtual clock) and harness/h_dispatch.c"]
    run.assumptions = []
    run.prove()
    model = vlib.build_model()
    drv = vlib.build_driver("h_dispatch", ["h_dispatch.c"], wraps=WRAPS)
    r = tie.rng_for(run, "c10")
    lines = list(vlib.read_corpus("C10"))
    infos = [None] * len(lines)
    nt, nq = (40, 300) if run.tier == "quick" else (400, 1000)
    gl, gi = gen_lines(run, r, nt, nq)
    lines += gl
    infos += gi
    om, oc, crashes = tie.run_both(model, drv, lines)
    run.cov["driver_crashes"] = len(crashes)
    for idx, rc, err in crashes[:3]:
        run.violation("C driver crashed (rc=%d) on a request datagram" % rc,
                      "case: %s\nstderr: %s\n" % (lines[idx], err), tag="crash%d" % idx)
    nbad = 0
    for i, ln in enumerate(lines):
        mo, co = canon(om[i]), canon(oc[i])
        info = infos[i]
        if mo == "MALFORMED":
            run.hist("kind", "malformed")
            run.count(ln, False)
            continue
        if "SKIP" in mo:
            run.hist("kind", "outside-model")
            run.count(ln, False)
            continue
        nontriv = bool(info) and info["ty"] in (0, 1) and 1 <= info["code"] < 32 and info["nopts"] >= 1
        run.count(ln, nontriv or info is None)
        if info:
            run.hist("type", info["ty"])
            run.hist("code_class", info["code"] // 32 if info["code"] else "empty")
            run.hist("dest", "mcast" if info["mcast"] else "ucast")
            for tg in info["tags"]:
                run.hist("feature", tg)
        m = TX_RE.search(co)
        run.hist("outcome", ("H+" if "H[" in co else "") + ("c=%s" % m.group(2) if m else "none"))
        if i % 2500 == 11:
            run.sample({"case": ln[:300], "impl": co[:300]})
        if mo != co:
            nbad += 1
            if nbad <= 5:
                run.violation("server output differs from the transcribed dispatch model: model=%s impl=%s"
                              % (mo[:160], co[:160]),
                              "case: %s\nmodel (dp_serve): %s\nimpl: %s\n" % (ln, mo, co),
                              tag="f%d" % nbad, no_input=True)
    run.cov["disagreements"] = nbad

"""C10 - server answers each request datagram once, with the protocol-prescribed code
(DESIGN.md section 6, C10; notes/C10.md).

Every case = (resource table, handler behaviour, destination, request datagram) is run through
  * the C driver harness/h_dispatch.c (real receive path of a UDP server endpoint, objects built
    from the repository's working tree): events = handler invocations + emitted datagrams;
  * the extracted model: dp_serve (transcription of the code, form F) and dp_allowed_outs (the
    relation of the property statement, form R; Coq: everything in it satisfies the statement).
Oracle (R): the implementation's events must be one of dp_allowed_outs -> otherwise a concrete
violation (shrunk case as replay).  Correspondence (F): events = dp_serve; a difference with R
intact is reported as no-failing-input-found."""
import re
import vlib
import tie
import gen_dispatch as G

RULE = ("cases = resource table x handler behaviour x destination x request datagram (all codes, "
        "all four types, option sets with known/unknown critical/elective/unsafe options and "
        "legal/illegal repeats, Uri-Paths with escapes/empty segments/.well-known/core, "
        "No-Response, Hop-Limit, Proxy-*, unicast/multicast) + exhaustive sweeps of code x type x "
        "destination, No-Response value x response class, Hop-Limit value, multicast flag sets, "
        "single option numbers; non-trivial = the parser accepts the datagram, the model covers "
        "it, it is a request (0.01..0.31) of type CON/NON with >= 1 option, or a sweep case; "
        "distinct = distinct case lines")

WRAPS = ["coap_ticks", "coap_socket_send", "coap_socket_recv"]

TX_RE = re.compile(r"TX\[t=(\d+) c=(\d+) m=(\d+) k=(\S+) o=(\S+) p=(\S+?)( WRONGDST)?\]")


def canon(line):
    """Compare exactly what the property constrains.
    * A case in which an application handler ran: everything (the handler's view of the request,
      and "what it sets is what is sent": type, code, id, token, options, payload).
    * A reply the library builds itself (error replies, the built-in /.well-known/core answer):
      type, code, message id and token only.  Its options and payload are not the property's
      business (diagnostic text, echoed options of a 4.02, the address in a 5.08, Content-Format /
      ETag / Block2 and the listing of /.well-known/core: C20, C09) and other fixes to /repo may
      legitimately change them.  Empty messages (code 0.00) must stay empty: compared in full."""
    if "H[" in line:
        # the value of an Observe option in a response (sequence number of the resource) is
        # C11's subject
        def fixo(m):
            t, c, mid, k, o, p, wd = m.groups()
            o = ",".join("6:*" if it.startswith("6:") else it for it in o.split(","))
            return "TX[t=%s c=%s m=%s k=%s o=%s p=%s%s]" % (t, c, mid, k, o, p, wd or "")
        return TX_RE.sub(fixo, line)

    def fix(m):
        t, c, mid, k, o, p, wd = m.groups()
        if int(c) != 0:
            o, p = "*", "*"
        return "TX[t=%s c=%s m=%s k=%s o=%s p=%s%s]" % (t, c, mid, k, o, p, wd or "")
    return TX_RE.sub(fix, line)


def case_line(tt, hact, mcast, dg):
    return " ".join(["c10"] + tt + [hact, "m" if mcast else "u", dg.hex()])


def gen_random(r, ntables, nreq):
    out = []
    for _ in range(ntables):
        t = G.gen_table(r)
        tt = G.table_tokens(t)
        for _ in range(nreq):
            hact, hcode, hopts, hpay = G.gen_hact(r)
            ty, code, mid, token, opts, payload, mcast, tags = G.gen_request(r, t)
            st = {"t": t, "hact": hact, "req": (ty, code, mid, token, opts, payload), "mcast": mcast,
                  "tags": tags, "kind": "random"}
            if hact.endswith("/A") or r.random() < 0.04:
                # the same peer again: a repetition (same token, same or new id, same or other
                # type) and / or an unrelated request
                more = []
                for _ in range(r.choice([1, 1, 2])):
                    x = r.random()
                    if x < 0.6:
                        more.append((r.choice([ty, ty, 0, 1]), code, r.choice([mid, mid, (mid + 1) & 0xffff]),
                                     token, opts, payload))
                    else:
                        ty2, code2, mid2, token2, opts2, payload2, _, _ = G.gen_request(r, t)
                        more.append((ty2, code2, mid2, r.choice([token, token2]), opts2, payload2))
                # Empty messages (pings) are left out of sequences: the Reset to a ping is rate
                # limited per session (last_tx_rst), state this model does not carry
                # ... nor are CON responses and the proxy resource's separate responses
                # (last_con_mid duplicate detection, NSTART): sequences are requests to
                # tables without proxy resource
                if t["prx"] is None and all(1 <= m[1] < 32 for m in [(ty, code)] + more):
                    st["more"] = more
                    st["tags"] = tags + ["sequence"]
                    if r.random() < 0.4:
                        st["dests"] = "".join(r.choice("um") for _ in range(1 + len(more)))
            out.append(st)
    return out


def sweeps(tier):
    """exhaustive leaf sweeps (deterministic)"""
    out = []
    T0 = {"mpr": 0, "known": [], "res": [(b"a", 127, 0), (b"b", 1, 8)], "unk": None, "prx": None}
    T1 = {"mpr": 1, "known": [65, 2049], "res": [(b"a", 127, 8, 1), (b"b", 127, 0)], "unk": (4, 8), "prx": None}
    T2 = {"mpr": 0, "known": [], "res": [(b"a", 127, 0)], "unk": (127, 0x800), "prx": (127, 0, [b"proxy"])}
    pa = [(G.URI_PATH, b"a")]

    def add(t, hact, req, mcast, kind):
        out.append({"t": t, "hact": hact, "req": req, "mcast": mcast, "tags": [kind], "kind": kind})
    # code x type x destination
    for t in (T0, T2):
        for code in range(256):
            for ty in range(4):
                for mc in (False, True):
                    if code == 0:
                        add(t, "69/-/6869", (ty, 0, 7, b"", [], b""), mc, "sweep-code")
                    else:
                        add(t, "69/-/6869", (ty, code, 7, b"\x01", pa, b""), mc, "sweep-code")
    # No-Response value x what the handler answers x type x destination
    hcodes = [69, 132, 160, 0, 96, 65, 141]
    for t in (T0, T1):
        for v in range(256):
            for hc in hcodes:
                for ty in (0, 1):
                    for mc in ((False, True) if ty == 1 else (False,)):
                        add(t, "%d/27=06/01" % hc, (ty, 1, 9, b"\x02", pa + [(G.NORESPONSE, bytes([v]))], b""),
                            mc, "sweep-noresp")
    # No-Response and library-built errors
    for v in range(0, 256):
        for path in (b"zz", b"b"):
            for ty in (0, 1):
                for mc in ((False, True) if ty == 1 else (False,)):
                    add(T1, "69/-/-", (ty, 2, 3, b"", [(G.URI_PATH, path), (G.NORESPONSE, bytes([v]))], b""),
                        mc, "sweep-noresp-err")
    # Hop-Limit
    for v in range(256):
        for ty in (0, 1):
            for mc in ((False, True) if ty == 1 else (False,)):
                add(T0, "69/-/-", (ty, 1, 5, b"", pa + [(G.HOP_LIMIT, bytes([v]))], b""), mc, "sweep-hop")
                if v < 4 or v > 252:
                    add(T1, "69/-/-", (ty, 1, 5, b"", pa + [(G.HOP_LIMIT, bytes([v])), (G.NORESPONSE, b"")], b""),
                        mc, "sweep-hop")
    # multicast flag sets of the resource x response kinds
    for fl in range(64):
        flags = fl * 8
        for mpr in (0, 1):
            t = {"mpr": mpr, "known": [], "res": [(b"a", 1, flags)], "unk": (2, flags), "prx": None}
            for hact in ("69/-/68", "69/-/-", "65/-/-", "132/-/-", "160/-/01", "0/-/-", "96/-/-"):
                add(t, hact, (1, 1, 11, b"\x07", pa, b""), True, "sweep-mcast")
            add(t, "69/-/-", (1, 3, 11, b"\x07", pa, b""), True, "sweep-mcast")           # 4.05
            add(t, "69/-/-", (1, 2, 11, b"\x07", [(G.URI_PATH, b"q")], b"x"), True, "sweep-mcast")  # unknown
            add(t, "69/-/-", (1, 1, 11, b"\x07", [(G.URI_PATH, b"q")], b""), True, "sweep-mcast")   # 4.04
            add(t, "69/-/-", (1, 1, 11, b"\x07", [(G.URI_PATH, b".well-known"), (G.URI_PATH, b"core")], b""),
                True, "sweep-mcast")
    # Observe on an observable resource (registration puts an Observe option in front of what
    # the handler adds; it is taken off again unless the answer is a 2.xx)
    TO = {"mpr": 0, "known": [], "res": [(b"a", 127, 0, 1), (b"b", 127, 0, 0)], "unk": None, "prx": None}
    for path in (b"a", b"b"):
        for code, extra in ((1, []), (5, [(G.CONTENT_FORMAT, b"")]), (3, [])):
            for ov in (b"", b"\x00", b"\x01", b"\x02", b"\x00\x00\x01"):
                for hact in ("69/-/68", "132/-/-", "0/-/-", "65/4=aa/-", "96/-/01", "69/4=aa+6=05/68",
                             "69/12=28+4=aa/68", "132/6=05+27=06/-", "69/14=01+6=07+4=bb/-", "31/-/-", "64/-/-", "95/4=01/-"):
                    for ty in (0, 1):
                        for b2 in (False, True):
                            o = [(G.URI_PATH, path), (G.OBSERVE, ov)] + extra + ([(G.BLOCK2, b"\x06")] if b2 else [])
                            add(TO, hact, (ty, code, 21, b"\x0a\x0b", o, b""), False, "sweep-observe")
    # a handler that defers its answer (coap_register_async): repetitions of the request while
    # the separate response is pending are absorbed (CON: Empty ACK again, NON: nothing)
    TA = {"mpr": 0, "known": [], "res": [(b"a", 127, 0, 0), (b"b", 127, 0, 1)], "unk": (127, 0), "prx": None}
    for ty1 in (0, 1):
        for ty2 in (0, 1):
            for code in (1, 3):
                for tok2 in (b"\x31", b"\x32", b""):
                    for mid2 in (7, 8):
                        for p2 in (b"a", b"b", b"zz"):
                            for ty3 in (None, 0, 1):
                                for mc in ((False, True) if ty1 == 1 and ty2 == 1 and ty3 in (None, 1) else (False,)):
                                    more = [(ty2, code, mid2, tok2, [(G.URI_PATH, p2)], b"")]
                                    if ty3 is not None:
                                        more.append((ty3, 1, 9, b"\x31", pa, b"x"))
                                    out.append({"t": TA, "hact": "0/-/-/A", "req": (ty1, code, 7, b"\x31", pa, b""),
                                                "more": more, "mcast": mc, "tags": ["sweep-async"],
                                                "kind": "sweep-async"})
    # the same sequences with handlers that answer at once (no async state: every datagram is served)
    for ty1 in (0, 1):
        for ty2 in (0, 1):
            out.append({"t": TA, "hact": "69/-/68", "req": (ty1, 1, 7, b"\x31", pa, b""),
                        "more": [(ty2, 1, 7, b"\x31", pa, b""), (ty2, 1, 8, b"\x31", pa, b"")],
                        "mcast": False, "tags": ["sweep-async"], "kind": "sweep-async"})
    # proxy resource (coap_resource_proxy_uri_init2 presets a handler for EVERY method): forward
    # proxy requests (Proxy-Scheme + foreign Uri-Host) run the proxy handler with each method
    # 1..7; requests naming this server's own host are served locally
    for names in ([b"proxy"], [b"h1", b"proxy"], [b""]):
        for pm in (127, 64, 63, 1):
            tp = {"mpr": 0, "known": [], "res": [(b"a", 127, 0, 0)], "unk": None, "prx": (pm, 0, names)}
            for code in range(1, 9):
                for host in (b"other", b"proxy", b"h1", None):
                    for ty in (0, 1):
                        o = list(pa) + [(G.PROXY_SCHEME, b"coap")] + ([(G.URI_HOST, host)] if host else [])
                        if code == 5:
                            o.append((G.CONTENT_FORMAT, b""))
                        add(tp, "69/-/68", (ty, code, 31, b"\x41", o, b"p"), False, "sweep-proxy")
    # one peer, datagrams to different destinations (unicast / multicast): every datagram is
    # judged by ITS destination (the session's local address follows the datagram)
    reqs = [(1, 1, [(G.URI_PATH, b"zz")]), (0, 1, [(G.URI_PATH, b"zz")]), (1, 1, pa), (0, 1, pa),
            (1, 3, [(G.URI_PATH, b"a"), (13, b"")]), (0, 33, []), (1, 1, [(G.URI_PATH, b"b")])]
    for tbl in (T0, T1):
        for dests in ("um", "mu", "umu", "mum", "mmu", "uum"):
            for r1 in reqs:
                for r2 in reqs:
                    more = [(r2[0], r2[1], 12, b"\x22", r2[2], b"")]
                    if len(dests) == 3:
                        more.append((r1[0], r1[1], 13, b"\x23", r1[2], b""))
                    out.append({"t": tbl, "hact": "69/-/68", "req": (r1[0], r1[1], 11, b"\x21", r1[2], b""),
                                "more": more, "mcast": dests[0] == "m", "dests": dests,
                                "tags": ["sweep-dest"], "kind": "sweep-dest"})
    # separator / escape bytes inside one Uri-Path or Uri-Query option against tables with
    # multi-segment paths: "a/b" in ONE option is not the resource a/b
    names = [b"a/b", b"a%2Fb", b"a", b"%41", b"A", b".", b"..", b"a/./b", b"a%25b", b"a%b", b"a/", b"/", b"%2F",
             b"a/b/c", b"a%2Fb/c", b"x&y", b"x%26y"]
    seglists = [[b"a/b"], [b"a", b"b"], [b"a%2Fb"], [b"%41"], [b"A"], [b"."], [b".."], [b"a", b".", b"b"],
                [b"a%b"], [b"a%25b"], [b"a", b"b/"], [b"/"], [b"a/"], [b"", b"a"], [b"a", b""], [b"a/b", b"c"],
                [b"a", b"b", b"c"], [b"a/b/c"], [b"%2F"], [b"x&y"], [b"x%26y"], [b"a/./b"]]
    queries = [[], [b"x&y"], [b"x", b"y"], [b"x%26y"], [b"a/b?c"], [b"%"], [b""], [b"", b"x"], [b"x", b""]]
    for k in range(0, len(names), 4):
        t = {"mpr": 0, "known": [], "res": [(nm, 127, 0, 0) for nm in names[k:k + 4]], "unk": None, "prx": None}
        for t2 in (t, dict(t, unk=(127, 0))):
            for segs in seglists:
                for q in queries:
                    for ty in (0, 1):
                        o = [(G.URI_PATH, x) for x in segs] + [(G.URI_QUERY, x) for x in q]
                        add(t2, "69/-/68", (ty, 1, 3, b"\x05", o, b""), False, "sweep-path")
    tall = {"mpr": 0, "known": [], "res": [(nm, 127, 0, 0) for nm in names], "unk": None, "prx": None}
    for segs in seglists:
        for code in (1, 2, 4):
            add(tall, "69/-/68", (0, code, 3, b"\x05", [(G.URI_PATH, x) for x in segs], b""), False, "sweep-path")
    # single extra option number
    nums = list(range(0, 320)) + [2047, 2048, 2049, 2050, 2051, 65000, 65001, 65534, 65535]
    if tier == "thorough":
        nums = list(range(0, 2100)) + list(range(65000, 65536))
    for t in (T0, T1, T2):
        for n in nums:
            lo, hi = G.LIMITS.get(n, (0, 0))
            for ty in (0, 1):
                add(t, "69/-/-", (ty, 1, 1, b"", pa + [(n, b"\x01" * lo)], b""), False, "sweep-optnum")
                if n in (35, 39) or n % 2:
                    add(t, "69/-/-", (ty, 1, 1, b"", pa + [(n, b"\x01" * lo), (G.PROXY_SCHEME, b"coap"),
                                                          (G.URI_HOST, b"h")], b""), False, "sweep-optnum")
            add(t, "69/-/-", (0, 1, 1, b"", pa + [(n, b"\x01" * lo), (n, b"\x01" * lo)], b""), False, "sweep-repeat")
    return out


def line_of(st):
    dgs = [G.serialize(*rq).hex() for rq in [st["req"]] + list(st.get("more", []))]
    loc = st.get("dests") or ("m" if st["mcast"] else "u")
    return " ".join(["c10"] + G.table_tokens(st["t"]) + [st["hact"], loc, "+".join(dgs)])


class MultiAllowed(list):
    """allowed sets of a case of several datagrams: list of (serve, impl, allowed) per datagram;
    printed like the single form"""
    def __init__(self, steps):
        super().__init__([" | ".join("{" + " || ".join(sorted(set(a))) + "}" for _, _, a in steps)])
        self.steps = steps


class Runner:
    def __init__(self, model, drv):
        self.model, self.drv = model, drv
        # form T: the escape tables of coap_get_uri_path / coap_get_query are taken from the
        # library on this run (C16 owns their content); the model is parametric in them
        out, _ = vlib.run_lines_robust(drv, ["c10esc"])
        self.esc = out[0].strip()
        ref, _ = vlib.run_lines_robust(model, ["c10esc"])
        self.esc_ref = ref[0].strip()
        if not re.fullmatch(r"[0-9a-f]{64} [0-9a-f]{64}", self.esc):
            raise vlib.BuildError("c10esc: unexpected answer of the C driver: " + self.esc[:100])
        # What the property needs of these tables ("the handler registered for that path"): the
        # reconstruction must stay injective, so the separator and the escape character are
        # never copied unescaped ('/' and '%' in a path segment, '&' and '%' in a query item).
        # The model runs with the library's tables with exactly these bits forced; a library
        # that leaves one of them unescaped then shows as a wrong resource / query (R).
        tp, tq = [bytearray.fromhex(x) for x in self.esc.split()]
        self.esc_lib_ok = all(not (t[c // 8] >> (c % 8)) & 1 for t, c in ((tp, 47), (tp, 37), (tq, 38), (tq, 37)))
        for t, c in ((tp, 47), (tp, 37), (tq, 38), (tq, 37)):
            t[c // 8] &= ~(1 << (c % 8)) & 0xff
        self.esc_model = tp.hex() + " " + tq.hex()

    def run(self, lines):
        """-> list of (serve, impl, allowed list) canonicalised"""
        setl = "c10esc " + self.esc_model
        om, _ = vlib.run_lines_robust(self.model, [setl] + lines)
        om = om[1:]
        oc, crashes = vlib.run_lines_robust(self.drv, lines)
        oa, _ = vlib.run_lines_robust(self.model, [setl] + ["c10a" + ln[3:] for ln in lines])
        oa = oa[1:]
        res = []
        for i in range(len(lines)):
            if " | " in om[i] or " | " in oc[i]:
                # several datagrams: per datagram (serve, impl, allowed set)
                ms, cs, as_ = om[i].split(" | "), oc[i].split(" | "), oa[i].split(" | ")
                steps = []
                for k in range(len(ms)):
                    steps.append((canon(ms[k]), canon(cs[k]) if k < len(cs) else "<missing>",
                                  [canon(x) for x in (as_[k] if k < len(as_) else "").split(" || ")]))
                res.append((canon(om[i]), canon(oc[i]), MultiAllowed(steps)))
            else:
                al = [canon(x) for x in oa[i].split(" || ")]
                res.append((canon(om[i]), canon(oc[i]), al))
        return res, crashes


def verdict1(mo, co, al):
    if mo == "MALFORMED":
        # the parser model (C03) rejects: the library may reset or ignore, never run a handler
        if co == "-" or re.fullmatch(r"TX\[t=3 c=0 m=\d+ k=- o=- p=-\]", co):
            return "skip"
        return "F"
    if "SKIP" in mo or any("SKIP" in a for a in al):
        return "skip"
    if co not in al:
        return "R"
    if mo != co:
        return "F"
    return "ok"


def verdict(mo, co, al):
    """'ok' | 'skip' | 'R' (implementation outside the relation) | 'F' (differs from dp_serve);
    a case of several datagrams is judged datagram by datagram (up to the first that is outside
    the model: the session state after it is unknown)"""
    if not isinstance(al, MultiAllowed):
        return verdict1(mo, co, al)
    worst = "ok"
    for m1, c1, a1 in al.steps:
        v = verdict1(m1, c1, a1)
        if v == "skip":
            return worst if worst != "ok" else "skip"
        if v == "R":
            return "R"
        if v == "F":
            worst = "F"
        if "TX[t=0 " in c1 or "TX[t=0 " in m1:
            # a separate Confirmable response is now in flight on this session: whether the next
            # one goes out at once is NSTART's business (C08), state this model does not carry
            break
    return worst


def shrink(runner, st, want):
    """greedy reduction of the request / table while the verdict stays [want]"""
    def variants(s):
        ty, code, mid, token, opts, payload = s["req"]
        for i in range(len(opts)):
            yield dict(s, req=(ty, code, mid, token, opts[:i] + opts[i + 1:], payload))
        if payload:
            yield dict(s, req=(ty, code, mid, token, opts, b""))
        if len(token) > 1:
            yield dict(s, req=(ty, code, mid, token[:1], opts, payload))
        t = s["t"]
        for i in range(len(t["res"])):
            yield dict(s, t=dict(t, res=t["res"][:i] + t["res"][i + 1:]))
        if t["known"]:
            yield dict(s, t=dict(t, known=[]))
        if t["unk"] is not None:
            yield dict(s, t=dict(t, unk=None))
        if t["prx"] is not None:
            yield dict(s, t=dict(t, prx=None))
        if s["hact"] != "69/-/-" and not s["hact"].endswith("/A"):
            yield dict(s, hact="69/-/-")
        more = s.get("more", [])
        for i in range(len(more)):
            d = s.get("dests")
            if d:
                d = (d + d[-1] * len(more))[:len(more) + 1]
                d = d[:i + 1] + d[i + 2:]
            yield dict(s, more=more[:i] + more[i + 1:], dests=d)
    cur = st
    for _ in range(40):
        cands = list(variants(cur))
        if not cands:
            break
        res, _ = runner.run([line_of(c) for c in cands])
        nxt = None
        for c, (mo, co, al) in zip(cands, res):
            if verdict(mo, co, al) == want:
                nxt = c
                break
        if nxt is None:
            break
        cur = nxt
    return cur


def main(run):
    run.cov["trusted_base"] = vlib.TRUSTED_COMMON + [
        "model: Server/Dispatch.v, Server/NoResponse.v transcribed by hand from coap_dispatch, "
        "handle_request, no_response, coap_option_check_critical, coap_new_error_response, "
        "coap_get_uri_path/coap_get_query; Wire/Pdu.v parse (C03) decodes the datagram",
        "specification: Server/DispatchSpec.v (dp_allowed) is the formal reading of the property text",
        "harness/common/vnet.h (scripted network, virtual clock) and harness/h_dispatch.c; the "
        "comparison ignores the diagnostic payload of library-built error replies and replaces "
        "the /.well-known/core listing by a marker (C20's subject)"]
    run.assumptions = [
        "UDP server session, block_mode 0, no OSCORE context, no async state, no observable resource",
        "outside the model (skipped, counted): Proxy-Uri with a proxy resource configured; a handler that answers 5.08",
        "each case uses a fresh peer address; the session of the previous case has expired"]
    run.prove()
    model = vlib.build_model()
    drv = vlib.build_driver("h_dispatch", ["h_dispatch.c"], wraps=WRAPS)
    runner = Runner(model, drv)
    run.cov["escape_tables_from_library"] = runner.esc
    run.cov["escape_tables_equal_reference"] = runner.esc == runner.esc_ref
    run.cov["escape_tables_keep_separators_escaped"] = runner.esc_lib_ok
    if getattr(run, "replay", None):
        # re-run the case lines of a replay file and report them again
        rl = []
        for ln in open(run.replay):
            ln = ln.strip()
            for pre in ("shrunk case: ", "original case: ", "case: "):
                if ln.startswith(pre):
                    rl.append(ln[len(pre):])
        rr, _ = runner.run(rl)
        for ln, (mo, co, al) in zip(rl, rr):
            v = verdict(mo, co, al)
            vlib.log("replay %s: verdict=%s impl=%s allowed=%s" % (ln[:120], v, co[:200], " || ".join(al)[:300]))
            run.count(ln, True)
            if v == "R":
                run.violation("server reaction is outside the relation of the property statement: impl=%s" % co[:200],
                              "case: %s\nimpl: %s\nallowed: %s\n" % (ln, co, " || ".join(al)), tag="replay")
            elif v == "F":
                run.violation("server output differs from dp_serve: model=%s impl=%s" % (mo[:150], co[:150]),
                              "case: %s\nmodel: %s\nimpl: %s\n" % (ln, mo, co), tag="replayf", no_input=True)
        return
    r = tie.rng_for(run, "c10")
    corpus = list(vlib.read_corpus("C10"))
    nt, nq = (60, 400) if run.tier == "quick" else (1500, 600)
    sts = sweeps(run.tier) + gen_random(r, nt, nq)
    lines = corpus + [line_of(s) for s in sts]
    sts = [None] * len(corpus) + sts
    res, crashes = runner.run(lines)
    run.cov["driver_crashes"] = len(crashes)
    for idx, rc, err in crashes[:3]:
        run.violation("C driver crashed (rc=%d) on a request datagram" % rc,
                      "case: %s\nstderr: %s\n" % (lines[idx], err), tag="crash%d" % idx)
    nR = nF = 0
    for i, ln in enumerate(lines):
        mo, co, al = res[i]
        st = sts[i]
        v = verdict(mo, co, al)
        kind = st["kind"] if st else "corpus"
        run.hist("kind", kind)
        if v == "skip":
            run.hist("outside", "malformed" if mo == "MALFORMED" else "outside-model")
            run.count(ln, False)
            continue
        if st:
            ty, code = st["req"][0], st["req"][1]
            nontriv = kind != "random" or (ty in (0, 1) and 1 <= code < 32 and len(st["req"][4]) >= 1)
            run.hist("type", ty)
            run.hist("code_class", code // 32 if code else "empty")
            run.hist("dest", "mcast" if st["mcast"] else "ucast")
            if kind == "random":
                for tg in st["tags"]:
                    run.hist("feature", tg)
        else:
            nontriv = True
        run.count(ln, nontriv)
        m = TX_RE.search(co)
        run.hist("outcome", ("H+" if "H[" in co else "") + ("c=%s" % m.group(2) if m else "none"))
        run.hist("allowed_set_size", len(set(al)))
        if i % 9000 == 17:
            run.sample({"case": ln[:300], "impl": co[:300], "allowed": al[:4]})
        if v == "R":
            nR += 1
            if nR <= 3:
                rep = "case: %s\nimpl: %s\nallowed (dp_allowed_outs): %s\nmodel dp_serve: %s\n" % (
                    ln, co, " || ".join(al), mo)
                if st:
                    sm = shrink(runner, st, "R")
                    sl = line_of(sm)
                    (smo, sco, sal), = runner.run([sl])[0]
                    rep = ("shrunk case: %s\nimpl: %s\nallowed (dp_allowed_outs): %s\nmodel dp_serve: %s\n\n"
                           "original " % (sl, sco, " || ".join(sal), smo)) + rep
                run.violation("server reaction is outside the relation of the property statement: impl=%s "
                              "allowed=%s" % (co[:150], " || ".join(al)[:200]), rep, tag="r%d" % nR)
        elif v == "F":
            nF += 1
            if nF <= 3:
                run.violation("server output differs from the transcribed dispatch model (dp_serve) while "
                              "staying inside the relation: model=%s impl=%s" % (mo[:150], co[:150]),
                              "correspondence case (dp_serve vs coap_dispatch/handle_request)\ncase: %s\n"
                              "model (dp_serve): %s\nimpl: %s\nallowed: %s\n" % (ln, mo, co, " || ".join(al)),
                              tag="f%d" % nF, no_input=True)
    run.cov["outside_relation"] = nR
    run.cov["differs_from_model"] = nF
    run.cov["corpus_cases"] = len(corpus)
    if run.tier == "thorough":
        # the same sweeps + a slice of the random cases under ASan+UBSan (library instrumented):
        # the outputs must be the same and the driver must not trap
        adrv = vlib.build_driver("h_dispatch", ["h_dispatch.c"], variant="asan", wraps=WRAPS)
        sub = [i for i, s in enumerate(sts) if s is None or s["kind"] != "random"][:40000]
        sub += [i for i, s in enumerate(sts) if s is not None and s["kind"] == "random"][:60000]
        sl = [lines[i] for i in sub]
        oa, acr = vlib.run_lines_robust(adrv, sl, timeout=1800,
                                        env={"ASAN_OPTIONS": "detect_leaks=0:abort_on_error=1"})
        run.cov["asan_cases"] = len(sl)
        run.cov["asan_crashes"] = len(acr)
        for idx, rc, err in acr[:2]:
            run.violation("sanitizer trap in the server on a request datagram (rc=%d)" % rc,
                          "case: %s\nstderr: %s\n" % (sl[idx], err), tag="asan%d" % idx)
        nd = 0
        for k, i in enumerate(sub):
            if canon(oa[k]) != res[i][1] and not oa[k].startswith("CRASH"):
                nd += 1
                if nd <= 2:
                    run.violation("sanitizer build answers differently: base=%s asan=%s" % (res[i][1][:120], oa[k][:120]),
                                  "case: %s\nbase: %s\nasan: %s\n" % (lines[i], res[i][1], oa[k]),
                                  tag="asandiff%d" % nd, no_input=True)
        run.cov["asan_differences"] = nd

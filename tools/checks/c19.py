"""C19 - (D)TLS sessions exchange application data only after an authenticated handshake
(DESIGN.md section 6, C19; notes/C19.md)."""
import os
import re
import vlib
import tie
import gen_tls

RULE = ("cases = (credential configuration, schedule of sends / datagram deliveries, losses, "
        "duplications, clock steps, injected cleartext datagrams, forced GnuTLS return codes) run on a "
        "real client and a real server context joined by the scripted network; non-trivial = the trace "
        "contains at least one complete ClientHello/HelloVerify exchange or a forced fault, and at least "
        "one queued request; distinct = distinct case lines.  Pre-filter sweep: every first byte x "
        "boundary lengths x handshake-type bytes (counted separately).")

WRAPS = ["coap_ticks", "coap_socket_send", "coap_socket_recv", "gnutls_handshake",
         "gnutls_record_send", "gnutls_record_recv", "gnutls_dtls_cookie_verify",
         "gnutls_psk_set_server_credentials_function", "gnutls_psk_set_client_credentials_function",
         "coap_handle_dgram", "coap_dtls_handle_timeout", "coap_retransmit",
         "coap_io_do_epoll", "coap_io_process_lkd"]

LOSSFREE_KINDS = ("libprobe/", "blockmode/plain", "sni-history", "stranger-hello", "inject/in@", "cred/", "sched/plain", "sched/queue3", "sched/queue-mid", "sched/after", "sched/nstart2")


def evaluate(run, model, drv, cases, lines):
    """run the C driver, the acceptor and the oracle on the cases; returns a list of
    (index, tag, what, no_input) for everything that failed"""
    outs0, crashes = vlib.run_lines_robust(drv, lines, timeout=900)
    fails = []
    for i, rc, err in crashes:
        fails.append((i, "crash", "driver crashed (rc=%d) on a C19 case: %s" % (rc, err[-200:].replace("\n", " ")), False))
    # a case with K ops is a history of client sessions on one server context: every client is
    # judged with its own credentials (index = index of the whole case, for the replay)
    orig_cases, cases, outs, back = cases, [], [], []
    sni_lines, sni_obs, sni_idx = [], [], []
    late = []          # failures already indexed by whole case
    for i, (c, o) in enumerate(zip(orig_cases, outs0)):
        if o.startswith("CRASH") or o.startswith("<not") or o.startswith("ERROR"):
            cases.append(c); outs.append(o); back.append(i)
            continue
        ph = gen_tls.split_phases(c, o)
        for pc, po in ph:
            cases.append(pc); outs.append(po); back.append(i)
        if len(ph) > 1 and c.ssni is not None:
            reached = [(pc, po) for pc, po in ph if " s.ck:0" in po]
            if reached:
                sni_lines.append("tgsni %s %s" % (gen_tls.tbl(c.ssni), " ".join(gen_tls.hx(pc.csni or b"") for pc, _ in reached)))
                sni_obs.append(" ".join("miss" if " s.sni:" in po else "hit" for _, po in reached))
                sni_idx.append(i)
    if sni_lines:
        for i, want, got in zip(sni_idx, vlib.run_lines_robust(model, sni_lines)[0], sni_obs):
            w = " ".join(x.split(":")[0] for x in want.split())
            if w != got:
                late.append((i, "cred", "SNI credential cache over the handshake history: SNI callback asked %s, cache model says %s" % (got, w), True))
    # credential model for every case
    cred = vlib.run_lines_robust(model, [c.cred_line() for c in cases])[0]
    tgs_lines, owner = [], []
    run_cov_skip = [0]
    for i, (c, o) in enumerate(zip(cases, outs)):
        if o.startswith("CRASH") or o.startswith("<not") or o.startswith("ERROR"):
            continue
        if c.proto == "dtls":
            amb = gen_tls.sendq_order_ambiguous(o)
            if amb:
                run.cov["acceptor_skipped_sendq_order"] = run.cov.get("acceptor_skipped_sendq_order", 0) + 1
            for nm, s in gen_tls.sessions_of(c, o):
                if amb and nm == "c":
                    continue
                if nm == "c" and ("bm" in c.ops or "xt" in c.ops or any(op.startswith("ka") for op in c.ops)):
                    # block mode (lg_crcv bookkeeping, Observe cancellation on release) is not in
                    # the gate model: the client session is judged by the oracle only
                    run_cov_skip[0] += 1
                    continue
                tgs_lines.append(s.line(c.proto))
                owner.append((i, nm, s))
    if hasattr(run, "cov"):
        run.cov["acceptor_skipped_blockmode"] = max(run.cov.get("acceptor_skipped_blockmode", 0), run_cov_skip[0])
    verdicts = vlib.run_lines_robust(model, tgs_lines)[0] if tgs_lines else []
    for (i, nm, s), v in zip(owner, verdicts):
        if v != "ACCEPT":
            fails.append((i, "tie", "session %s: the observed trace is not a trace of the model: %s" % (nm, v[:300]), True))
        elif s.stray:
            fails.append((i, "tie", "session %s: outputs outside any modelled event: %s" % (nm, s.stray[:4]), True))
    for i, (c, o) in enumerate(zip(cases, outs)):
        if o.startswith("CRASH") or o.startswith("<not") or o.startswith("ERROR"):
            if o.startswith("ERROR"):
                fails.append((i, "tie", "driver rejected the case: " + o, True))
            continue
        m = re.match(r"match=(\d) sni=(\S+) c=(\S+) s=(\S+)", cred[i])
        match = bool(m and m.group(1) == "1")
        toks = o.split()
        if c.proto == "udp":
            # positive control of the wire oracle: on UDP the plaintext needles must be seen
            if any(t.startswith("a.q:") and not t.endswith(":-1") for t in toks) and \
               not any(t.startswith("n.w:") and "P" in t.split(":")[5] for t in toks):
                fails.append((i, "tie", "UDP control case: the wire oracle did not see the cleartext it must see", True))
            continue
        # (a) the property, evaluated on the implementation alone
        for b in gen_tls.oracle(c, o, match):
            fails.append((i, "oracle", b, False))
        # (b) what libcoap handed to GnuTLS = the credential model
        forced = bool(c.force)
        for t in toks:
            if t.startswith("c.ih:") and m and m.group(2) != "reject":
                if norm(t[5:]) != m.group(2):
                    fails.append((i, "cred", "the client's identity-hint callback was given hint %s, the server announces %s" % (t[5:], m.group(2)), True))
            if t.startswith("c.cb:") and m:
                got = t[5:]
                hint, _, rest = got.partition(":")
                want = m.group(3)
                if rest == "fail":
                    ok = want == "reject" and norm(hint) == m.group(2)
                else:
                    ok = (norm(hint) == m.group(2)) and want == ":".join(norm(x) for x in rest.split(":"))
                if not ok:
                    fails.append((i, "cred", "client PSK callback gave GnuTLS %s, credential model says hint=%s choice=%s" % (got, m.group(2), want), True))
            elif t.startswith("s.cb:") and m:
                ident, _, key = t[5:].partition(":")
                want_id = m.group(3).split(":")[0] if ":" in m.group(3) else None
                if want_id is not None and norm(ident) == want_id:
                    want = m.group(4)
                    ok = (key == "fail" and want == "reject") or (key != "fail" and norm(key) == want)
                    if not ok:
                        fails.append((i, "cred", "server PSK callback gave GnuTLS key %s for identity %s, credential model says %s" % (key, ident, want), True))
        # (c) GnuTLS's contract (the hypothesis of the theorems): success only for matching keys
        if not forced and not match and any(t in ("c.hs:0", "s.hs:0") for t in toks):
            fails.append((i, "oracle", "handshake completed although the configured credentials do not match", False))
        # (d) delivery on loss-free schedules with matching credentials
        if match and not forced and c.kind.startswith(LOSSFREE_KINDS) and "rel" not in c.ops \
           and not any(op in ("x", "u", "o") or op[:2] in ("is", "ic") for op in c.ops) and "a.nocs" not in toks:
            q, sreq, rsp = gen_tls.completed(c, o)
            if sorted(q) != sorted(sreq) or sorted(q) != sorted(rsp):
                fails.append((i, "oracle", "matching credentials, no loss: requests %s, server handler saw %s, client handler saw %s" % (q, sreq, rsp), False))
            elif sreq != sorted(sreq) and "ns" not in " ".join(c.ops):
                fails.append((i, "oracle", "requests reached the server handler out of order: %s" % sreq, False))
    # report against the whole case
    fails = [(back[i] if tag != "crash" and i < len(back) else i, tag, what, ni) for i, tag, what, ni in fails]
    fails += late
    cred0 = {}
    for j, i in enumerate(back):
        cred0.setdefault(i, cred[j])
    return outs0, [cred0.get(i, "") for i in range(len(orig_cases))], fails


def norm(h):
    return "." if h in ("-", "") else h


def shrink(run, model, drv, case, tag):
    """delta-debug the op list of a failing case (same failure class)"""
    def setup(op):
        return op in ("C", "bm", "xt") or op[:2] in ("ka", "ns", "mh") or op[:1] == "K"
    keep = [op for op in case.ops if setup(op)]
    ends_a = bool(case.ops) and case.ops[-1] == "a"

    def still(_, ops):
        ops = [" ".join(o) if isinstance(o, list) else o for o in ops]
        # a smaller case must still be a fair one: same set-up, and still pumped to the end
        if [op for op in ops if setup(op)] != keep or (ends_a and (not ops or ops[-1] != "a")):
            return False
        c2 = gen_tls.parse_case_line(case.line())
        c2.ops = ops
        c2.kind = case.kind
        _, _, f = evaluate(run, model, drv, [c2], [c2.line()])
        return any(x[1] == tag for x in f)
    ops = tie.shrink_ops(None, list(case.ops), still, max_steps=120)
    c2 = gen_tls.parse_case_line(case.line())
    c2.ops = ops
    c2.kind = case.kind
    return c2


def main(run):
    run.cov["trusted_base"] = vlib.TRUSTED_COMMON + [
        "GnuTLS (the cryptographic handshake and the record layer): in the theorems a Section-free "
        "oracle with the one named hypothesis 'gnutls_handshake returns success only if both ends "
        "presented the same key'; the hypothesis is monitored on every run (credential matrix)",
        "GnuTLS testing hooks _gnutls_global_set_gettime_function / gnutls_global_set_time_function "
        "(virtual clock for DTLS retransmission timers)",
        "model: Tls/Gate.v transcribed by hand from coap_net.c, coap_session.c, coap_dtls.c, "
        "coap_gnutls.c; tied by the extracted acceptor on every observed session trace",
    ]
    run.assumptions = [
        "GnuTLS's contract: gnutls_handshake returns success only if both ends presented the same key "
        "(hypothesis of the credential theorems; monitored on the credential matrix on every run)",
        "TLS over TCP runs on real loopback sockets and the real clock (one thread, both contexts driven "
        "alternately; the wait inside coap_send is serviced or made to time out through a link-time wrap)",
        "PSK only (no certificates); the GnuTLS version installed in the image",
        "application callbacks are table look-ups (identity -> key, hint -> identity/key, SNI -> hint/key)",
    ]
    run.prove()
    model = vlib.build_model()
    drv = vlib.build_driver("h_tls", ["h_tls.c"], wraps=WRAPS)

    # 0. constants the model assumes = what the headers say today
    cc = vlib.run_lines(drv, [], ["c19const"])[1]
    mc = vlib.run_lines(model, [], ["tgconst"])[1]
    if cc[0].split() != mc[0].split():
        diff = sorted(set(cc[0].split()) ^ set(mc[0].split()))
        run.violation("constants of the model differ from the headers: %s" % diff,
                      "C: %s\nmodel: %s\n" % (cc[0], mc[0]), tag="const", no_input=True)
    if "STATES=0,1,2,3,4 MAX_RETRANSMIT=4 NSTART=1 HINT_LENGTH=128" not in cc[1]:
        run.violation("session state numbering / defaults changed: " + cc[1], cc[1], tag="const2", no_input=True)

    # 1. ClientHello pre-filter: exhaustive leaf sweep
    pre = gen_tls.prefilter_lines(run.tier)
    po_c = vlib.run_lines_robust(drv, ["c19pre " + x for x in pre])[0]
    po_m = vlib.run_lines_robust(model, ["tgpre " + x for x in pre])[0]
    nbad = 0
    for x, a, b in zip(pre, po_c, po_m):
        a = a.split(" sent=")[0]
        run.hist("prefilter", a)
        if a != b:
            nbad += 1
            if nbad <= 2:
                run.violation("ClientHello pre-filter: implementation %s, model %s for datagram %s"
                              % (a, b, x[:60]),
                              "case: c19pre %s\n(sent after the other datagrams of the sweep: the receive buffer is reused)\n"
                              "impl: %s\nmodel: %s\n" % (x, a, b), tag="pre%d" % nbad, no_input=True)
    run.cov["prefilter_sweep_cases"] = len(pre)

    # 2. sessions: corpus first, then generated
    r = tie.rng_for(run, "c19")
    n = 3000 if run.tier == "quick" else 40000
    cases = []
    for ln in vlib.read_corpus("C19"):
        c = gen_tls.parse_case_line(ln)
        c.kind = "corpus"
        cases.append(c)
    cases += gen_tls.gen_cases(r, n, run.tier)
    cases += gen_tls.gen_sni_history(tie.rng_for(run, "c19sni"), run.tier)
    if run.tier == "thorough":
        for k in (2, 3):      # further derived seeds for the random part
            cases += gen_tls.gen_random(tie.rng_for(run, "c19/%d" % k), n)
    lines = [c.line() for c in cases]
    outs, cred, fails = evaluate(run, model, drv, cases, lines)
    # A "nothing was lost, so everything must arrive" verdict is only as good as the scripted
    # world is closed.  Such a failure counts only if the case, run alone in a fresh process,
    # fails the same way twice more; the others are counted, not reported.
    kept, flaky = [], 0
    for f in fails:
        i, tag, what, no_input = f
        if tag == "oracle" and (what.startswith("matching credentials, no loss") or
                                what.startswith("requests reached the server handler out of order")):
            again = 0
            for _ in range(2):
                _, _, f2 = evaluate(run, model, drv, [cases[i]], [lines[i]])
                again += any(x[1] == "oracle" and x[2][:28] == what[:28] for x in f2)
            if again < 2:
                flaky += 1
                vlib.log("note (C19): not reproduced (%d of 2 re-runs): %s  [%s]" % (again, what, lines[i][:160]))
                continue
        kept.append(f)
    fails = kept
    run.cov["flaky_not_reproduced"] = flaky
    for i, (c, o) in enumerate(zip(cases, outs)):
        toks = o.split()
        nontriv = (("s.ck:0" in toks) or bool(c.force)) and any(t.startswith("a.q:") for t in toks)
        run.count(lines[i], nontriv)
        run.hist("kind", c.kind.split("/")[0] + "/" + c.kind.split("/")[1] if "/" in c.kind else c.kind)
        run.hist("credentials", "match" if cred[i].startswith("match=1") else "mismatch")
        est = any(t.startswith("c.st:4:") for t in toks)
        run.hist("client_outcome", "established" if est else ("nacked" if any(t.startswith("c.nack:") for t in toks) else "other"))
        run.hist("ops", min(len(c.ops) // 8 * 8, 48))
        if i % 400 == 3:
            run.sample({"case": lines[i][:300], "trace": o[:400]})
    run.cov["tls_calls_replayed"] = sum(o.count(".hs:") + o.count(".tx:") + o.count(".rx:") + o.count(".ck:") for o in outs)
    run.cov["wire_datagrams_checked"] = sum(o.count("n.w:") for o in outs)
    seen = {}
    for i, tag, what, no_input in fails:
        key = (tag, re.sub(r"\d+", "#", what)[:80])
        seen[key] = seen.get(key, 0) + 1
        if seen[key] > 1 or len(seen) > 6:
            continue
        c = cases[i]
        if tag in ("oracle", "tie", "cred") and len(c.ops) > 3:
            try:
                c = shrink(run, model, drv, c, tag)
            except Exception:
                pass
        o2 = vlib.run_lines_robust(drv, [c.line()])[0][0]
        run.violation(what, "case: %s\nkind: %s\nwhat: %s\ntrace:\n%s\n" % (c.line(), cases[i].kind, what, o2.replace(" |", "\n|")),
                      tag="%s%d" % (tag, len(seen)), no_input=no_input)
    run.cov["failures"] = len(fails)

    # 2b. TLS over TCP: real loopback sockets, real GnuTLS, oracle on the implementation alone
    tdrv = vlib.build_driver("h_tls_tcp", ["h_tls_tcp.c"], extra=["-D_GNU_SOURCE"],
                             wraps=["coap_socket_write", "gnutls_handshake", "gnutls_record_send",
                                    "gnutls_record_recv", "coap_tls_read", "coap_pdu_parse_opt",
                                    "coap_io_process_lkd"])
    tcases = gen_tls.gen_tcp_cases(tie.rng_for(run, "c19tcp"), run.tier)
    tlines = [gen_tls.tcp_line(c) for c in tcases]
    touts, tcr = vlib.run_lines_robust(tdrv, tlines, timeout=900)
    tcred = vlib.run_lines_robust(model, [c.cred_line() for c in tcases])[0]
    nt = 0
    nih = 0
    for i, rc, err in tcr:
        run.violation("TLS/TCP driver crashed (rc=%d)" % rc, "case: %s\n%s\n" % (tlines[i], err[-1500:]),
                      tag="tcpcrash%d" % i, no_input=True)
    for c, ln, o, cr in zip(tcases, tlines, touts, tcred):
        if o.startswith("CRASH") or o.startswith("<not"):
            continue
        run.count(ln, " c.hs:" in o or " s.hs:" in o)
        run.hist("kind", c.kind.split("/")[0])
        run.hist("tcp_outcome", "established" if "c.st:4" in o else "not-established")
        mm = re.match(r"match=(\d) sni=(\S+) c=(\S+) s=(\S+)", cr)
        for t in o.split():
            if t.startswith("c.ih:") and mm and mm.group(2) != "reject" and norm(t[5:]) != mm.group(2):
                nih += 1
                if nih <= 2:
                    what = "TLS/TCP: the client's identity-hint callback was given hint %s, the server announces %s" % (t[5:], mm.group(2))
                    run.violation(what, "case: %s\nwhat: %s\ntrace:\n%s\n" % (ln, what, o.replace(" |", "\n|")), tag="tcpih%d" % nih, no_input=True)
                break
        for b in gen_tls.tcp_oracle(c, o, cr.startswith("match=1")):
            if b.startswith("TLS, matching credentials") or b.startswith("TLS: requests reached"):
                # the TLS/TCP driver runs on the real clock: such a verdict must reproduce twice
                again = 0
                for _ in range(2):
                    o2 = vlib.run_lines_robust(tdrv, [ln], timeout=120)[0][0]
                    again += any(x[:25] == b[:25] for x in gen_tls.tcp_oracle(c, o2, cr.startswith("match=1")))
                if again < 2:
                    run.cov["flaky_not_reproduced"] = run.cov.get("flaky_not_reproduced", 0) + 1
                    vlib.log("note (C19): not reproduced (%d of 2 re-runs): %s  [%s]" % (again, b, ln[:160]))
                    continue
            nt += 1
            if nt <= 3:
                run.violation(b, "case: %s\nwhat: %s\ntrace:\n%s\n" % (ln, b, o.replace(" |", "\n|")), tag="tcp%d" % nt)
    # tie: every TLS/TCP session trace must be a trace of the model Tls/GateTcp.v
    tgt_lines, towner = [], []
    for i, (c, o) in enumerate(zip(tcases, touts)):
        if o.startswith("CRASH") or o.startswith("<not") or o.startswith("ERROR"):
            continue
        for nm, sx in gen_tls.tcp_sessions_of(o):
            tgt_lines.append(sx.line())
            towner.append((i, nm, sx))
    tver = vlib.run_lines_robust(model, tgt_lines)[0] if tgt_lines else []
    ntie = 0
    for (i, nm, sx), v in zip(towner, tver):
        what = None
        if v != "ACCEPT":
            what = "TLS/TCP session %s: the observed trace is not a trace of the model: %s" % (nm, v[:300])
        elif sx.stray:
            what = "TLS/TCP session %s: outputs outside any modelled event: %s" % (nm, sx.stray[:4])
        if what:
            ntie += 1
            if ntie <= 2:
                run.violation(what, "case: %s\nwhat: %s\ntrace:\n%s\n" % (tlines[i], what, touts[i].replace(" |", "\n|")),
                              tag="tcptie%d" % ntie, no_input=True)
    run.cov["tcp_tls_cases"] = len(tcases)
    run.cov["tcp_tls_failures"] = nt + nih
    run.cov["tcp_tls_session_traces"] = len(tgt_lines)
    run.cov["tcp_tls_tie_failures"] = ntie

    # 3. thorough: the same cases under ASan+UBSan (the DTLS path frees and re-creates TLS
    # contexts on every failure path); a sanitizer report is a broken tie, not a C19 verdict
    if run.tier == "thorough":
        adrv = vlib.build_driver("h_tls", ["h_tls.c"], variant="asan", wraps=WRAPS)
        sub = lines[:20000]
        aouts, acr = vlib.run_lines_robust(adrv, sub, timeout=1500, env={"ASAN_OPTIONS": "detect_leaks=0"})
        run.cov["asan_cases"] = len(sub)
        run.cov["asan_reports"] = len(acr)
        for i, rc, err in acr[:2]:
            run.violation("sanitizer report / crash of the instrumented driver (rc=%d)" % rc,
                          "case: %s\n%s\n" % (sub[i], err), tag="asan%d" % i, no_input=True)

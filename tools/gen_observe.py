"""C11: history generator for harness/h_observe.c and translation of the implementation's trace
into (a) the op list of the Gallina model (coq/Observe/Observe.v), (b) the outputs the
implementation produced per op in the model's vocabulary, (c) a canonical state dump.

Vocabulary of the harness ops: see harness/h_observe.c; of the model ops / outputs: ocaml/d_observe.ml.
"""
import re

WRAPS = ["coap_ticks", "coap_socket_send", "coap_socket_recv", "coap_check_notify_lkd",
         "coap_handle_failed_notify", "coap_retransmit"]

# query pool: '-' none; hex values joined by '+'.  The last entries aim at the digest preimage
# (number 15 as two little-endian bytes 0f 00 between the values)
QUERIES = ["-", "61", "62", "61+62", "62+61", "6161", "610f0062", "610f00+62"]
TOKENS = ["a1", "a2", "b1b2", "c1c2c3c4", "d1d2d3d4d5d6d7d8", "-", "a1a1"]
EXTRAS = ["", "", "", "4=e1", "4=e2", "17=28", "17=00", "60=10", "60=20", "4=e1,60=11", "12=_",
          "23=06", "23=02", "0=01,12=_", "0=0102,12=_", "0=_", "0=01,12=_,17=28", "0=01"]


# ------------------------------------------------------------------ generator

def disciplined_token(c, r, qi):
    """a token a well-behaved client would use: one per (client, resource, query)"""
    return "%x%x%x1" % (0xa + c, r, qi)


def gen_case(rng, size=None, profile=None):
    """-> (header list, op list) ; profile aims the history at one region of the proof"""
    profile = profile or rng.choice(["mixed", "mixed", "mixed", "nonrun", "nstart", "churn",
                                     "rst", "keys", "wrapless", "err", "xres", "rstcon", "rstcon",
                                     "blocks", "blocks"])
    nres = rng.choice([1, 1, 2, 2, 3])
    modes = [rng.choice([0, 0, 0, 0, 1, 1, 2]) for _ in range(3)]
    if profile == "nonrun":
        modes = [0, 0, rng.choice([0, 1])]
    if profile == "nstart":
        modes = [rng.choice([0, 1, 1]) for _ in range(3)]
    if profile == "rstcon":
        # several observations of ONE peer (one session, one NSTART window): a confirmable
        # notification of one of them is reset / acknowledged / given up, the others must go on
        nres = rng.choice([2, 3])
        modes = [rng.choice([1, 1, 0]) for _ in range(3)]
        nstart = rng.choice([1, 1, 2])
    if profile == "xres":
        # one token on several resources: the RST / give-up paths that act on (session, token)
        nres = rng.choice([2, 3])
        modes = [rng.choice([0, 1, 1]) for _ in range(3)]
    nstart = rng.choice([1, 1, 1, 1, 2, 3])
    nobs = rng.choice([1, 2, 2, 3, 4])
    if profile == "rstcon":
        nobs = rng.choice([1, 1, 2])
    n = size or rng.choice([6, 10, 16, 24, 40, 60])
    ops = []
    if profile == "wrapless" or rng.random() < 0.1:
        # start near the 24-bit wrap of the Observe counter (or anywhere)
        for r in range(nres):
            if rng.random() < 0.7:
                ops.append("init:%d:%d" % (r, rng.choice([16777215, 16777214, 16777210, 16777216 + 5,
                                                           8388607, 8388608, 0, 1, 255, 65535, 65534,
                                                           (1 << 20) - 1, rng.randrange(1 << 24)])))
    ninit = len(ops)
    n += ninit
    live = []            # (c, r, q, tok) registrations we believe are live (best effort)
    if profile == "blocks":
        # notification bodies of 3..5 blocks of 16 bytes; the observers fetch the later blocks
        # while the resources keep changing
        for r in range(nres):
            if rng.random() < 0.8:
                ops.append("big:%d:%d" % (r, rng.choice([40, 40, 48, 70])))
        n += len(ops) - ninit

    def reg(kind="reg"):
        c = rng.randrange(nobs)
        r = rng.randrange(nres)
        qi = rng.randrange(len(QUERIES)) if (profile == "keys" or rng.random() < 0.3) else 0
        if profile == "blocks":
            # one observation per peer: a multi-block notification sent earlier in the same I/O
            # step to the same session also holds back the session's other observers, which the
            # model (flag taken at the entry of the step) does not follow
            r, qi = c % nres, 0
        q = QUERIES[qi]
        if profile == "xres":
            tok = rng.choice(["a1", "a2"])
        elif rng.random() < (0.35 if profile in ("keys", "churn") else 0.1):
            tok = rng.choice(TOKENS)
        else:
            tok = disciplined_token(c, r, qi)
        # type (CON / NON) + 2 * leading zero bytes of the Observe value (00 01, 00 00 01 are legal)
        t = rng.choice([0, 0, 1]) + 2 * rng.choice([0, 0, 0, 1, 2])
        x = rng.choice(EXTRAS) if (profile == "keys" or rng.random() < 0.15) else ""
        if profile == "blocks":
            x = "23=_"
        if kind == "can" and live and rng.random() < 0.8:
            c, r, q, tok = rng.choice(live)
        op = "%s:%d:%d:%s:%s:%d" % (kind, c, r, q, tok, t)
        if x:
            op += ":" + x
        if kind == "reg":
            live.append((c, r, q, tok))
        return op

    # make sure there is something to observe
    for _ in range(rng.choice([1, 1, 2, 3])):
        ops.append(reg())
    while len(ops) < n:
        x = rng.random()
        w = {"mixed": (0.12, 0.38, 0.58, 0.70, 0.78, 0.83, 0.87, 0.90, 0.93, 0.95, 0.97, 0.99),
             "nonrun": (0.04, 0.50, 0.90, 0.93, 0.95, 0.96, 0.97, 0.98, 0.99, 0.995, 0.997, 0.999),
             "nstart": (0.08, 0.40, 0.62, 0.80, 0.86, 0.88, 0.93, 0.96, 0.97, 0.98, 0.99, 0.995),
             "churn": (0.30, 0.45, 0.55, 0.60, 0.65, 0.80, 0.84, 0.86, 0.90, 0.94, 0.97, 0.99),
             "rst": (0.10, 0.35, 0.55, 0.60, 0.85, 0.88, 0.90, 0.93, 0.95, 0.97, 0.98, 0.99),
             "keys": (0.40, 0.52, 0.64, 0.68, 0.72, 0.90, 0.92, 0.94, 0.95, 0.97, 0.98, 0.99),
             "wrapless": (0.10, 0.45, 0.80, 0.88, 0.92, 0.94, 0.96, 0.97, 0.98, 0.99, 0.995, 0.999),
             "err": (0.15, 0.38, 0.58, 0.66, 0.72, 0.76, 0.79, 0.82, 0.92, 0.95, 0.97, 0.99),
             "xres": (0.12, 0.40, 0.62, 0.70, 0.86, 0.88, 0.94, 0.96, 0.97, 0.98, 0.99, 0.995),
             "blocks": (0.08, 0.34, 0.54, 0.58, 0.62, 0.65, 0.66, 0.76, 0.77, 0.78, 0.79, 0.80),
             "rstcon": (0.10, 0.42, 0.66, 0.74, 0.90, 0.91, 0.95, 0.96, 0.97, 0.98, 0.99, 0.995),
             }[profile]
        if x < w[0]:
            ops.append(reg())
        elif x < w[1]:
            ops.append("chg:%d:%d" % (rng.randrange(nres), rng.choice([1, 1, 1, 2, 3, 7])))
            if rng.random() < 0.5:
                ops.append("io")
        elif x < w[2]:
            ops.append("io")
        elif x < w[3]:
            ops.append("ack:%d:%d" % (rng.randrange(nobs), rng.choice([0, 0, 0, 1, 2])))
        elif x < w[4]:
            ops.append("rst:%d:%d" % (rng.randrange(nobs), rng.choice([0, 0, 0, 1, 1, 2, 3])))
        elif x < w[5]:
            ops.append(reg("can"))
        elif x < w[6]:
            ops.append("fail")
        elif x < w[7]:
            ops.append("adv:%d" % rng.choice([1, 1500, 2500, 5000, 30000, 100000]))
        elif x < w[8]:
            ops.append("err:%d:%d" % (rng.randrange(nres), rng.choice([0, 0, 132, 160, 128])))
        elif x < w[9]:
            ops.append("lost:%d" % rng.randrange(nobs))
        elif x < w[10]:
            ops.append("del:%d" % rng.randrange(nres))
        elif x < w[11]:
            ops.append("redo:%d" % rng.randrange(nobs))
        else:
            ops.append("idle")
        # bursts that cross the NON budget: change + io several times in a row
        if profile == "blocks" and live and rng.random() < 0.6:
            c, r, q, tok = rng.choice(live)
            first = rng.choice([1, 1, 1, 2])
            for num in range(first, rng.choice([2, 3, 3, 4, 5])):
                ops.append("blk:%d:%d:%s:%s:%d:%d" % (c, r, q, tok, rng.choice([0, 0, 1]), num))
                if rng.random() < 0.4:
                    ops.append("chg:%d:1" % rng.randrange(nres))
                if rng.random() < 0.3:
                    ops.append("io")
        if profile == "rstcon" and rng.random() < 0.2:
            # answer the latest confirmable, then a run of changes on every resource
            a = rng.choice(["rst:%d:0", "ack:%d:0", "rst:%d:0", "fail"])
            ops.append(a % rng.randrange(nobs) if "%" in a else a)
            for _ in range(rng.choice([2, 6, 7])):
                for r in range(nres):
                    ops.append("chg:%d:1" % r)
                ops.append("io")
        if profile in ("nonrun", "wrapless") and rng.random() < 0.25:
            r = rng.randrange(nres)
            for _ in range(rng.choice([4, 5, 6, 7])):
                ops.append("chg:%d:1" % r)
                ops.append("io")
    if rng.random() < 0.7:
        ops.append("io")
    hdr = ["c11", str(nres)] + [str(m) for m in modes] + [str(nstart)]
    return hdr, ops


def line_of(hdr, ops):
    return " ".join(hdr + ops)


# ------------------------------------------------------------------ trace translation

def _hexq(q):
    return [("15", v) for v in q.split("+")] if q != "-" else []


def request_opts(r, q, x, observe, zeros=0):
    """option list of the request datagram the harness builds, in wire order"""
    ov = "00" * zeros + ("01" if observe else "")
    opts = [("6", ov if ov else "_"), ("11", ("r%d" % r).encode().hex())]
    opts += _hexq(q)
    body = None
    if x:
        for kv in x.split(","):
            n, v = kv.split("=")
            if int(n) == 0:
                # FETCH: the payload is part of the cache key (coap_cache.c); the model sees it
                # as a pseudo option -1 at the end of the list
                body = v[:24] if v != "_" else ""
            else:
                opts.append((n, v[:24] if v != "_" else "_"))
    opts = [x[1] for x in sorted(enumerate(opts), key=lambda e: (int(e[1][0]), e[0]))]
    if body:
        opts.append(("-1", body))
    return ",".join("%s=%s" % (n, v if v else "_") for n, v in opts)


def _ca(tok, wire=None, leaks=None, where=""):
    """con_active of the sessions as the implementation reports it, capped by what is really
    outstanding on the wire: a session without an unanswered confirmable message has a free NSTART
    slot whatever the library's counter says (a leaked counter must not excuse a held-back observer)"""
    tok, _, lg = tok.partition("~")
    parts = tok.split(",")
    out = []
    for i, p in enumerate(parts):
        if p == "-":
            continue
        v = int(p)
        if wire is not None:
            w = len(wire.get(i, ()))
            if v > w:
                if leaks is not None:
                    leaks.append("%s: con_active=%d for observer %d, confirmable messages outstanding "
                                 "on the wire: %d" % (where, v, i, w))
                v = w
        out.append("%d=%d" % (i, v))
    # a large (Block2) transmission to the session is unfinished (input under the key s + 2^20)
    for i, ch in enumerate(lg):
        if ch == "1":
            out.append("%d=1" % (i + 1048576))
    return ",".join(out) if out else "-"


class Trace:
    """result of translating one trace line of the harness"""
    def __init__(self):
        self.ok = True
        self.why = ""
        self.consts = {}
        self.groups = []        # [model op string, [impl out strings], harness op, [raw events]]
        self.dump = ""
        self.datagrams = []     # dicts for every X event
        self.steps = 0
        self.obs0 = {}          # resource -> initial observe value (coap_persist_set_observe_num)
        self.anomalies = []     # wire details the model fixes but its outputs do not carry
        self.ca_leaks = []      # con_active above the number of confirmables outstanding on the wire
        self.extra_notifs = []  # Observe options on answers to block requests: (group index, r, c, tok, v, event)


def translate(case_line, trace_line):
    t = Trace()
    toks = trace_line.split()
    hdr = case_line.split()
    if not toks or toks[0] != "K":
        t.ok = False
        t.why = "no trace: " + trace_line[:80]
        return t
    i = 1
    while i < len(toks) and "=" in toks[i] and not toks[i].startswith("["):
        k, v = toks[i].split("=")
        t.consts[k] = int(v)
        i += 1
    ordinal = {}            # datagram index -> notification ordinal
    by_mid = {}             # (c, mid) -> notification ordinal
    nord = 0
    last_req = {}           # c -> model op of its last request
    wire = {}               # c -> set of mids of confirmable messages sent to c and not yet answered
                            #      (ACK or RST delivered), given up, or dropped with the session
    cur_hop = None
    cur_blk = None
    cur = None              # current model group [op, outs, hop, events]
    in_step = False
    pending_del = None

    def new_group(mop, hop):
        nonlocal cur
        cur = [mop, [], hop, []]
        t.groups.append(cur)

    while i < len(toks) and toks[i] != "|":
        tk = toks[i]
        i += 1
        if tk.startswith("["):
            cur_hop = tk[1:]
            cur_blk = None
            cur = None
            pending_del = None
            f = cur_hop.split(":")
            op = f[0]
            if op in ("reg", "can"):
                c, r, q, tok = int(f[1]), int(f[2]), f[3], f[4]
                x = f[6] if len(f) > 6 else ""
                mop = "%s:%d:%d:%s:%s" % ("R" if op == "reg" else "C", r, c, tok,
                                          request_opts(r, q, x, op == "can", (int(f[5]) // 2) % 3))
                last_req[c] = mop
                new_group(mop, cur_hop)
            elif op == "redo":
                c = int(f[1])
                if c in last_req:
                    new_group(last_req[c], cur_hop)
                else:
                    cur_blk = (-1, c, "")
            elif op == "chg":
                for _ in range(int(f[2])):
                    new_group("H:%d" % int(f[1]), cur_hop)
            elif op in ("ack", "rst"):
                c = int(f[1])
                tgt = f[2].split("=")[1]
                if tgt != "none":
                    k = int(tgt)
                    for d0 in t.datagrams:
                        if d0["k"] == k:
                            wire.get(c, set()).discard(d0["mid"])
                    if k in ordinal:
                        new_group("%s:%d:%d" % ("A" if op == "ack" else "T", c, ordinal[k]), cur_hop)
            elif op == "err":
                new_group("E:%d:%d" % (int(f[1]), 1 if int(f[2]) else 0), cur_hop)
            elif op == "lost":
                if not f[1].endswith("=none"):
                    wire.pop(int(f[1]), None)
                    new_group("L:%d" % int(f[1]), cur_hop)
            elif op == "blk":
                cur_blk = (int(f[2]), int(f[1]), f[4])        # (r, c, tok) the blocks belong to
                last_req.pop(int(f[1]), None)                 # a repeated block request is no model op
            elif op == "del":
                pending_del = int(f[1])
            elif op == "init":
                if t.groups:
                    t.ok = False
                    t.why = "init after the first op"
                else:
                    t.obs0[int(f[1])] = int(f[2])
            continue
        if tk.startswith("S"):
            new_group("I:" + _ca(tk[1:], wire, t.ca_leaks, "op %d (%s)" % (len(t.groups), cur_hop)), cur_hop)
            in_step = True
            t.steps += 1
            continue
        if tk == "s":
            in_step = False
            cur = None
            continue
        if tk.startswith("Z"):
            new_group("D:%d:%s" % (pending_del, _ca(tk[1:], wire, t.ca_leaks, "op %d (%s)" % (len(t.groups), cur_hop))),
                      cur_hop)
            continue
        if tk.startswith("U"):
            # a confirmable message is given up (seen at coap_retransmit, independent of what the
            # library then does): the de-registration event "failed Confirmable notification"
            c, mid = tk[1:].split(":")
            key = (int(c), int(mid))
            wire.get(int(c), set()).discard(int(mid))
            if key in by_mid:
                new_group("F:%d:%d" % (int(c), by_mid[key]), cur_hop)
                cur = None
            continue
        if tk.startswith("F"):
            # coap_handle_failed_notify ran (informational; the model op was made at the U event)
            continue
        if tk.startswith("X"):
            f = tk[1:].split(":")
            if len(f) < 9:
                t.ok = False
                t.why = "bad datagram " + tk
                continue
            d = {"k": int(f[0]), "c": int(f[1]), "origin": f[2], "type": f[3], "code": int(f[4]),
                 "mid": int(f[5]), "tok": f[6], "obs": f[7], "pay": f[8], "hop": cur_hop,
                 "blk": f[9] if len(f) > 9 else "-"}
            t.datagrams.append(d)
            if d["type"] == "C" and d["c"] >= 0:
                wire.setdefault(d["c"], set()).add(d["mid"])
            body = bytes.fromhex(d["pay"]).decode("latin-1") if d["pay"] != "-" else ""
            m = re.match(r"(\d+)\.(\d+)(\.x*)?$", body)
            d["res"] = int(m.group(1)) if m else None
            d["state"] = int(m.group(2)) if m else None
            con = "C" if d["type"] == "C" else "N"
            cls = d["code"] >> 5
            if d["origin"] == "n":
                d["ord"] = nord
                ordinal[d["k"]] = nord
                by_mid[(d["c"], d["mid"])] = nord
                if cls == 2 and d["obs"] != "-":
                    s = "N%d:%s:%d:%s:%s:%s" % (nord, d["res"], d["c"], d["tok"], d["obs"], con)
                else:
                    s = "E%d:%s:%d:%s:%s" % (nord, d["res"], d["c"], d["tok"], con)
                    if cls == 2 or d["obs"] != "-":
                        t.anomalies.append("odd-notification-%d-%s" % (d["code"], d["obs"]))
                nord += 1
                if cur is None or not in_step:
                    t.ok = False
                    t.why = "notification outside a step of the I/O loop: " + tk
                else:
                    cur[1].append(s)
            elif d["origin"] == "g":
                if cur is not None and cur[0].startswith("D:"):
                    cur[1].append("G%d:%d:%s" % (pending_del, d["c"], d["tok"]))
                    if d["type"] != "N" or d["code"] != 132 or d["obs"] != "-":
                        t.anomalies.append("gone-notice-%s-%d-%s" % (d["type"], d["code"], d["obs"]))
                else:
                    t.ok = False
                    t.why = "4.04 outside a resource deletion: " + tk
            else:
                if (d["c"], d["mid"]) in by_mid and d["type"] == "C":
                    d["retransmission"] = True
                elif cur is not None and cur[0][0] in "RC" and not cur[1] and \
                        (d["type"] == "R" or (cls >= 4 and d["res"] is None)):
                    # RST, or an error response made by the library itself (no application body):
                    # the request was refused as malformed: it never reached handle_request
                    t.groups.remove(cur)
                    cur = None
                    d["refused"] = True
                elif cur is not None and cur[0][0] in "RC" and d["type"] in "AN":
                    if cur[0][0] == "R":
                        rr = cur[0].split(":")
                        cur[1].append("Q%s:%s:%s:%s" % (rr[1], rr[2], d["tok"],
                                                         d["obs"] if cls == 2 else "-"))
                    d["response"] = True
                elif cur_blk is not None and d["type"] in "AN":
                    # answer to a request for a later block: per RFC 7959 2.6 not a notification;
                    # if it carries an Observe option it counts as one for the ordering oracle
                    d["block_response"] = True
                    if d["obs"] != "-" and cls == 2:
                        t.extra_notifs.append((len(t.groups), str(cur_blk[0]), str(cur_blk[1]), cur_blk[2],
                                               int(d["obs"]), tk))
                else:
                    d["stray"] = True
            continue
        # unknown token
        t.ok = False
        t.why = "unknown trace token " + tk
    # state dump
    rest = toks[i + 1:] if i < len(toks) else []
    out = []
    queued = {}             # session -> number of nodes in the send queue (each holds a reference)
    qitems = []
    for tk in rest:
        if tk.startswith("q=") and tk != "q=-":
            for it in tk[2:].split(","):
                c, mid = it.split(".")
                queued[int(c)] = queued.get(int(c), 0) + 1
                qitems.append("%s.%s" % (c, by_mid.get((int(c), int(mid)), "?" + mid)))
    t.refs_raw = None
    for tk in rest:
        if tk.startswith("ref="):
            # session->ref = subscriptions + queued messages; the model counts the subscriptions
            raw = tk[4:].split(",")
            t.refs_raw = raw
            out.append("ref=" + ",".join("0" if x == "-" else str(int(x) - queued.get(c, 0))
                                         for c, x in enumerate(raw)))
        elif tk.startswith("q="):
            out.append("q=" + (",".join(sorted(qitems)) if qitems else "-"))
        else:
            out.append(tk)
    t.dump = " ".join(out)
    t.nres = int(hdr[1])
    t.modes = [int(x) for x in hdr[2:5]][:t.nres]
    t.nstart = int(hdr[5])
    return t


def modes_str(t):
    return ",".join("%d/%d" % (m, t.obs0.get(i, 2)) for i, m in enumerate(t.modes))


def model_line(t):
    return "c11m %d %d %d %s %s" % (t.nstart, t.consts.get("non", 5), t.consts.get("fail", 1),
                                    modes_str(t),
                                    " ".join(g[0] for g in t.groups))


def canon_model(s):
    """the model driver prints the send queue in sending order, the implementation keeps it in
    order of expiry: compare as sets"""
    return re.sub(r"q=(\S+)", lambda m: "q=" + ",".join(sorted(m.group(1).split(","))), s)


def strip_internal(s):
    """drop what the property cannot observe from a state dump: the dirty / partiallydirty /
    observe_pending flags and fail_cnt (kept: subscribers in list order with non_cnt, the Observe
    counter, the send queue, the reference counts)"""
    head, sep, dump = s.partition(" | ")
    out = []
    for tk in dump.split():
        m = re.match(r"(R\d+=\d+)/\d/\d:(.*)$", tk)
        if m:
            subs = m.group(2)
            if subs != "-":
                subs = ",".join(".".join(it.split(".")[:3]) for it in subs.split(","))
            out.append(m.group(1) + ":" + subs)
        elif re.match(r"P\d$", tk):
            continue
        else:
            out.append(tk)
    return head + sep + " ".join(out)


def impl_canonical(t):
    """what the model driver would print if the model behaved like the implementation did"""
    groups = [" ".join(["["] + g[1]) for g in t.groups]
    return " ".join(groups) + " | " + t.dump + ("".join(" " + a for a in t.anomalies))


def acceptor_line(t, strict):
    parts = []
    for g in t.groups:
        parts.append(g[0])
        parts.extend(g[1])
    return "c11a %d %d %d %d %s %s" % (t.nstart, t.consts.get("non", 5), t.consts.get("fail", 1),
                                       1 if strict else 0, modes_str(t),
                                       " ".join(parts))


# ------------------------------------------------------------------ real libcoap clients (c11r)

def gen_client_case(rng):
    """history for the c11r mode of h_observe: real libcoap clients behind a lossy FIFO network"""
    nres = rng.choice([1, 2, 3])
    modes = [rng.choice([0, 0, 0, 1]) for _ in range(3)]
    nstart = rng.choice([1, 1, 2])
    ncl = rng.choice([1, 2, 3, 4])
    ops = []
    n = rng.choice([8, 14, 22, 34])
    for _ in range(rng.choice([1, 2, 3])):
        ops.append("creg:%d:%d:%s" % (rng.randrange(ncl), rng.randrange(nres), rng.choice(["-", "-", "a", "b"])))
    ops.append("pump")
    while len(ops) < n:
        x = rng.random()
        if x < 0.12:
            ops.append("creg:%d:%d:%s" % (rng.randrange(ncl), rng.randrange(nres), rng.choice(["-", "a", "b"])))
        elif x < 0.42:
            ops.append("chg:%d:%d" % (rng.randrange(nres), rng.choice([1, 1, 2, 5])))
            ops.append("io")
        elif x < 0.66:
            ops.append("pump" if rng.random() < 0.6 else "pump:%d" % rng.choice([1, 2, 3, 5, 0x11, 0xff, rng.randrange(1 << 16)]))
        elif x < 0.74:
            ops.append("ccan:%d:%d:%s" % (rng.randrange(ncl), rng.randrange(nres), rng.choice(["-", "a", "b"])))
        elif x < 0.80:
            ops.append("cfgt:%d:%d:%s" % (rng.randrange(ncl), rng.randrange(nres), rng.choice(["-", "a", "b"])))
        elif x < 0.90:
            ops.append("adv:%d" % rng.choice([100, 2500, 5000, 20000]))
        elif x < 0.93:
            ops.append("err:%d:%d" % (rng.randrange(nres), rng.choice([0, 132])))
        elif x < 0.96:
            ops.append("lost:%d" % rng.randrange(ncl))
        elif x < 0.98:
            ops.append("del:%d" % rng.randrange(nres))
        else:
            ops.append("io")
    return "c11r %d %d %d %d %d %d %s" % (nres, modes[0], modes[1], modes[2], nstart, ncl, " ".join(ops))


def serial_lt(a, b):
    """RFC 7641 order on 24-bit Observe values: a is older than b"""
    d = (b - a) % (1 << 24)
    return 0 < d < (1 << 23)


def judge_client(case, trace):
    """implementation-only oracle for a c11r trace -> (ok, what, stats)"""
    toks = trace.split()
    if not toks or toks[0] != "K":
        return False, "no trace: " + trace[:100], {}
    handler = {}          # (c, tok, epoch) -> list of (obs, state, res) heard by the client
    epoch = {}            # (c, tok) -> number of times the server added this observer so far
    sent = {}             # (c, tok) -> list of (obs, body hex, epoch) of what the server sent
    deleted = set()       # (c, tok) currently deleted at the server (after Z, before A)
    nH = nX = 0
    i = 1
    while i < len(toks) and toks[i] != "|":
        tk = toks[i]
        i += 1
        if tk[0] == "A" and ":" in tk:
            c, tok = tk[1:].split(":")
            deleted.discard((c, tok))
            epoch[(c, tok)] = epoch.get((c, tok), 0) + 1
        elif tk[0] == "Z" and ":" in tk:
            c, tok = tk[1:].split(":")
            deleted.add((c, tok))
        elif tk[0] == "X":
            f = tk[1:].split(":")
            if len(f) >= 9:
                sent.setdefault((f[1], f[6]), []).append((f[7], f[8], epoch.get((f[1], f[6]), 0)))
            if len(f) >= 9 and f[2] == "n":
                nX += 1
                # (an error-class response is sent right after the observer was deleted: allowed)
                if (f[1], f[6]) in deleted and (int(f[4]) >> 5) == 2:
                    return False, "notification %s to an observer the server had deleted" % tk, {}
        elif tk[0] == "H":
            f = tk[1:].split(":")
            nH += 1
            if len(f) >= 5 and f[2] != "-" and int(f[3]) == 69 and f[4] != "-":
                body = bytes.fromhex(f[4]).decode("latin-1")
                m = re.match(r"(\d+)\.(\d+)$", body)
                if not m:
                    return False, "client got an unreadable body " + tk, {}
                # the registration (epoch) this message was sent in: a delayed message of an earlier
                # registration with the same token must not be compared with the current one
                ep = None
                for (o1, b1, e1) in sent.get((f[0], f[1]), []):
                    if o1 == f[2] and b1 == f[4]:
                        ep = e1
                        break
                if ep is None:
                    return False, "client heard %s which the server never sent" % tk, {}
                handler.setdefault((f[0], f[1], ep), []).append((int(f[2]), int(m.group(2)), int(m.group(1))))
    # Observe order = order of the application states, for every pair of one registration
    for key, seq in handler.items():
        for a in range(len(seq)):
            for b in range(a + 1, len(seq)):
                oa, sa, _ = seq[a]
                ob, sb, _ = seq[b]
                if oa == ob and sa != sb:
                    return False, "observer %s: Observe %d carries two different states (%d, %d)" % (key, oa, sa, sb), {}
                if serial_lt(oa, ob) and not sa <= sb:
                    return False, "observer %s: Observe %d < %d but state %d > %d" % (key, oa, ob, sa, sb), {}
                if serial_lt(ob, oa) and not sb <= sa:
                    return False, "observer %s: Observe %d < %d but state %d > %d" % (key, ob, oa, sb, sa), {}
    # end of the history (loss-free closing phase): server list vs client knowledge
    rest = toks[i + 1:]
    state = {}
    listed = set()
    obs_state = {}
    for tk in rest:
        m = re.match(r"R(\d+)=(\d+):(.*)$", tk)
        if m:
            state[int(m.group(1))] = int(m.group(2))
            if m.group(3) != "-":
                for it in m.group(3).split(","):
                    c, tok = it.split(".")
                    listed.add((c, tok, int(m.group(1))))
        elif tk[0] == "O":
            c, r, q, tok, st = tk[1:].split(":")
            obs_state[(c, tok)] = (int(r), st)
    for (c, tok, r) in listed:
        st = obs_state.get((c, tok))
        if st is None:
            continue
        if st[1] in "cf":
            return False, ("observation (client %s token %s) was %s by the client but is still registered "
                           "after the loss-free closing phase" % (c, tok, "cancelled" if st[1] == "c" else "reset")), {}
        seq = handler.get((c, tok, epoch.get((c, tok), 0)), [])
        if not seq:
            return False, "registered observer (client %s token %s) never heard anything" % (c, tok), {}
        newest = seq[0]
        for e in seq[1:]:
            if serial_lt(newest[0], e[0]):
                newest = e
        if newest[1] != state.get(r):
            return False, ("registered observer (client %s token %s): newest state heard %d, resource is at %d "
                           "after the loss-free closing phase" % (c, tok, newest[1], state.get(r, -1))), {}
    return True, "", {"handler_calls": nH, "notifications": nX, "registered_at_end": len(listed)}

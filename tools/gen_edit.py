"""Generator and implementation-side oracle for C04 (in-place edits of a PDU).

Cases:  c04 <proto> <amode> <max> (B <type> <code> <mid> ops | W <hex>+) E edits [X mid smax tok filter]
(format: ocaml/d_edit.ml).  The generator aims at the case splits of the proofs: a neighbour
whose delta crosses 13 / 269 in either direction when an option is inserted before it or the
option before it is removed, first / middle / last / absent removal, zero-length options,
value lengths across 12/13 and 268/269, payload present / absent, token lengths across
8/12/13/268/269/65804, max_size tight around the size reached.

The oracle (spec_step / spec_dup) is the property itself, evaluated on the PRINTED accessor
dumps of the implementation: dump after an edit = the edit applied to the dump before, as an
operation on (token, ordered option list, payload).  It never looks inside values, so it works
on the printed forms (hex or #len:hash)."""
import gen_wire

NONREP = {3, 5, 6, 7, 9, 12, 14, 16, 17, 23, 27, 28, 35, 39, 60, 252, 258}
DELTAS = [0, 1, 2, 11, 12, 13, 14, 15, 25, 26, 255, 256, 267, 268, 269, 270, 271, 281, 282, 283,
          537, 538, 539, 1000, 5000]
VLEN = [0, 0, 1, 2, 3, 8, 11, 12, 13, 14, 15, 100, 255, 267, 268, 269, 270, 300, 1034]
TOKL = [0, 0, 1, 2, 4, 7, 8, 8, 9, 11, 12, 13, 14, 20, 255, 256, 267, 268, 269, 270, 300, 1000]
TOKBIG = [4096, 65535, 65803, 65804, 65805]


# ------------------------------------------------------------------ printed byte strings

def fill_byte(seed, i):
    return (seed * 31 + i * 7 + (i >> 8) * 13 + 5) & 0xff


def tok_bytes(s):
    if s == "-":
        return b""
    if s[0] == "@":
        l, sd = s[1:].split(",")
        return bytes(fill_byte(int(sd), i) for i in range(int(l)))
    return bytes.fromhex(s)


def show(b):
    """the printed form of util.h / util.ml"""
    if not b:
        return "-"
    if len(b) <= 48:
        return b.hex()
    h = 0x811c9dc5
    for x in b:
        h = ((h ^ x) * 0x01000193) & 0xffffffff
    return "#%d:%08x" % (len(b), h)


def plen(p):
    """length of a printed byte string"""
    if p == "-":
        return 0
    if p[0] == "#":
        return int(p[1:].split(":")[0])
    return len(p) // 2


# ------------------------------------------------------------------ sizes (RFC 7252 3.1)

def ext(x):
    return 0 if x < 13 else 1 if x < 269 else 2


def opt_size(delta, l):
    return 1 + ext(delta) + ext(l) + l


def tok_area(l):
    return l + ext(l)


def opts_size(opts):
    prev = 0
    s = 0
    for n, v in opts:
        s += opt_size(n - prev, plen(v))
        prev = n
    return s


def used(d):
    pl = plen(d["p"])
    return tok_area(plen(d["k"])) + opts_size(d["o"]) + (pl + 1 if pl else 0)


def fits(mx, size):
    return mx == 0 or size <= mx


# ------------------------------------------------------------------ dumps

def parse_dump(s):
    """'t=0 c=1 m=7 k=.. o=.. p=..' -> dict"""
    f = dict(x.split("=", 1) for x in s.split(" "))
    opts = []
    if f["o"] != "-":
        for it in f["o"].split(","):
            n, v = it.split(":", 1)
            opts.append((int(n), v))
    return {"t": int(f["t"]), "c": int(f["c"]), "m": int(f["m"]), "k": f["k"], "o": opts,
            "p": f["p"]}


def fmt_dump(d):
    o = ",".join("%d:%s" % (n, v) for n, v in d["o"]) if d["o"] else "-"
    return "t=%d c=%d m=%d k=%s o=%s p=%s" % (d["t"], d["c"], d["m"], d["k"], o, d["p"])


def last_num(opts):
    return opts[-1][0] if opts else 0


def insert_pos(opts, n):
    """index after the last option whose number is <= n (the list is ascending)"""
    i = 0
    while i < len(opts) and opts[i][0] <= n:
        i += 1
    return i


def cls(d):
    return "s" if d < 13 else "m" if d < 269 else "l"


# ------------------------------------------------------------------ the property, per edit

def add_raw(d, mx, n, v, note):
    """insertion of (n, v) after the last option <= n; refused for the repeat rule or for space"""
    opts = d["o"]
    if n == last_num(opts) and n in NONREP:
        return 0, d
    i = insert_pos(opts, n)
    prev = opts[i - 1][0] if i > 0 else 0
    if not fits(mx, used(d) + opt_size(n - prev, plen(v))):
        return 0, d
    if note is not None and i < len(opts):
        note.append("ins:%s>%s" % (cls(opts[i][0] - prev), cls(opts[i][0] - n)))
    elif note is not None:
        note.append("ins:append")
    d2 = dict(d)
    d2["o"] = opts[:i] + [(n, v)] + opts[i:]
    return 1, d2


def add_internal(d, mx, n, v, note):
    opts = d["o"]
    if n == last_num(opts) and n in NONREP:
        return 0, d
    if 1 <= d["c"] < 32 and n in (35, 39) and not any(k == 16 for k, _ in opts):
        _, d = add_raw(d, mx, 16, "10", None)      # implicit Hop-Limit (RFC 8768)
        if note is not None:
            note.append("hop")
    return add_raw(d, mx, n, v, note)


def spec_step(d, mx, e, note=None):
    """e = token list of one edit -> (expected return, expected dump dict)"""
    k = e[0]
    opts = d["o"]
    if k == "I":
        n, v = int(e[1]), show(tok_bytes(e[2]))
        if n < last_num(opts):
            return add_raw(d, mx, n, v, note)
        return add_internal(d, mx, n, v, note)
    if k == "U":
        n, v = int(e[1]), show(tok_bytes(e[2]))
        idx = next((i for i, o in enumerate(opts) if o[0] == n), None)
        if idx is None:
            if note is not None:
                note.append("upd:absent")
            return spec_step(d, mx, ["I", e[1], e[2]], note)
        w = opts[idx][1]
        grow = opt_size(0, plen(v)) - opt_size(0, plen(w))
        if grow > 0 and not fits(mx, used(d) + grow):
            return 0, d
        if note is not None:
            note.append("upd:%s>%s" % (cls(plen(w)), cls(plen(v))))
        d2 = dict(d)
        d2["o"] = opts[:idx] + [(n, v)] + opts[idx + 1:]
        return 1, d2
    if k == "R":
        n = int(e[1])
        idx = next((i for i, o in enumerate(opts) if o[0] == n), None)
        if idx is None:
            return 0, d
        if note is not None:
            prev = opts[idx - 1][0] if idx else 0
            if idx + 1 < len(opts):
                nx = opts[idx + 1][0]
                note.append("rem:%s>%s" % (cls(nx - n), cls(nx - prev)))
            else:
                note.append("rem:last")
        d2 = dict(d)
        d2["o"] = opts[:idx] + opts[idx + 1:]
        return 1, d2
    if k == "A":                                  # coap_add_option: not once there is payload
        n, v = int(e[1]), show(tok_bytes(e[2]))
        if d["p"] != "-":
            return 0, d
        return add_internal(d, mx, n, v, note)
    if k == "D":                                  # coap_add_data
        pl = tok_bytes(e[1])
        if not pl:
            return 1, d
        if d["p"] != "-" or not fits(mx, used(d) + len(pl) + 1):
            return 0, d
        if note is not None:
            note.append("data")
        d2 = dict(d)
        d2["p"] = show(pl)
        return 1, d2
    if k == "K":
        t = tok_bytes(e[1])
        if len(t) > 65804:
            return 0, d
        grow = tok_area(len(t)) - tok_area(plen(d["k"]))
        if grow > 0 and not fits(mx, used(d) + grow):
            return 0, d
        if note is not None:
            note.append("tok:%s>%s" % (cls(plen(d["k"])), cls(len(t))))
        d2 = dict(d)
        d2["k"] = show(t)
        return 1, d2
    raise ValueError(e)


def spec_dup(d, mx, mid, smax, tok, flt):
    """-> expected dump dict of the duplicate, or None (NULL)"""
    m = max(mx, smax)
    t = tok_bytes(tok)
    n = {"t": d["t"], "c": d["c"], "m": mid, "k": "-", "o": [], "p": "-"}
    if len(t) <= 65804 and fits(m, tok_area(len(t))):
        n["k"] = show(t)
    if flt == "N":
        if not fits(m, tok_area(plen(n["k"])) + opts_size(d["o"])):
            return None
        n["o"] = list(d["o"])
        return n
    dl = set() if flt == "-" else set(int(x) for x in flt.split(","))
    for num, v in d["o"]:
        if num in dl:
            continue
        r, n = add_internal(n, m, num, v, None)
        if not r:
            return None
    return n


# ------------------------------------------------------------------ generator

def edit_toks(edits):
    return [t for e in edits for t in e]


def split_case(line):
    """-> (prefix tokens incl. 'E', edits as token lists, dup tokens incl. 'X' or [])"""
    toks = line.split()
    i = toks.index("E")
    pre = toks[:i + 1]
    rest = toks[i + 1:]
    dup = []
    if "X" in rest:
        j = rest.index("X")
        dup = rest[j:]
        rest = rest[:j]
    edits = []
    k = 0
    while k < len(rest):
        w = 3 if rest[k] in ("I", "U", "A") else 2
        edits.append(rest[k:k + w])
        k += w
    return pre, edits, dup


def line_of(pre, edits, dup):
    return " ".join(pre + edit_toks(edits) + dup)


def ladder(r, n):
    """n ascending option numbers whose gaps sit at the delta class boundaries"""
    x = r.choice([0, 0, 1, 3, 11, 12, 13, 14, 268, 269, 270, 300])
    out = []
    for _ in range(n):
        out.append(x)
        x += r.choice(DELTAS)
    return [v for v in out if v <= 65535]


def pick_vlen(r, big, num=None):
    """value length; for numbers with a defined length limit mostly inside it (so that the
    message stays one the parser accepts and the re-parse part of the property applies)"""
    if num in gen_wire.LIMITS and r.random() < 0.8:
        lo, hi = gen_wire.LIMITS[num]
        return r.choice([lo, hi, min(hi, lo + 1), r.randint(lo, hi), min(hi, 12), min(hi, 13),
                         min(hi, 14), min(hi, 268), min(hi, 269)])
    if big and r.random() < 0.1:
        return r.choice([4000, 65535, 65804])
    return r.choice(VLEN)


def pick_tok(r, big):
    if big and r.random() < 0.3:
        return r.choice(TOKBIG)
    return r.choice(TOKL)


def aimed_number(r, nums):
    """a number next to existing ones so that the following header changes class"""
    if not nums or r.random() < 0.1:
        return gen_wire.pick_num(r, nums)
    x = r.random()
    if x < 0.5:
        # before an existing option: new delta of that option = d
        nx = r.choice(nums)
        d = r.choice([1, 2, 12, 13, 14, 268, 269, 270, 300])
        n = nx - d
    elif x < 0.8:
        pv = r.choice(nums)
        n = pv + r.choice([0, 0, 1, 12, 13, 14, 268, 269, 270])
    elif x < 0.9:
        n = r.choice([0, 1, 16, 35, 39, 16, 35])
    else:
        n = max(nums) + r.choice([0, 1, 13, 269, 1000])
    return n if 0 <= n <= 65535 else gen_wire.pick_num(r, nums)


def gen_case(r, big=False):
    proto = r.choice(["udp", "udp", "udp", "tcp", "ws"])
    amode = r.choice([1, 1, 1, 0, 2]) if proto == "udp" else r.choice([1, 1, 1, 0])
    x = r.random()
    code = r.choice([1, 2, 3, 4]) if x < 0.6 else r.choice([65, 68, 69, 132, 160]) if x < 0.9 \
        else r.choice([225, 226, 228, 100, 255])
    ty = r.randrange(4)
    mid = r.choice([0, 1, 255, 256, 65535, r.randrange(65536)])
    nopt = r.choice([0, 1, 2, 3, 3, 4, 5, 6, 8])
    y = r.random()
    if y < 0.7:
        nums = ladder(r, nopt)
    else:
        nums = sorted(gen_wire.pick_num(r, []) for _ in range(nopt))
    opts = [(n, gen_wire.btok(r, pick_vlen(r, False, n) if n in gen_wire.LIMITS or r.random() >= 0.2 else 0))
            for n in nums]
    tl = pick_tok(r, big and r.random() < 0.3)
    tok = gen_wire.btok(r, tl)
    pl = r.choice([0, 0, 0, 1, 2, 13, 64, 300])
    pay = gen_wire.btok(r, pl)
    size = tok_area(tl) + sum(gen_wire.tok_len(v) + 5 for _, v in opts) + (pl + 1 if pl else 0)
    # edits
    ne = r.choice([1, 2, 3, 4, 6, 8, 12, 20, 40] if not big else [1, 2, 3, 5])
    cur = list(nums)
    edits = []
    grow = 0
    for _ in range(ne):
        z = r.random()
        if z < 0.35:
            n = aimed_number(r, cur)
            l = pick_vlen(r, big, n)
            edits.append(["I", str(n), gen_wire.btok(r, l)])
            cur.append(n)
            cur.sort()
            grow += l + 5
        elif z < 0.55:
            n = r.choice(cur) if cur and r.random() < 0.8 else aimed_number(r, cur)
            l = pick_vlen(r, big, n)
            edits.append(["U", str(n), gen_wire.btok(r, l)])
            if n not in cur:
                cur.append(n)
                cur.sort()
            grow += l + 5
        elif z < 0.58:
            n = aimed_number(r, cur)
            l = pick_vlen(r, big, n)
            edits.append(["A", str(n), gen_wire.btok(r, l)])
            cur.append(n)
            cur.sort()
            grow += l + 5
        elif z < 0.60:
            l = r.choice([0, 1, 2, 13, 64, 300])
            edits.append(["D", gen_wire.btok(r, l)])
            grow += l + 1
        elif z < 0.85:
            if cur and r.random() < 0.85:
                w = r.random()
                n = cur[0] if w < 0.3 else cur[-1] if w < 0.6 else r.choice(cur)
                cur.remove(n)
            else:
                n = aimed_number(r, cur)
            edits.append(["R", str(n)])
        else:
            l = pick_tok(r, big)
            edits.append(["K", gen_wire.btok(r, l)])
            grow += max(0, l + 2 - tl)
    w = r.random()
    if w < 0.5:
        mx = 0
    elif w < 0.9:
        mx = max(1, size + r.choice([0, 1, 2, 3, 5, 8, 13, 20]) + r.randrange(0, grow + 1))
    else:
        mx = r.choice([4, 8, 16, 64, 256, 257, 1024])
    if r.random() < 0.6:
        pre = ["c04", proto, str(amode), str(mx), "B", str(ty), str(code), str(mid)]
        ops = []
        if tl or r.random() < 0.3:
            ops += ["T", tok]
        sh = list(opts)
        if r.random() < 0.3:
            r.shuffle(sh)
        for n, v in sh:
            ops += ["O", str(n), v]
        if pl:
            ops += ["D", pay]
        pre += ops
    else:
        wire = gen_wire.py_serialize(proto, ty, code, mid, tok_bytes(tok),
                                     [(n, tok_bytes(v)) for n, v in opts], tok_bytes(pay))
        hx = wire.hex()
        parts = [hx[i:i + 4000] for i in range(0, len(hx), 4000)] or ["-"]
        pre = ["c04", proto, str(amode), str(mx), "W"] + parts
    pre.append("E")
    dup = []
    if r.random() < 0.3:
        f = r.random()
        if f < 0.35:
            flt = "N"
        elif f < 0.45:
            flt = "-"
        else:
            pool = sorted(set(cur)) + [16, 35]
            pick = []
            for _ in range(r.choice([1, 1, 2, 3])):
                c = r.choice(pool)
                if c not in pick and sum(1 for q in pick if (q > 255) == (c > 255)) < (2 if c > 255 else 6):
                    pick.append(c)
            flt = ",".join(str(q) for q in pick)
        smax = r.choice([60, 60, 100, 300, 1148, 1148, 70000])
        dup = ["X", str(r.randrange(65536)), str(smax), gen_wire.btok(r, pick_tok(r, False)), flt]
    return pre, edits, dup

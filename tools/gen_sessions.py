"""C12 history generator: scripted peers against one UDP server endpoint (harness/h_sessions.c).

A case line is  "se <seed> <session_timeout_s> <max_idle_sessions> <op>*"  (ops documented in the
driver).  All randomness comes from the random.Random handed in (tie.rng_for)."""

RX_KINDS = "gcsoOdDahbnBxvempqPuwUyzZY"
# weights: plain traffic dominates, every reference holder appears regularly
RX_WEIGHTS = {
    "g": 10, "c": 6, "s": 6, "o": 5, "O": 5, "d": 2, "D": 2, "a": 4, "h": 4,
    "b": 2, "n": 2, "B": 1, "x": 1, "v": 1, "e": 1, "m": 3, "p": 2, "q": 1, "P": 1, "u": 2, "w": 2, "U": 1, "y": 1, "z": 1, "Z": 1, "Y": 1,
}


def pick_kind(r, weights):
    tot = sum(weights.values())
    x = r.randrange(tot)
    for k, w in weights.items():
        if x < w:
            return k
        x -= w
    return "g"


# session_timeout values on integer-width boundaries of "seconds * 1000": 2^31 ms, 2^32 ms,
# UINT_MAX seconds
WIDE_TIMEOUTS = [2147483, 2147484, 4294967, 4294968, 4294969, 8589935, 4294967295]


def boundary_advances(timeout_s):
    t = (timeout_s if timeout_s > 0 else 300) * 1000
    if t >= 1 << 31:
        # what a truncated product would be, and the true boundary
        w32, w31 = t % (1 << 32), t % (1 << 31)
        return [t - 1, t, t + 1, 1, 999, 1000, 2000, 3000, 100000, max(1, w32 - 1), w32, w32 + 1,
                w31, w31 + 1, (1 << 32) - 1, 1 << 32, (1 << 31), 2 * t, t // 2]
    # session timeout boundary, retransmission schedule (2..3 s, doubling, 5 transmissions),
    # async delay 2 s, observe/ack odds and ends
    return [t - 1, t, t + 1, 1, 999, 1000, 1999, 2000, 2001, 3000, 6000, 12000, 24000, 48000,
            100000, 2 * t, t // 2]


def gen_history(r, stale_etag=False, max_peers=None):
    """-> (case line, meta dict)"""
    npeers = r.choice([1, 2, 2, 3, 3, 4, 5, 6, 8, 13, 21, 50])
    if max_peers:
        npeers = min(npeers, max_peers)
    timeout = r.choice([0, 1, 1, 2, 3, 5, 30, 300])
    if r.random() < 0.08:
        timeout = r.choice(WIDE_TIMEOUTS)
    maxidle = r.choice([0, 0, 1, 2, 3, max(1, npeers - 1), npeers, npeers + 1])
    if r.random() < 0.03:
        maxidle = r.choice([2147483647, 2147483648, 4294967295])
    nops = r.choice([6, 12, 20, 30, 45, 70]) if npeers < 20 else r.choice([60, 90, 140])
    weights = dict(RX_WEIGHTS)
    if stale_etag:
        weights["B"] = 3
        weights["b"] = 5
    # some histories concentrate on one mechanism
    focus = r.choice(["mixed", "mixed", "mixed", "idle", "hold", "observe", "queue"])
    if focus == "idle":
        weights = {"g": 10, "c": 3, "x": 1, "e": 1}
    elif focus == "hold":
        weights.update({"h": 14})
    elif focus == "observe":
        weights.update({"o": 12, "O": 12, "d": 5, "D": 5, "u": 10, "w": 10, "U": 6, "y": 4, "z": 5, "Z": 5, "Y": 4})
    elif focus == "queue":
        weights.update({"s": 14, "a": 8, "O": 8, "m": 8})
    advs = boundary_advances(timeout)
    ops = []
    peers = list(range(npeers))
    # spread the peers over the key space so that addresses and ports both vary:
    # p -> (10.0.0.1 + p/4, 40000 + p%4)
    base = r.choice([0, 0, 1, 2, 3, 7])
    peers = [base + p for p in peers]
    if r.random() < 0.25:
        ops.append("evref:%d" % r.choice([1, 2, 3]))
    first_pass = r.random() < 0.5
    if first_pass:
        for p in peers:
            ops.append("rx:%d:%s" % (p, pick_kind(r, weights)))
    while len(ops) < nops:
        x = r.random()
        p = r.choice(peers)
        if x < 0.42:
            ops.append("rx:%d:%s" % (p, pick_kind(r, weights)))
        elif x < 0.50:
            ops.append("%s:%d" % (r.choice(["ack", "ack", "ack", "rst"]), p))
        elif x < 0.56:
            ops.append("ref:%d" % p)
        elif x < 0.64:
            ops.append("rel:%d" % p)
        elif x < 0.66:
            ops.append("relall")
        elif x < 0.82:
            ops.append("adv:%d" % max(0, r.choice(advs)))
            if r.random() < 0.8:
                ops.append("prep")
        elif x < 0.90:
            ops.append("prep")
        elif x < 0.95:
            ops.append("notify:%d" % r.randrange(2))
            if r.random() < 0.7:
                ops.append("prep")
        else:
            ops.append("disc:%d" % p)
            if r.random() < 0.5:
                ops += ["adv:%d" % ((timeout if timeout > 0 else 300) * 1000), "prep"]
    # context teardown at a random point
    explicit = False
    if r.random() < 0.5:
        cut = r.randrange(1, len(ops) + 1)
        ops = ops[:cut]
        if r.random() < 0.8:
            ops.append("relall")
        ops.append("free")
        explicit = True
    seed = r.randrange(1, 1 << 30)
    line = "se %d %d %d %s" % (seed, timeout, maxidle, " ".join(ops))
    return line, {"npeers": npeers, "timeout": timeout, "maxidle": maxidle, "focus": focus,
                  "explicit_free": explicit, "nops": len(ops)}


def boundary_cases():
    """hand-made histories on the case boundaries of the proofs (run in every tier)"""
    out = []
    for t in (1, 2, 300):
        T = t * 1000
        # exactly at / one tick before the session timeout
        out.append("se 11 %d 0 rx:0:g rx:1:g adv:%d prep adv:1 prep rx:0:g adv:%d prep" % (t, T - 1, T))
        # a transmission keeps the session fresh; a holder keeps it alive
        out.append("se 12 %d 0 rx:0:s adv:%d prep ack:0 adv:%d prep adv:1 prep" % (t, T, T - 1))
        out.append("se 13 %d 0 rx:0:h adv:%d prep rel:0 prep adv:%d prep" % (t, 2 * T, T))
        out.append("se 14 %d 0 rx:0:o rx:1:O adv:%d prep notify:0 notify:1 prep adv:%d prep rx:0:d rst:1 adv:%d prep"
                   % (t, T, T, T))
    # several observations of one resource by one peer (other query, other token): a disconnect,
    # a Reset, a cancel and the timeout have to deal with all of them
    out.append("se 28 1 0 rx:0:o rx:0:u rx:0:w rx:1:u rx:1:U disc:0 adv:1000 prep disc:1 adv:1000 prep")
    # cancel with a token other than the registration's
    out.append("se 30 300 0 rx:0:u rx:0:z rx:0:o rx:0:Z rx:1:O rx:1:Y rx:1:z free")
    out.append("se 29 1 0 rx:0:u rx:0:w rx:0:y adv:1000 prep notify:0 prep disc:0 adv:1000 prep rx:0:o rx:0:u free")
    # integer widths: seconds * 1000 must not be cut to 32 (or 31) bits
    for t in WIDE_TIMEOUTS:
        w = (t * 1000) % (1 << 32)
        out.append("se 26 %d 0 rx:0:g rx:1:c adv:%d prep rx:0:g adv:1000 prep adv:%d prep rx:1:g adv:%d prep adv:1 prep"
                   % (t, w + 1, 1 << 31, t * 1000 - 1))
    out.append("se 27 300 4294967295 rx:0:g rx:1:g rx:2:g adv:1 rx:3:g")
    # idle limit: num_idle >= max_idle evicts the oldest before the new session is made
    for m in (1, 2, 3):
        ops = " ".join("rx:%d:g adv:1" % p for p in range(m + 2))
        out.append("se 15 300 %d %s rx:0:g" % (m, ops))
        # ties in last_rx_tx: the first in iteration order goes
        ops = " ".join("rx:%d:g" % p for p in range(m + 2))
        out.append("se 16 300 %d %s rx:1:g rx:9:g" % (m, ops))
        # referenced sessions are not idle and are never evicted
        out.append("se 17 300 %d rx:0:h rx:1:h rx:2:g rx:3:g rx:4:g rel:0 rx:5:g rx:6:g rel:1 rx:7:g" % m)
    # same address different port, same port different address
    out.append("se 18 300 0 rx:0:g rx:1:g rx:4:g rx:5:g rx:0:c rx:4:c rx:1:c")
    # teardown with every kind of holder in place
    out.append("se 19 300 0 rx:0:s rx:1:o rx:2:O rx:3:a rx:4:h notify:1 prep relall free")
    out.append("se 20 2 2 rx:0:a rx:1:a adv:2000 prep adv:2000 prep ack:0 adv:100000 prep")
    # block-wise response state hanging off a session that is reclaimed / torn down
    out.append("se 21 1 0 rx:0:b rx:0:n adv:1000 prep rx:1:b free")
    # block-wise uploads: complete, abandoned (reclaimed with the session), cut by the teardown
    out.append("se 25 1 0 rx:0:p rx:0:q rx:0:P rx:1:p rx:1:q adv:1000 prep rx:2:p free")
    # the SESSION_NEW handler keeps every second session: those are never idle
    out.append("se 24 1 2 evref:2 rx:0:g rx:1:g rx:2:g rx:3:g adv:1000 prep rx:4:g rel:0 rel:2 adv:1000 prep rx:5:g rel:4 free")
    # multicast request: the delayed response (queue node) keeps the session past its timeout
    out.append("se 22 1 0 rx:0:m rx:1:m rx:0:g adv:1000 prep adv:1000 prep adv:3000 prep adv:1000 prep")
    out.append("se 23 1 1 rx:0:m rx:1:g rx:2:g rx:3:m adv:5000 prep rx:4:g free")
    return out


def gen_client_history(r):
    """client sessions: 'sc <seed> <op>*'"""
    nslots = r.choice([1, 1, 2, 3, 4, 6])
    nops = r.choice([4, 8, 14, 24, 40])
    ops = []
    advs = [1, 1000, 2000, 3000, 6000, 12000, 24000, 48000, 93000, 100000]
    while len(ops) < nops:
        i = r.randrange(nslots)
        x = r.random()
        if x < 0.20:
            ops.append("%s:%d" % (r.choice(["new", "newl"]), i))
        elif x < 0.28:
            ops.append("dup:%d" % i)
        elif x < 0.45:
            ops.append("send:%d:%s" % (i, r.choice("cccn")))
        elif x < 0.58:
            ops.append("%s:%d" % (r.choice(["resp", "resp", "resp", "rst"]), i))
        elif x < 0.66:
            ops.append("ref:%d" % i)
        elif x < 0.80:
            ops.append("rel:%d" % i)
        elif x < 0.82:
            ops.append("relall")
        else:
            ops.append("adv:%d" % r.choice(advs))
            ops.append("prep")
    explicit = False
    if r.random() < 0.5:
        ops = ops[:r.randrange(1, len(ops) + 1)]
        if r.random() < 0.5:
            ops.append("relall")
        ops.append("free")
        explicit = True
    return "sc %d %s" % (r.randrange(1, 1 << 30), " ".join(ops)), {
        "slots": nslots, "explicit_free": explicit, "nops": len(ops)}


def client_boundary_cases():
    return [
        # the application lets go while a Confirmable is in flight; the answer ends the session
        "sc 31 new:0 send:0:c rel:0 resp:0",
        # ... or the last retransmission does (2 s * 1.5 * 31 at most)
        "sc 32 new:0 send:0:c rel:0 adv:3000 prep adv:6000 prep adv:12000 prep adv:24000 prep adv:48000 prep adv:100000 prep",
        # a Reset
        "sc 33 new:0 send:0:c rel:0 rst:0 new:0 send:0:n rel:0",
        # teardown with a request in flight, with and without the application's reference
        "sc 34 new:0 send:0:c new:1 send:1:c rel:1 free",
        "sc 35 new:0 ref:0 rel:0 send:0:c rel:0 new:0 send:0:c send:0:c resp:0 rel:0 resp:0",
        "sc 36 new:0 new:1 new:2 rel:1 send:0:c send:2:c relall adv:1000 prep resp:2 resp:0",
        # a refused duplicate (same local and remote address) leaves the existing sessions alone
        "sc 37 newl:0 new:1 dup:0 send:0:c resp:0 dup:1 send:1:c rel:1 resp:1 free",
        "sc 38 newl:0 dup:0 dup:0 rel:0 newl:0 dup:0 newl:1 dup:1 dup:0 relall",
        "sc 39 newl:0 newl:1 newl:2 dup:1 send:0:c send:2:c resp:0 rel:2 resp:2 free",
    ]


def gen_stream_history(r):
    """CoAP over TCP server sessions: 'st <seed> <session_timeout_s> <op>*'"""
    nconn = r.choice([1, 1, 2, 3, 4, 6])
    timeout = r.choice([1, 2, 5, 300, 300])
    if r.random() < 0.06:
        timeout = r.choice(WIDE_TIMEOUTS)
    nops = r.choice([5, 9, 14, 22, 36])
    T = timeout * 1000
    advs = [1, 999, 1000, 1999, 2000, 2001, 3000, T - 1, T, T + 1]
    if T >= 1 << 31:
        advs += [T % (1 << 32), T % (1 << 32) + 1, 1 << 31, 1 << 32]
    ops = []
    opened = set()
    while len(ops) < nops:
        i = r.randrange(nconn)
        x = r.random()
        if i not in opened:
            ops += ["conn:%d" % i] + (["csm:%d" % i] if r.random() < 0.9 else [])
            opened.add(i)
        elif x < 0.24:
            ops.append("get:%d:%s" % (i, r.choice("rrhhaa")))
        elif x < 0.33:
            # a message cut inside the header (1, 2), at its end (3), inside the token (4..10),
            # inside options / body (11..33)
            ops.append("part:%d:%d" % (i, r.choice([1, 2, 3, 4, 7, 10, 11, 12, 14, 20, 33])))
            y = r.random()
            if y < 0.45:
                ops.append("close:%d" % i)
                if r.random() < 0.7:
                    ops.append("prep")
            elif y < 0.8:
                ops.append("rest:%d" % i)
        elif x < 0.45:
            ops.append("close:%d" % i)
            if r.random() < 0.6:
                ops.append("prep")
        elif x < 0.52:
            ops.append("ref:%d" % i)
        elif x < 0.64:
            ops.append("rel:%d" % i)
        elif x < 0.66:
            ops.append("relall")
        elif x < 0.82:
            ops.append("adv:%d" % max(0, r.choice(advs)))
            ops.append("prep")
        else:
            ops.append("prep")
    explicit = False
    if r.random() < 0.5:
        ops = ops[:r.randrange(1, len(ops) + 1)]
        if r.random() < 0.8:
            ops.append("relall")
        ops.append("free")
        explicit = True
    return "st %d %d %s" % (r.randrange(1, 1 << 30), timeout, " ".join(ops)), {
        "conns": nconn, "timeout": timeout, "explicit_free": explicit, "nops": len(ops)}


def stream_boundary_cases():
    return [
        # the peer closes: an unreferenced session goes at the next scan, whatever the timeout
        "st 41 300 conn:0 csm:0 get:0:r close:0 prep",
        # ... a session the handler kept (application reference) stays until it is released
        "st 42 300 conn:0 csm:0 get:0:h close:0 prep prep adv:1000 prep rel:0 prep",
        # ... and so does one with an async entry, until the entry has fired
        "st 43 300 conn:0 csm:0 get:0:a close:0 prep adv:1999 prep adv:1 prep prep",
        # both at once, two connections, teardown while one is still held
        "st 44 2 conn:0 csm:0 conn:1 csm:1 get:0:h get:1:a ref:1 close:0 close:1 prep adv:2000 prep rel:1 prep relall free",
        # closed before the CSM; idle timeout of an open connection
        "st 45 1 conn:0 close:0 prep conn:1 csm:1 get:1:r adv:999 prep adv:1 prep",
        "st 46 300 conn:0 csm:0 get:0:h get:0:h close:0 prep rel:0 prep rel:0 prep",
        # the peer goes away in the middle of a message: header / token / body cut
        "st 47 300 conn:0 csm:0 part:0:2 close:0 prep conn:1 csm:1 part:1:7 close:1 prep conn:2 csm:2 part:2:20 close:2 prep",
        "st 48 300 conn:0 csm:0 get:0:h part:0:12 close:0 prep rel:0 prep conn:1 csm:1 part:1:14 rest:1 part:1:3 free",
        "st 49 4294968 conn:0 csm:0 get:0:r adv:705 prep adv:1000 prep get:0:r adv:4294967999 prep adv:1 prep",
    ]

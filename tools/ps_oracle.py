"""C17 - implementation-only oracle: the property text evaluated on what the C code did
(files left by every kill, what a fresh process restored, Observe values on the wire).
Nothing here uses the Coq model; the decoders and the abstract bookkeeping below are a few
lines of Python each."""
import struct

PS_MAX = 0x10000


# ------------------------------------------------------------------ case line helpers
def strip_layout(line):
    """c17 mode buf freq cfg port la lt listen proto ntup tuples... events -> without the blobs"""
    t = line.split()
    ntup = int(t[10])
    return " ".join(t[:5] + t[11 + ntup:])


def with_layout(short, layout, port):
    """corpus form 'c17 mode buf freq cfg events...' (@T<i> = address tuple of client i)"""
    t = short.split()
    ev = [layout.tuples[int(x[2:])] if x.startswith("@T") else x for x in t[5:]]
    # (a replayed case carries the address images of the run that wrote it: same build, same bytes)
    return layout.prefix(t[1], t[2], int(t[3]), t[4], port) + " " + " ".join(ev)


def events_of(line):
    t = line.split()
    ntup = int(t[10])
    toks = t[11 + ntup:]
    arity = {"I": 2, "N": 1, "X": 1, "W": 2, "UA": 4, "UD": 1, "UT": 2, "UC": 1, "UR": 2, "UX": 1,
             "UO": 5, "UP": 3}
    out = []
    i = 0
    while i < len(toks):
        a = arity.get(toks[i])
        if a is None:
            break
        out.append(toks[i:i + 1 + a])
        i += 1 + a
    return out


def event_kinds(short):
    t = short.split()[5:]
    return [x for x in t if x in ("I", "N", "X", "W", "UA", "UD", "UT", "UC", "UR", "UX", "UO", "UP")]


def unhex(s):
    if s in ("-", ""):
        return b""
    return bytes.fromhex(s)


# ------------------------------------------------------------------ output parsing
def parse_files(text):
    d = {}
    for part in text.split(","):
        k, v = part.split("=", 1)
        d[k] = None if v == "~" else unhex(v)
    return d


def parse_sends(text):
    out = []
    if text in ("-", ""):
        return out
    for s in text.split(","):
        body, rest = s.split("@")
        stamp, ev = rest.split("#") if "#" in rest else (rest, "-1")
        c, tok, val = body.split("/")
        out.append({"client": int(c), "token": tok, "value": int(val), "stamp": int(stamp),
                    "ev": int(ev)})
    return out


def parse_dump(text):
    """name:observable:observe:subs|...  -> {name bytes: (observable, observe, [(client, token)])}"""
    res = {}
    if text in ("-", ""):
        return res
    for ln in text.split("|"):
        name, ob, val, subs = ln.split(":")
        sl = []
        if subs != "-":
            for s in subs.split("+"):
                c, tok, _key = s.split("/")
                sl.append((int(c), tok))
        res[unhex(name)] = (ob == "1", int(val), sl)
    return res


def split_fields(co):
    """fields are separated by a blank followed by seg<i>= | crash= | st<i>= | rs<i>="""
    import re
    parts = re.split(r" (?=(?:seg\d+|crash|st\d+|rs\d+)=)", co)
    return parts


def parse_output(co):
    info = {"segs": [], "crash": [], "st": {}, "rs": {}, "error": None}
    if not co or co.startswith(("BADCASE", "LAYOUT", "ERROR", "CRASH", "<")):
        info["error"] = (co or "<none>")[:80]
        return info
    try:
        for f in split_fields(co):
            k, v = f.split("=", 1)
            if k.startswith("seg"):
                if v.startswith("CHILD-FAILED"):
                    info["error"] = "server process died unexpectedly: " + v[:40]
                    info["segs"].append(None)
                    continue
                p = v.split("|", 4)
                info["segs"].append({"n": int(p[0]), "trace": [] if p[1] == "-" else p[1].split(" "),
                                     "sends": parse_sends(p[2]),
                                     "bounds": [] if p[3] == "-" else [int(x) for x in p[3].split(",")],
                                     "dump": parse_dump(p[4]) if p[4] != "-" else None})
            elif k == "crash":
                info["crash"] = [int(x) for x in v.split(",")]
            elif k.startswith("st"):
                if v.startswith("CHILD-FAILED"):
                    info["error"] = "killed process died of something else: " + v[:40]
                    v = v.split(":", 1)[1]
                info["st"][int(k[2:])] = parse_files(v)
            elif k.startswith("rs"):
                if v.startswith("CHILD-FAILED"):
                    info["error"] = "restarted process died: " + v[:40]
                    info["rs"][int(k[2:])] = None
                    continue
                p = v.split(";")
                info["rs"][int(k[2:])] = {"n": int(p[0]), "trace": p[1], "res": parse_dump(p[2]),
                                          "files": parse_files(p[3]), "sends": parse_sends(p[4])}
    except (ValueError, IndexError) as e:
        info["error"] = "unparsable driver output (%s)" % e
    if info["segs"] and info["segs"][-1]:
        info["n"] = info["segs"][-1]["n"]
    return info



def kill_points(info):
    """(k, nontrivial) for the last process; nontrivial: a rename happened before k or happens later"""
    if not info.get("crash") or not info["segs"] or not info["segs"][-1]:
        return []
    tr = info["segs"][-1]["trace"]
    has_rename = any(op.startswith("m") and op.endswith("=0") for op in tr)
    return [(k, has_rename) for k in range(len(info["crash"]))]


# ------------------------------------------------------------------ decoders
def dec_size(b):
    return struct.unpack("<q", b)[0]


def dec_obs(data, la, lt):
    """-> (records, complete) ; record = (key, proto, listen, tuple, pkt, osc|None)"""
    out = []
    p = 0
    n = len(data)

    def item(sz):
        nonlocal p
        if sz <= 0 or p + sz > n:
            raise ValueError
        b = data[p:p + sz]
        p += sz
        return b
    while p < n:
        start = p
        try:
            key, proto, listen, tup = item(8), item(4), item(la), item(lt)
            sz = dec_size(item(8))
            if sz < 0 or sz > PS_MAX:
                raise ValueError
            pkt = item(sz)
            sz2 = dec_size(item(8))
            if sz2 == -1:
                osc = None
            else:
                if sz2 < 0 or sz2 > PS_MAX:
                    raise ValueError
                osc = item(sz2)
            out.append((key, proto, listen, tup, pkt, osc))
        except (ValueError, struct.error):
            p = start
            return out, False
    return out, True


def dec_dyn(data):
    out = []
    p = 0
    n = len(data)

    def item(sz):
        nonlocal p
        if sz <= 0 or p + sz > n:
            raise ValueError
        b = data[p:p + sz]
        p += sz
        return b
    while p < n:
        try:
            proto = item(4)
            sz = dec_size(item(8))
            if sz < 0 or sz > PS_MAX:
                raise ValueError
            name = item(sz) if sz else b""      # the root resource has the empty name
            sz2 = dec_size(item(8))
            if sz2 < 0 or sz2 > PS_MAX:
                raise ValueError
            pkt = item(sz2)
            out.append((proto, name, pkt))
        except (ValueError, struct.error):
            return out, False
    return out, True


def dec_cnt(data):
    """text lines 'name value\\n' -> ([(name, value)], complete)"""
    out = []
    if data == b"":
        return out, True
    if not data.endswith(b"\n"):
        return out, False
    for ln in data[:-1].split(b"\n"):
        i = ln.find(b" ")
        if i < 0:
            return out, False
        num = ln[i + 1:]
        if not num.isdigit():
            return out, False
        out.append((ln[:i], int(num)))
    return out, True


def decode_state(files, la, lt):
    """three persistent files -> ((dyn, obs, cnt), complete?)"""
    d, c1 = dec_dyn(files.get("d") or b"")
    o, c2 = dec_obs(files.get("o") or b"", la, lt)
    c, c3 = dec_cnt(files.get("c") or b"")
    return (tuple(d), tuple(o), tuple(c)), (c1, c2, c3)


# ------------------------------------------------------------------ a CoAP reader for the events
def parse_coap(b):
    """-> dict(code, token, opts=[(num, val)], payload) or None"""
    if len(b) < 4 or (b[0] >> 6) != 1:
        return None
    tkl = b[0] & 15
    if tkl > 8 or 4 + tkl > len(b):
        return None
    p = 4 + tkl
    opts = []
    num = 0
    payload = b""
    while p < len(b):
        if b[p] == 0xff:
            payload = b[p + 1:]
            if not payload:
                return None
            break
        dl, ln = b[p] >> 4, b[p] & 15
        p += 1
        try:
            if dl == 13:
                dl = 13 + b[p]; p += 1
            elif dl == 14:
                dl = 269 + (b[p] << 8) + b[p + 1]; p += 2
            elif dl == 15:
                return None
            if ln == 13:
                ln = 13 + b[p]; p += 1
            elif ln == 14:
                ln = 269 + (b[p] << 8) + b[p + 1]; p += 2
            elif ln == 15:
                return None
        except IndexError:
            return None
        num += dl
        if p + ln > len(b):
            return None
        opts.append((num, b[p:p + ln]))
        p += ln
    return {"code": b[1], "token": b[4:4 + tkl], "opts": opts, "payload": payload}


UNESC = set(b"ABCDEFGHIJKLMNOPQRSTUVWXYZabcdefghijklmnopqrstuvwxyz0123456789-._~!$'()*+,;=:@&")


def uri_path(m):
    segs = []
    for n, v in m["opts"]:
        if n == 11:
            segs.append(b"".join(bytes([c]) if c in UNESC else b"%%%02X" % c for c in v))
    return b"/".join(segs)


def observe_val(m):
    for n, v in m["opts"]:
        if n == 6:
            return int.from_bytes(v, "big")
    return None


def cache_key(m):
    return tuple((n, v) for n, v in m["opts"] if (n & 0x1e) != 0x1c and n not in (6, 4, 9)) + \
        ((m["payload"],) if m["code"] == 5 else ())


# ------------------------------------------------------------------ abstract bookkeeping
class Spec:
    """what the property text promises, tracked over the events of a history:
    dyn = dynamically created resources that were not deleted; subs = active observations;
    static resources are registered by the application in every process"""

    def __init__(self, cfg):
        self.cfg = cfg
        self.unknown = not (len(cfg) > 3 and cfg[3] == "u")
        self.static = {b"s0", b"s1"}
        self.dyn = {}            # name -> observable
        self.subs = []           # (name, client, token, ck), newest first

    def exists(self, name):
        return name in self.static or name in self.dyn

    def observable(self, name):
        return name in self.static or self.dyn.get(name, False)

    def copy(self):
        s = Spec(self.cfg)
        s.static = set(self.static)
        s.dyn = dict(self.dyn)
        s.subs = list(self.subs)
        return s

    def apply(self, ev):
        """-> (name whose 2.05+Observe messages the event produces | None,
               name whose Observe epoch the event ends (created / deleted) | None)"""
        if ev[0] == "N":
            return unhex(ev[1]), None
        if ev[0] != "I":
            return None, None
        m = parse_coap(unhex(ev[2]))
        if m is None:
            return None, None
        client = int(ev[1]) & 7
        name = uri_path(m)
        if m["code"] == 3:
            if not self.exists(name) and self.unknown:
                self.dyn[name] = not name.startswith(b"x")
                return None, name
        elif m["code"] == 4:
            if self.exists(name):
                self.static.discard(name)
                self.dyn.pop(name, None)
                self.subs = [s for s in self.subs if s[0] != name]
                return None, name
        elif m["code"] in (1, 5) and self.exists(name) and self.observable(name):
            ob = observe_val(m)
            tok = m["token"].hex() or "-"
            ck = cache_key(m)
            if ob == 0:
                if not any(s[0] == name and s[1] == client and s[2] == tok for s in self.subs):
                    self.subs = [s for s in self.subs
                                 if not (s[0] == name and s[1] == client and s[3] == ck)]
                    self.subs.insert(0, (name, client, tok, ck))
                return name, None
            if ob == 1:
                hit = [s for s in self.subs if s[0] == name and s[1] == client and s[2] == tok]
                if not hit:
                    hit = [s for s in self.subs if s[0] == name and s[1] == client and s[3] == ck]
                if hit:
                    self.subs.remove(hit[0])
        return None, None

    def restarted(self):
        """the promised state of a fresh process: the application registers its static
        resources again; observations of a resource that is gone are gone"""
        s = self.copy()
        s.static = {b"s0", b"s1"}
        s.subs = [x for x in s.subs if s.exists(x[0])]
        return s

    def key(self):
        return (frozenset(n for n, o in self.dyn.items() if o),
                frozenset((x[0], x[1], x[2]) for x in self.subs))


def subs_set(spec):
    return set((s[0], s[1], s[2]) for s in spec.subs)


def restored_subs(res):
    out = set()
    for name, (_ob, _v, sl) in res.items():
        for c, tok in sl:
            out.add((name, c, tok))
    return out


def dump_key(res):
    return (frozenset(n for n in res if n not in (b"s0", b"s1")), frozenset(restored_subs(res)))


def name_ok(n):
    return all(c not in (0, 10, 32) for c in n) and len(n) <= 1487


def check_restore(lo, hi, res, cfg, where):
    """res = resources/observers of the fresh process; lo / hi = promised state when the
    interrupted event did not / did take effect (equal when no event was interrupted)"""
    out = []
    has_d, has_o = cfg[0] == "d", cfg[1] == "o"
    got_dyn = set(n for n in res if n not in (b"s0", b"s1"))
    if has_d:
        must = set(lo.dyn) & set(hi.dyn)
        may = set(lo.dyn) | set(hi.dyn)
        for n in sorted(must - got_dyn):
            if not lo.dyn[n]:
                out.append(("%s: dynamically created resource %r (not observable) does not exist "
                            "after restart" % (where, n), "dyn_nonobservable"))
            else:
                out.append(("%s: dynamically created resource %r does not exist after restart"
                            % (where, n), None))
        if got_dyn - may:
            out.append(("%s: resource(s) %r exist after restart but were deleted / never created"
                        % (where, sorted(got_dyn - may)), None))
    if has_o:
        # an observation can only come back together with its resource
        must = set(x for x in subs_set(lo) & subs_set(hi) if x[0] in res)
        may = subs_set(lo) | subs_set(hi)
        got = restored_subs(res)
        if must - got:
            out.append(("%s: active observation(s) %r not re-established after restart"
                        % (where, sorted(must - got)[:3]), None))
        if got - may:
            out.append(("%s: observation(s) %r re-established after restart but were cancelled or "
                        "never made" % (where, sorted(got - may)[:3]), None))
    return out


def raw_spec(e, before, files_before, proto, listen):
    """decoded state expected after one direct updater call: every other entry kept, this one
    replaced / appended / removed.  None: outside the domain of the formats (empty field,
    a name the text format cannot carry)"""
    dyn, obs, cnt = before
    if e[0] in ("UO", "UP"):
        # the same call from a session of another transport: the new record carries that one,
        # every other record keeps its own
        proto = int(e[1]).to_bytes(len(proto), "little")
        e = ["UA" if e[0] == "UO" else "UR"] + list(e[2:])
    if e[0] == "UA":
        key, tup, pkt = unhex(e[1]), unhex(e[2]), unhex(e[3])
        osc = None if e[4] == "~" else unhex(e[4])
        if len(pkt) == 0 or (osc is not None and len(osc) == 0) or len(pkt) > PS_MAX or \
                (osc is not None and len(osc) > PS_MAX):
            return None
        return (dyn, tuple(r for r in obs if r[0] != key) + ((key, proto, listen, tup, pkt, osc),), cnt)
    if e[0] == "UD":
        if files_before.get("o") is None:
            return before
        return (dyn, tuple(r for r in obs if r[0] != unhex(e[1])), cnt)
    if e[0] == "UT":
        name = unhex(e[1])
        if not name_ok(name):
            return None
        return (dyn, obs, tuple(x for x in cnt if x[0] != name) + ((name, int(e[2]) % (1 << 32)),))
    if e[0] == "UC":
        name = unhex(e[1])
        if files_before.get("c") is None:
            return before
        if not name_ok(name):
            return None
        return (dyn, obs, tuple(x for x in cnt if x[0] != name))
    if e[0] == "UR":
        name, pkt = unhex(e[1]), unhex(e[2])
        if len(pkt) == 0 or len(name) > PS_MAX or len(pkt) > PS_MAX:
            return None
        return (tuple(r for r in dyn if r[1] != name) + ((proto, name, pkt),), obs, cnt)
    if e[0] == "UX":
        name = unhex(e[1])
        if not name_ok(name) and files_before.get("c") is not None:
            return None
        c2 = cnt if files_before.get("c") is None else tuple(x for x in cnt if x[0] != name)
        d2 = dyn if files_before.get("d") is None else tuple(r for r in dyn if r[1] != name)
        return (d2, obs, c2)
    return None


def split_processes(evs):
    procs, cur = [], []
    for e in evs:
        if e[0] == "X":
            procs.append((cur, int(e[1])))
            cur = []
        elif e[0] == "W":
            cur = []
        else:
            cur.append(e)
    procs.append((cur, None))
    return procs


def completed(bounds, k):
    """number of events of a process that are complete after k stdio calls, and whether the
    next one has begun (None: still inside coap_persist_startup)"""
    if not bounds or bounds[0] > k:
        return None, False
    j = max(i for i in range(len(bounds)) if bounds[i] <= k)
    return j, k > bounds[j]


# ------------------------------------------------------------------ the oracle
def check(line, info):
    """-> list of (what, known_signature_kind | None)"""
    t = line.split()
    cfg, la, lt = t[4], int(t[6]), int(t[7])
    listen, proto = unhex(t[8]), unhex(t[9])
    evs = events_of(line)
    out = []
    if info["error"]:
        return [("driver/server failure: %s" % info["error"], None)]
    if not info["segs"] or info["segs"][-1] is None:
        return [("no output for the last process", None)]
    last = info["segs"][-1]
    server_level = all(e[0] in ("I", "N", "X") for e in evs)
    raw_level = all(e[0] in ("UA", "UD", "UT", "UC", "UR", "UX", "UO", "UP", "X") for e in evs)
    procs = split_processes(evs)
    dec = dict((sid, decode_state(files, la, lt)) for sid, files in info["st"].items())

    # ---- A. every kill point of the last process: whole records only, old state or new state
    if info["crash"]:
        n = last["n"]
        cuts = sorted(set([0] + [i + 1 for i, op in enumerate(last["trace"])
                                 if op.startswith("m") and op.endswith("=0")] + [n]))
        for k, sid in enumerate(info["crash"]):
            state, complete = dec[sid]
            if not all(complete):
                which = ["dyn", "obs", "cnt"][list(complete).index(False)]
                out.append(("kill after %d stdio calls leaves a %s file that does not decode into "
                            "whole records (torn)" % (k, which), None))
                break
            lo = max(b for b in cuts if b <= k)
            hi = min(b for b in cuts if b >= k)
            if state != dec[info["crash"][lo]][0] and state != dec[info["crash"][hi]][0]:
                out.append(("kill after %d stdio calls leaves persistent files that are neither the "
                            "state before the interrupted update (after call %d) nor the state after "
                            "it (after call %d)" % (k, lo, hi), None))
                break

    # ---- B. update correctness of direct updater calls (last process)
    if raw_level and info["crash"] and last["bounds"]:
        b = last["bounds"]
        for j, e in enumerate(procs[-1][0]):
            if j + 1 >= len(b):
                break
            f0 = info["st"][info["crash"][b[j]]]
            before = dec[info["crash"][b[j]]][0]
            after = dec[info["crash"][b[j + 1]]][0]
            exp = raw_spec(e, before, f0, proto, listen)
            if exp is not None and exp != after:
                out.append(("direct call %s (event %d): the file afterwards is not 'every other "
                            "entry kept, this entry replaced/appended/removed'" % (e[0], j), None))
                break

    # ---- C. restart restores   D. first Observe value after restart is greater
    if server_level:
        spec = Spec(cfg)              # promised state at the start of the current process
        carried = {}                  # name -> highest Observe value sent in earlier processes
        for pi, (pevs, kill) in enumerate(procs):
            seg = info["segs"][pi] if pi < len(info["segs"]) else None
            if seg is None:
                break
            b = seg["bounds"]
            is_last = pi == len(procs) - 1
            snaps = [spec.copy()]
            sends_of, resets = [], []
            for e in pevs:
                nm, rst = spec.apply(e)
                sends_of.append(nm)
                resets.append(rst)
                snaps.append(spec.copy())

            def maxsent_at(k):
                """highest value sent per resource up to a kill after k calls (epochs end when
                the resource is deleted / created again)"""
                ms = dict(carried)
                j, begun = completed(b, k)
                ndone = 0 if j is None else j
                by_ev = {}
                for s in seg["sends"]:
                    if s["stamp"] <= k:
                        by_ev.setdefault(s["ev"], []).append(s["value"])
                for i in range(len(pevs)):
                    if i < ndone and resets[i] is not None:
                        ms.pop(resets[i], None)
                    if i in by_ev and sends_of[i] is not None:
                        ms[sends_of[i]] = max([ms.get(sends_of[i], -1)] + by_ev[i])
                return ms

            if is_last:
                for k, sid in enumerate(info["crash"]):
                    rs = info["rs"].get(sid)
                    if rs is None:
                        out.append(("a fresh process on the files left by a kill after %d stdio "
                                    "calls did not come up" % k, None))
                        break
                    j, begun = completed(b, k)
                    if j is None:
                        lo = hi = snaps[0]
                    else:
                        lo = snaps[min(j, len(snaps) - 1)]
                        hi = snaps[min(j + 1, len(snaps) - 1)] if begun else lo
                    errs = check_restore(lo.restarted(), hi.restarted(), rs["res"], cfg,
                                         "kill after %d stdio calls" % k)
                    if errs:
                        out.extend(errs)
                        break
                    if cfg[2] == "c":
                        ms = maxsent_at(k)
                        notified = sorted((nm.hex() or "-") for nm, v in rs["res"].items() if v[2])
                        bad = None
                        for s in rs["sends"]:
                            if 0 <= s["ev"] < len(notified):
                                nm = unhex(notified[s["ev"]])
                                # also for a resource whose DELETE was interrupted: if it comes
                                # back with observers, its counter must not have gone back
                                if nm in ms and s["value"] <= ms[nm] < (1 << 24) - 16:
                                    bad = (nm, s["value"], ms[nm])
                                    break
                        if bad:
                            # a counter line longer than the readers' 1500-byte buffer cuts the
                            # file short: known finding K17b (only then)
                            long_name = any(len(n) > 1487 for sp in snaps for n in sp.dyn)
                            out.append(("kill after %d stdio calls: the first Observe value sent after "
                                        "restart for resource %r is %d, not greater than %d sent before"
                                        % ((k, bad[0][:40]) + bad[1:]),
                                        "cnt_long_name" if long_name else None))
                            break
                break
            # a process that was killed (or ended) in the middle of the history
            k = seg["n"]
            j, begun = completed(b, k)
            if j is None:
                lo = hi = snaps[0]
            else:
                lo = snaps[min(j, len(snaps) - 1)]
                hi = snaps[min(j + 1, len(snaps) - 1)] if begun else lo
            lo, hi = lo.restarted(), hi.restarted()
            nxt = info["segs"][pi + 1] if pi + 1 < len(info["segs"]) else None
            if nxt is None or nxt["dump"] is None:
                break
            errs = check_restore(lo, hi, nxt["dump"], cfg, "restart after process %d" % pi)
            if errs:
                out.extend(errs)
                break
            carried = maxsent_at(k)
            # continue from whichever promised state was restored; ambiguous -> stop here
            got = dump_key(nxt["dump"])
            want = [sp for sp in (hi, lo)
                    if (sp.key()[0] if cfg[0] == "d" else got[0]) == got[0]
                    and (frozenset(x for x in sp.key()[1] if x[0] in nxt["dump"])
                         if cfg[1] == "o" else got[1]) == got[1]]
            if not want or cfg[:2] != "do":
                break
            spec = want[0].copy()
            for nm in list(carried):
                if not spec.exists(nm):
                    carried.pop(nm)
    return out

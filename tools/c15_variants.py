#!/usr/bin/env python3
"""Development aid for C15 (not part of the registered check): builds scratch worktrees of
/repo in which exactly one (or all) of the five C15 repairs is reverted/absent, and

  (1) compares the real code with the *corresponding model variant* (rp_variant flags) on the
      corpus, the exhaustive small histories and seeded random cases - this is what ties the
      _refuted theorems about rp_orig / rp_no_* to real code;
  (2) runs the registered check against that tree and reports whether it fired.

usage: tools/c15_variants.py [<commit of /repo that has all eight repairs, default HEAD>]
       (each variant = that tree with some repairs taken out by tools/c15_patches.py --reverse)"""
import os
import random
import subprocess
import sys

ROOT = os.path.dirname(os.path.dirname(os.path.abspath(__file__)))
sys.path.insert(0, os.path.join(ROOT, "tools"))

# repair number -> position of its flag in the variant string
# (bitidx shguard nooverwrite rbflag arm resp_rb resp_nowrite abort_rb)
FLAGPOS = {1: 0, 2: 1, 3: 3, 4: 2, 5: 4, 6: 5, 7: 6, 8: 7}


def main():
    base = "HEAD"
    which = [None, 1, 2, 3, 4, 5, 6, 7, 8, "all"]
    if len(sys.argv) > 1:          # e.g.  tools/c15_variants.py 6 7 all
        which = [(int(x) if x.isdigit() else (None if x == "none" else x)) for x in sys.argv[1:]]
    patches = os.path.join(ROOT, "tools", "c15_patches.py")
    results = []
    for missing in which:
        wt = "/var/tmp/verif.wt.C15v"
        subprocess.run(["git", "-C", "/repo", "worktree", "remove", "--force", wt], capture_output=True)
        subprocess.run(["git", "-C", "/repo", "worktree", "add", "--detach", wt, base], check=True, capture_output=True)
        flags = ["y"] * 8
        for n in (8, 7, 6, 5, 4, 3, 2, 1):
            # repair 8 moved the roll back of repair 6 to the common exit: 6 can only be taken
            # out together with 8
            if missing == "all" or n == missing or (missing == 6 and n == 8):
                subprocess.run([sys.executable, patches, str(n), wt, "--reverse"], check=True, capture_output=True)
                flags[FLAGPOS[n]] = "n"
        var = "".join(flags)
        env = dict(os.environ, VERIF_REPO=wt)
        code = r'''
import sys, random
sys.path.insert(0, "%s/tools")
import vlib, gen_replay as G
var = "%s"
model = vlib.build_model()
drv = vlib.build_driver("h_replay", ["h_replay.c"], wraps=["coap_socket_send", "coap_malloc_type"])
r = random.Random(7)
lines = list(vlib.read_corpus("C15"))
lines += list(G.rpu_exhaustive("32", G.UNIT_ALPHABET, 3))
lines += list(G.rpd_exhaustive("32", 0, G.REQ_ALPHABET, 3)) + list(G.rpd_exhaustive("2", 1, G.REQ_ALPHABET, 3))
lines += [G.rpu_random(r) for _ in range(3000)] + [G.rpd_random(r) for _ in range(3000)]
lines += list(G.rpx_exhaustive("32", 0, G.RPX_ALPHABET, 3)) + list(G.rpx_exhaustive("32", 1, G.RPX_ALPHABET, 3))
lines += [G.rpx_random(r) for _ in range(3000)]
lines = [l.replace(" fixed ", " " + var + " ", 1) for l in lines if not l.startswith("sst") and not l.startswith("rpe")]
om, _ = vlib.run_lines_robust(model, lines)
oc, _ = vlib.run_lines_robust(drv, lines)
# allocation-failure tokens (A<seq>.<k>): where the processing stops depends on k, the model has
# one class for it - comparable only when every exit behaves alike (all repairs present)
if "n" in var:
    keep = [i for i, l in enumerate(lines) if not any(t.lstrip("2").startswith("A") for t in l.split()[4:])]
    lines = [lines[i] for i in keep]; om = [om[i] for i in keep]; oc = [oc[i] for i in keep]
bad = [(l, m, c) for l, m, c in zip(lines, om, oc) if m != G.strip_hashes(c) and "NOGEN" not in c]
print("DIFF", var, len(lines), len(bad))
for l, m, c in bad[:4]:
    print("  case", l); print("  model", m); print("  impl ", c)
''' % (ROOT, var)
        p = subprocess.run([sys.executable, "-c", code], env=env, capture_output=True, text=True, cwd=ROOT)
        diff = [l for l in p.stdout.splitlines() if l.startswith("DIFF") or l.startswith("  ")]
        p2 = subprocess.run([sys.executable, os.path.join(ROOT, "tools", "check.py"), "C15"], env=env,
                            capture_output=True, text=True, cwd=ROOT)
        nviol = p2.stdout.count("VIOLATION")
        concrete = sum(1 for l in p2.stdout.splitlines() if l.startswith("VIOLATION") and "no-failing" not in l)
        print("missing repair %s variant %s: %s | check rc=%d VIOLATION lines=%d concrete=%d" %
              (missing, var, "; ".join(diff) or p.stderr[-300:], p2.returncode, nviol, concrete))
        for l in p2.stderr.splitlines():
            if l.startswith("violation detail"):
                print("     " + l[:230])
        sys.stdout.flush()
        subprocess.run(["git", "-C", "/repo", "worktree", "remove", "--force", wt], capture_output=True)


if __name__ == "__main__":
    main()

"""Generators for the wire family (C01, C03, C04): op lists and byte strings aimed at the
case-split boundaries of the proofs (12/13, 268/269, 65804/65805, per-option limits)."""

KNOWN = [1, 3, 4, 5, 6, 7, 8, 9, 11, 12, 14, 15, 16, 17, 19, 20, 23, 27, 28, 31, 35, 39, 60, 252,
         258, 292]
LIMITS = {1: (0, 8), 3: (1, 255), 4: (1, 8), 5: (0, 0), 6: (0, 3), 7: (0, 2), 8: (0, 255),
          9: (0, 255), 11: (0, 255), 12: (0, 2), 14: (0, 4), 15: (0, 255), 16: (1, 1), 17: (0, 2),
          19: (0, 3), 20: (0, 255), 23: (0, 3), 27: (0, 3), 28: (0, 4), 31: (0, 3), 35: (1, 1034),
          39: (1, 255), 60: (0, 4), 252: (1, 40), 258: (0, 1), 292: (0, 8)}
BND_NUM = [0, 1, 2, 12, 13, 14, 24, 25, 26, 268, 269, 270, 281, 282, 537, 538, 539, 2048, 65000,
           65534, 65535]
BND_LEN = [0, 1, 2, 3, 4, 5, 8, 9, 12, 13, 14, 40, 41, 255, 256, 268, 269, 270, 1034, 1035]
BIG_LEN = [65535, 65536, 65803, 65804]
TOK_LEN = [0, 0, 1, 2, 4, 7, 8, 8, 9, 12, 13, 14, 30, 268, 269, 270]


def hexs(bs):
    return bytes(bs).hex() if bs else "-"


def btok(r, n):
    """a bytes token of length n: explicit hex when short, filler otherwise"""
    if n == 0:
        return "-"
    if n <= 24:
        return bytes(r.randrange(256) for _ in range(n)).hex()
    return "@%d,%d" % (n, r.randrange(1000))


def tok_len(s):
    if s == "-":
        return 0
    if s[0] == "@":
        return int(s[1:].split(",")[0])
    return len(s) // 2


def pick_num(r, prev_nums):
    x = r.random()
    if prev_nums and x < 0.25:
        # aim at a delta boundary relative to an existing number
        base = r.choice(prev_nums)
        d = r.choice([0, 1, 12, 13, 14, 268, 269, 270, -1, -12, -13, -14, -268, -269, -270])
        n = base + d
        if 0 <= n <= 65535:
            return n
    if x < 0.65:
        return r.choice(KNOWN)
    if x < 0.9:
        return r.choice(BND_NUM)
    return r.randrange(65536)


def pick_len(r, num, big_ok, signalling=False):
    if num in LIMITS and not signalling and r.random() < 0.85:
        lo, hi = LIMITS[num]
        return r.choice([lo, hi, min(hi, lo + 1), max(lo, hi - 1), r.randint(lo, hi),
                         min(hi, 12), min(hi, 13), min(hi, 268), min(hi, 269)])
    if num in LIMITS and not signalling:
        lo, hi = LIMITS[num]     # just outside the limit: the parser must reject
        return r.choice([hi + 1, max(0, lo - 1), hi + 1])
    if big_ok and r.random() < 0.04:
        return r.choice(BIG_LEN)
    if r.random() < 0.8:
        return r.choice(BND_LEN)
    return r.randint(0, 600)


def gen_build_case(r, allow_big=True):
    """-> (header tokens, ops as token lists)"""
    proto = r.choice(["udp", "udp", "tcp", "tcp", "ws"])
    ty = r.randrange(4)
    x = r.random()
    if x < 0.55:
        code = r.choice([1, 2, 3, 4, 5, 7])
    elif x < 0.8:
        code = r.choice([65, 68, 69, 95, 128, 132, 160, 165])
    elif x < 0.9:
        code = r.choice([225, 226, 227, 228, 229, 224, 230])
    elif x < 0.95:
        code = 0
    else:
        code = r.randrange(256)
    mid = r.choice([0, 1, 255, 256, 65535, r.randrange(65536)])
    ops = []
    sig = code >= 224
    nums = []
    if code == 0 and r.random() < 0.7:
        nopt = 0
        tl = 0
        pl = 0
    else:
        nopt = r.choice([0, 1, 2, 2, 3, 4, 5, 6, 8, 12])
        tl = r.choice(TOK_LEN) if r.random() < 0.97 or not allow_big else r.choice([65804, 65805, 4000])
        pl = r.choice([0, 0, 1, 2, 11, 12, 13, 64, 255, 256, 268, 269, 1024]) \
            if r.random() < 0.97 or not allow_big else r.choice([65536, 65805, 70000])
    tok_op = ["T", btok(r, tl)]
    opt_ops = []
    for _ in range(nopt):
        n = pick_num(r, nums)
        nums.append(n)
        ln = pick_len(r, n, allow_big, sig)
        opt_ops.append(["O", str(n), btok(r, ln)])
    y = r.random()
    if y < 0.35:
        opt_ops.sort(key=lambda o: int(o[1]))        # the usual ascending order
    elif y < 0.45:
        opt_ops.sort(key=lambda o: -int(o[1]))
    else:
        r.shuffle(opt_ops)
    data_op = ["D", btok(r, pl)]
    z = r.random()
    if z < 0.85:
        ops = ([tok_op] if (tl or r.random() < 0.5) else []) + opt_ops + ([data_op] if pl or r.random() < 0.3 else [])
    else:
        ops = [tok_op] + opt_ops + [data_op] + [r.choice([tok_op, data_op] + (opt_ops or [data_op]))]
        r.shuffle(ops)
    # max_size: 0 = unlimited, otherwise tight around the size needed
    need = sum(tok_len(o[-1]) + 5 for o in ops)
    w = r.random()
    if w < 0.55:
        mx = 0
    elif w < 0.9:
        mx = max(1, need + r.choice([-40, -12, -6, -5, -4, -3, -2, -1, 0, 1, 2, 3, 8]) - r.randrange(0, max(1, need // 2 + 1)) * (r.random() < 0.4))
    else:
        mx = r.choice([1, 2, 4, 8, 16, 64, 256, 257, 1024])
    hdr = ["c01", proto, str(ty), str(code), str(mid), str(int(mx))]
    return hdr, ops


def line_of(hdr, ops):
    return " ".join(hdr + [t for o in ops for t in o])



FRAME_BND = [0, 1, 11, 12, 13, 14, 267, 268, 269, 270, 65803, 65804, 65805, 65806, 65807]


def gen_framelen_case(r, target=None, proto=None):
    """a build case whose options+marker+payload length is exactly a boundary of the RFC 8323
    Len forms (0..12 | 13..268 | 269..65804 | 65805..): the four length-header forms of TCP/TLS"""
    target = r.choice(FRAME_BND) if target is None else target
    proto = proto or r.choice(["tcp", "tcp", "tcp", "ws", "udp"])
    tl = r.choice([0, 1, 8, 12, 13, 268, 269])
    opts = []
    body = 0
    prev = 0
    for n in sorted(r.sample([3, 8, 11, 15, 20, 2048, 65000], r.choice([0, 1, 2, 3]))):
        ln = r.choice([0, 1, 12, 13])
        sz = len(py_opt(n - prev, bytes(ln)))
        if body + sz > target:
            break
        opts.append(["O", str(n), btok(r, ln)])
        body += sz
        prev = n
    rest = target - body
    ops = [["T", btok(r, tl)]] + opts
    if rest >= 2:
        ops.append(["D", btok(r, rest - 1)])
    elif rest == 1 and not opts:
        ops.append(["O", "0", "-"])
    code = r.choice([1, 2, 69, 68])
    hdr = ["c01", proto, str(r.randrange(4)), str(code), str(r.randrange(65536)), "0"]
    return hdr, ops


def gen_bins_case(r):
    """coap_insert_option on a parsed datagram: (old delta, new delta) of the following option
    aimed at all six classes of the header patch, value lengths of both options on the
    extension boundaries, payload present or not"""
    prev = r.choice([0, 0, 1, 11, 300, 2000])
    d_old = r.choice([1, 2, 12, 13, 14, 20, 268, 269, 270, 300, 1000, 40000])
    nxt = prev + d_old
    if nxt > 65535:
        nxt = 65535
        d_old = nxt - prev
    d_new = r.choice([1, 2, 12, 13, 14, 268, 269, 270, d_old, max(1, d_old - 1), r.randint(1, d_old)])
    d_new = max(1, min(d_new, d_old))
    n = nxt - d_new
    opts = []
    if prev and r.random() < 0.8:
        opts.append((prev, rbytes(r, r.choice([0, 1, 13]))))
        if r.random() < 0.3:
            opts.append((prev, rbytes(r, 2)))
    elif prev:
        d_old = nxt
        n = max(0, nxt - d_new)
    opts.append((nxt, rbytes(r, r.choice([0, 1, 12, 13, 14, 268, 269, 270]))))
    if r.random() < 0.5:
        opts.append((nxt + r.choice([0, 1, 13, 269]), rbytes(r, r.choice([0, 3]))))
    opts = [(k, v) for k, v in opts if k <= 65535]
    payload = rbytes(r, r.choice([0, 0, 1, 5, 300]))
    tok = rbytes(r, r.choice([0, 1, 8, 13, 269]))
    msg = py_serialize("udp", r.randrange(4), r.choice([1, 2, 69]), r.randrange(65536), tok, opts, payload)
    vl = r.choice([0, 1, 12, 13, 14, 268, 269, 270])
    if r.random() < 0.1:
        n = r.choice([nxt, nxt + 1, 65535])      # not below max_opt: the append path
    return "bins %s %d %s" % (msg.hex(), n, btok(r, vl))

# ---------------------------------------------------------------- byte strings for C03 / C02

def py_ext(x):
    if x < 13:
        return x, b""
    if x < 269:
        return 13, bytes([x - 13])
    return 14, bytes([((x - 269) >> 8) & 0xff, (x - 269) & 0xff])


def py_opt(delta, val):
    dn, de = py_ext(delta)
    ln, le = py_ext(len(val))
    return bytes([dn * 16 + ln]) + de + le + val


def py_serialize(proto, ty, code, mid, token, opts, payload):
    """input generator only (valid encodings to mutate); never used as an oracle"""
    body = b""
    prev = 0
    for n, v in sorted(opts, key=lambda o: o[0]):
        body += py_opt(n - prev, v)
        prev = n
    if payload:
        body += b"\xff" + payload
    tl = len(token)
    if tl < 13:
        tkl, tarea = tl, token
    elif tl < 269:
        tkl, tarea = 13, bytes([tl - 13]) + token
    else:
        tkl, tarea = 14, bytes([((tl - 269) >> 8) & 0xff, (tl - 269) & 0xff]) + token
    if proto == "udp":
        hdr = bytes([64 + 16 * ty + tkl, code, mid >> 8, mid & 0xff])
    elif proto == "ws":
        hdr = bytes([tkl, code])
    else:
        l = len(body)
        if l <= 12:
            hdr = bytes([16 * l + tkl, code])
        elif l <= 268:
            hdr = bytes([208 + tkl, l - 13, code])
        elif l <= 65804:
            hdr = bytes([224 + tkl, (l - 269) >> 8, (l - 269) & 0xff, code])
        else:
            x = l - 65805
            hdr = bytes([240 + tkl, (x >> 24) & 0xff, (x >> 16) & 0xff, (x >> 8) & 0xff, x & 0xff, code])
    return hdr + tarea + body


def rbytes(r, n):
    return bytes(r.randrange(256) for _ in range(n))


def gen_valid_msg(r, small=True):
    """-> (proto, bytes, field boundaries) a valid encoding"""
    proto = r.choice(["udp", "udp", "tcp", "ws"])
    x = r.random()
    code = r.choice([1, 2, 3, 4]) if x < 0.5 else r.choice([69, 68, 132, 160]) if x < 0.8 else \
        r.choice([225, 226, 228, 229]) if x < 0.9 else r.randrange(1, 256)
    tl = r.choice([0, 1, 2, 4, 8, 12, 13, 14, 20] if small else TOK_LEN)
    nopt = r.choice([0, 1, 2, 3, 4, 6])
    opts = []
    nums = []
    for _ in range(nopt):
        n = pick_num(r, nums)
        nums.append(n)
        ln = pick_len(r, n, False, code >= 224)
        if small:
            ln = min(ln, r.choice([0, 1, 3, 12, 13, 14, 20]))
            if n in LIMITS:
                ln = max(ln, LIMITS[n][0])
        opts.append((n, rbytes(r, ln)))
    pl = r.choice([0, 0, 1, 2, 5, 13])
    return proto, py_serialize(proto, r.randrange(4), code, r.randrange(65536), rbytes(r, tl),
                               opts, rbytes(r, pl))


def mutate(r, b):
    """one mutation aimed at a field: nibble, extension byte, TKL, length prefix, truncation,
    marker insertion/removal"""
    b = bytearray(b)
    if not b:
        return bytes([r.randrange(256)])
    k = r.randrange(9)
    i = r.randrange(len(b))
    if k == 0:                       # high nibble to every value
        b[i] = (r.randrange(16) << 4) | (b[i] & 0x0f)
    elif k == 1:                     # low nibble
        b[i] = (b[i] & 0xf0) | r.randrange(16)
    elif k == 2:                     # extension-like byte values
        b[i] = r.choice([0x00, 0x01, 0xfd, 0xfe, 0xff, 0xd0, 0xe0, 0xdd, 0xee, 0x0d, 0x0e])
    elif k == 3:                     # truncation
        del b[r.randrange(len(b)):]
    elif k == 4:                     # marker insertion
        b.insert(i, 0xff)
    elif k == 5:                     # marker / byte removal
        j = b.find(b"\xff")
        del b[j if j >= 0 and r.random() < 0.7 else i]
    elif k == 6:                     # first byte (version / type / TKL / Len)
        b[0] = r.randrange(256)
    elif k == 7:                     # append
        b += rbytes(r, r.choice([1, 1, 2, 3, 13]))
    else:                            # flip a bit
        b[i] ^= 1 << r.randrange(8)
    return bytes(b)

"""Case generators for C06 (retransmission schedule, one outcome).  Case format: harness/h_sched.c.

A case is a dict {"cfgs": [(at_ip, at_fp, arf_ip, arf_fp, max_rtx, nstart)], "ev": [[tok, ...], ...],
"kind": str}; line_of() gives the text that both drivers read.  Nothing here is trusted: the
Python copy of the timeout formula only aims the cases (where the ACK is placed)."""

DEFAULT = (2, 0, 1, 500, 4, 1)
R_BOUNDS = [0, 1, 2, 127, 128, 129, 254, 255]
AT_POOL = [(2, 0), (1, 0), (1, 1), (1, 999), (2, 500), (3, 125), (2, 7), (5, 333), (10, 0),
           (60, 875), (1, 8), (1, 7), (255, 999), (1022, 999), (7, 812), (7, 813)]
ARF_POOL = [(1, 500), (1, 0), (1, 1), (1, 999), (2, 0), (3, 0), (3, 1), (2, 999), (5, 250),
            (1, 250), (1, 8), (16, 0), (100, 500)]
MAX_POOL = [4, 1, 2, 3, 5, 6, 8]


def q6(ip, fp):
    return (64 * ip + (64 * fp + 500) // 1000) & 0xffffffff


def calc_timeout(at_ip, at_fp, arf_ip, arf_fp, r):
    A, F = q6(at_ip, at_fp), q6(arf_ip, arf_fp)
    r1 = (((F - 64) & 0xffffffff) * r + 128) >> 8
    r2 = ((r1 + 64) * A + 32) >> 6
    return min((1000 * r2 + 32) >> 6, 0xffffffff)


def line_of(case):
    toks = ["c06", str(len(case["cfgs"]))]
    for c in case["cfgs"]:
        toks += [str(x) for x in c]
    for e in case["ev"]:
        toks += [str(x) for x in e]
    return " ".join(toks)


def hexb(bs):
    return "".join("%02x" % b for b in bs) if bs else "-"


def rand_cfg(r, nstart=1, small=True, refused=False):
    at = r.choice(AT_POOL[:12] if small else AT_POOL)
    arf = r.choice(ARF_POOL[:10] if small else ARF_POOL)
    mx = r.choice(MAX_POOL)
    x = r.random()
    if x < 0.30:
        at, arf = (2, 0), (1, 500)
    elif x < 0.40 and refused:
        # values the setters refuse: whatever the library then reports (its defaults) is in force;
        # only used where the case does not depend on knowing MAX_RETRANSMIT (one message)
        at = r.choice([(0, 0), (0, 500), (3, 1000), (2, 65535), at])
        arf = r.choice([(0, 999), (1, 1000), (0, 0), arf])
        mx = r.choice([0, 0, mx])
    return (at[0], at[1], arf[0], arf[1], mx, nstart)


def rand_msg(r, sess, mid=None, request=None):
    """-> ['S', sess, mid, code, tok, payload, rbyte]"""
    if mid is None:
        mid = r.choice([0, 1, 255, 256, 65535, r.randrange(65536), r.randrange(65536)])
    if request is None:
        request = r.random() < 0.6
    code = r.choice([1, 2, 3, 4]) if request else r.choice([65, 69, 68, 132, 160])
    tl = r.choice([0, 1, 2, 4, 8, r.randrange(9)])
    tok = hexb([r.randrange(256) for _ in range(tl)])
    pl = r.choice([0, 0, 1, 3, 16, 60])
    pay = hexb([r.randrange(256) for _ in range(pl)]) if pl <= 16 else "@%d,%d" % (pl, r.randrange(100))
    rb = r.choice(R_BOUNDS) if r.random() < 0.5 else r.randrange(256)
    return ["S", sess, mid, code, tok, pay, rb]


def eff_max(cfg):
    return cfg[4] if cfg[4] > 0 else 4


def drain(n, k=0):
    ev = []
    for _ in range(n):
        ev += [["T"], ["W", k]]
    return ev


def ack_event(r, msg, kind=None):
    """an answer of the peer to msg: piggybacked ACK for requests, empty ACK for responses,
    sometimes RST"""
    _, sess, mid, code, tok, _, _ = msg
    if kind is None:
        kind = "R" if r.random() < 0.25 else "A"
    if kind == "R":
        return ["R", sess, mid]
    if 1 <= code <= 31:
        return ["P", sess, mid, tok]
    return ["K", sess, mid]


# ---------------------------------------------------------------- single message, schedule
def gen_schedule_case(r, cfg=None, late=None):
    """one message, nobody answers; punctual / late / early driver until long after the NACK"""
    cfg = cfg or rand_cfg(r, small=r.random() < 0.8, refused=True)
    msg = rand_msg(r, 0)
    ev = [msg]
    n = eff_max(cfg) + 3
    if late is None:
        late = r.choice(["punctual", "punctual", "late", "early", "mixed"])
    for i in range(n):
        if late == "punctual":
            k = 0
        elif late == "late":
            k = r.choice([1, 2, 7, 999, 5000])
        elif late == "early":
            k = -r.choice([1, 2, 50])
        else:
            k = r.choice([0, 0, 1, -1, 13, -400, 100000])
        ev += [["T"], ["W", k]]
        if late in ("early", "mixed") and r.random() < 0.5:
            ev += [["T"], ["W", 0]]
    ev += [["T"], ["Q"]]
    return {"cfgs": [cfg], "ev": ev, "kind": "schedule-" + late}


# ---------------------------------------------------------------- exhaustive drop subsets
def gen_drop_case(cfg, rbyte, drops, delay, kind, dup=False):
    """One CON exchange where the network drops the datagrams whose index is in `drops`
    (datagram 2j = transmission j, 2j+1 = the peer's answer to it).  The answer that gets
    through (if any) is the one to the first transmission j with 2j and 2j+1 both kept; it
    arrives `delay` ticks after that transmission.  dup: the answer is delivered twice."""
    msg = ["S", 0, 4660, 1 if kind != "K" else 69, "a1b2", "-", rbyte]
    mx = eff_max(cfg)
    ev = [msg]
    j_ok = None
    for j in range(mx + 1):
        if (2 * j) not in drops and (2 * j + 1) not in drops:
            j_ok = j
            break
    ans = {"K": ["K", 0, 4660], "P": ["P", 0, 4660, "a1b2"], "R": ["R", 0, 4660]}[kind]
    if j_ok is not None:
        for _ in range(j_ok):
            ev += [["T"], ["W", 0]]
        ev += [["T"], ["A", delay], ans]
        if dup:
            ev += [["A", 1], ans]
    ev += drain(mx + 3)
    ev += [["T"], ["Q"]]
    return {"cfgs": [cfg], "ev": ev, "kind": "drops"}


def all_drop_cases(tier):
    cfgs = [DEFAULT, (1, 0, 1, 0, 3, 1), (2, 500, 2, 0, 4, 1)]
    out = []
    for ci, cfg in enumerate(cfgs):
        for mask in range(1024):
            drops = {i for i in range(10) if mask >> i & 1}
            kind = "PKR"[(mask + ci) % 3]
            delay = [0, 1, 150, 1999, 2000, 2001, 40000][(mask // 3 + ci) % 7]
            out.append(gen_drop_case(cfg, [0, 255, 128][ci], drops, delay, kind, dup=(mask % 5 == 0)))
    return out


def no_empty_ack_for_request(ev, sent):
    """an empty ACK to a request makes the library start its own receive timer (it then expects a
    separate response), which enters the reported wait and is outside the model: such ACKs are
    only generated by gen_separate_case; here they become RSTs"""
    for e in ev[-2:]:
        if e[0] == "K" and any(m[1] == e[1] and m[2] == e[2] and 1 <= m[3] <= 31 for m in sent):
            e[0] = "R"


# ---------------------------------------------------------------- several messages and sessions
def gen_multi_case(r, big=False, with_disconnect=None):
    if with_disconnect is None:
        with_disconnect = r.random() < 0.5
    ns = r.choice([1, 1, 2, 3]) if not big else r.choice([2, 3, 4, 6])
    cfgs = [rand_cfg(r, nstart=1000) for _ in range(ns)]
    ev = []
    sent = []          # messages submitted so far
    next_mid = [r.choice([0, 100, 65530, r.randrange(65536)]) for _ in range(ns)]
    nmsg = r.randrange(1, 6 if not big else 14)
    steps = r.randrange(6, 30 if not big else 70)
    for _ in range(steps):
        x = r.random()
        if x < 0.22 and len(sent) < nmsg:
            s = r.randrange(ns)
            if r.random() < 0.15 and sent:
                mid = r.choice(sent)[2]            # same mid on (maybe) another session
            else:
                mid = next_mid[s]
                next_mid[s] = (next_mid[s] + 1) % 65536
            m = rand_msg(r, s, mid)
            sent.append(m)
            ev.append(m)
        elif x < 0.45:
            ev += [["T"], ["W", r.choice([0, 0, 0, 1, -1, 30])]]
        elif x < 0.50:
            ev.append(["T"])
        elif x < 0.55:
            # the library's own loop: prepare, sleep (epoll_wait), prepare
            ev.append(["I", r.choice([0, 0, 0, 1, 100, 1999, 2000, 2001, 5000, 100000, 4294967295])])
        elif x < 0.72:
            ev.append(["A", r.choice([0, 1, 10, 500, 1000, 1999, 2000, 2001, 3000, 7000, 60000])])
        elif x < 0.90 and sent:
            m = r.choice(sent)
            y = r.random()
            if y < 0.70:
                ev.append(ack_event(r, m))
            elif y < 0.80:                          # right mid, wrong session
                e = ack_event(r, m)
                e[1] = (e[1] + 1) % max(ns, 2) if ns > 1 else e[1]
                ev.append(e)
            else:                                   # wrong mid
                e = ack_event(r, m)
                e[2] = (e[2] + r.choice([1, 256, 65535])) % 65536
                ev.append(e)
            if r.random() < 0.2:
                ev.append(list(ev[-1]))             # duplicate
        elif x < 0.93:
            ev.append(["Q"])
        elif x < 0.945 and ns > 1 and sent and with_disconnect:
            # the application (or a socket error) disconnects one session while others are pending
            ev.append(["D", r.choice(sent)[1] if r.random() < 0.8 else r.randrange(ns), r.choice([1, 1, 3, 5, 6])])
        elif x < 0.96 and sent:
            # a NON response from the peer: token of some message (implicit acknowledgement) or a
            # foreign token; its mid is from the peer's id space and sometimes collides with ours
            m = r.choice(sent)
            tok = m[4] if r.random() < 0.6 else r.choice(["-", "0badc0de", m[4][:-2] or "-"])
            mid = r.choice(sent)[2] if r.random() < 0.6 else r.randrange(65536)
            ev.append(["N", m[1] if r.random() < 0.85 else r.randrange(ns), mid, r.choice([69, 68, 132]), tok])
        else:
            ev.append(["R" if r.random() < 0.5 else "K", r.randrange(ns), r.randrange(65536)])
        no_empty_ack_for_request(ev, sent)
    mx = max(eff_max(c) for c in cfgs)
    ev += drain(r.choice([1, 2, mx + 3, (mx + 2) * max(1, len(sent))]))
    ev += [["T"], ["Q"]]
    return {"cfgs": cfgs, "ev": ev, "kind": "multi-big" if big else "multi"}


# ---------------------------------------------------------------- default NSTART, one CON at a time
def gen_nstart1_case(r):
    """sessions keep the default NSTART = 1; the next CON of a session is submitted only after
    the previous one ended (answer injected, or drained past the give-up)"""
    ns = r.choice([1, 2, 3])
    cfgs = [rand_cfg(r, nstart=1) for _ in range(ns)]
    mx = max(eff_max(c) for c in cfgs)
    ev = []
    busy = [None] * ns
    mid = [r.randrange(65536) for _ in range(ns)]
    for _ in range(r.randrange(2, 9)):
        s = r.randrange(ns)
        if busy[s] is not None:
            if r.random() < 0.6:
                ev += drain(r.randrange(0, 3))
                ev.append(["A", r.choice([0, 1, 700])])
                ev.append(ack_event(r, busy[s]))
                busy[s] = None
            else:
                ev += drain((mx + 2) * ns)      # every pending message of the context has ended
                busy = [None] * ns
        m = rand_msg(r, s, mid[s])
        mid[s] = (mid[s] + 1) % 65536
        busy[s] = m
        ev.append(m)
        ev += drain(r.randrange(0, 3), r.choice([0, 0, 3]))
    ev += drain((mx + 2) * ns + 1)
    ev += [["T"], ["Q"]]
    return {"cfgs": cfgs, "ev": ev, "kind": "nstart1"}


# ---------------------------------------------------------------- waiting for an NSTART slot
def gen_held_case(r):
    """more Confirmables than NSTART slots: the surplus waits in the session's delay queue - its
    timeout is drawn there (coap_session_delay_pdu) - and goes out when an ACK, an RST, a give-up or
    a cancel frees a slot; from then on it must behave like any other message.  (Which message
    gets the slot, and when, is C08's property.)"""
    ns = r.choice([1, 1, 2])
    cfgs = []
    for _ in range(ns):
        c = list(rand_cfg(r, nstart=r.choice([1, 1, 1, 2, 3])))
        c[4] = r.choice([1, 2, 2, 3, 4])
        cfgs.append(tuple(c))
    ev = []
    sent = []
    mid = [r.randrange(60000) for _ in range(ns)]
    toks = set()
    n_msgs = r.randrange(2, 7)
    for i in range(n_msgs):
        s = r.randrange(ns)
        m = rand_msg(r, s, mid[s])
        while m[4] in toks:                 # distinct tokens (see rt_non in Retransmit.v)
            m = rand_msg(r, s, mid[s])
        toks.add(m[4])
        mid[s] += 1
        sent.append(m)
        ev.append(m)
        if r.random() < 0.15:
            for _ in range(r.choice([1, 2])):   # the same mid again while it waits / is pending
                d = list(m)
                d[4] = "%08x" % r.randrange(1 << 32)
                while d[4] in toks:
                    d[4] = "%08x" % r.randrange(1 << 32)
                toks.add(d[4])
                sent.append(d)
                ev.append(d)
        x = r.random()
        if x < 0.25:
            ev.append(["A", r.choice([0, 1, 300, 1500])])
        elif x < 0.4:
            ev += [["T"], ["W", 0]]
        elif x < 0.5:
            ev.append(["Q"])
    for _ in range(r.randrange(0, 8)):
        x = r.random()
        m = r.choice(sent)
        if x < 0.35:
            ev.append(ack_event(r, m))
            no_empty_ack_for_request(ev, sent)
        elif x < 0.6:
            ev += [["T"], ["W", r.choice([0, 0, 7])]]
        elif x < 0.7:
            ev.append(["I", r.choice([0, 0, 1000])])
        elif x < 0.8:
            ev.append(["N", m[1], r.randrange(65536), 69, m[4]])
        elif x < 0.86:
            ev.append(["D", m[1], r.choice([1, 3])])
        elif x < 0.93:
            ev.append(["Q"])
        else:
            ev.append(["A", r.choice([1, 500, 2000, 9000])])
    mx = max(eff_max(c) for c in cfgs)
    ev += drain((mx + 2) * len(sent) + 2)
    ev += [["T"], ["Q"]]
    return {"cfgs": cfgs, "ev": ev, "kind": "held"}


# ---------------------------------------------------------------- server side: Observe notifications
def gen_observe_case(r):
    """one session is a SERVER session with a registered observer; Confirmable notifications are
    generated and sent INSIDE coap_io_prepare_epoll (event O): the wait that very call reports must
    cover the notification's deadline; afterwards it is a Confirmable like any other.  One
    notification at a time (they all carry the observer's token)."""
    ns = r.choice([1, 2, 2, 3])
    cfgs = [rand_cfg(r, nstart=r.choice([1, 1000])) for _ in range(ns)]
    so = r.randrange(ns)
    c = list(cfgs[so]); c[4] = r.choice([1, 2, 3, 4]); cfgs[so] = tuple(c)
    mx = max(eff_max(c) for c in cfgs)
    ev = [["G", so, hexb([r.randrange(256) for _ in range(r.choice([1, 2, 4, 8]))])]]
    sent = []
    mid = 100
    for _ in range(r.randrange(1, 5)):
        if ns > 1 and r.random() < 0.5:
            s = r.choice([x for x in range(ns) if x != so])
            m = rand_msg(r, s, mid)
            mid += 1
            sent.append(m)
            ev.append(m)
            ev.append(["A", r.choice([0, 1, 300, 1200])])
        ev.append(["O", so, r.choice(R_BOUNDS + [r.randrange(256)])])
        x = r.random()
        if x < 0.35:                      # the peer acknowledges (after some retransmissions)
            ev += drain(r.randrange(0, 3))
            ev += [["A", r.choice([0, 1, 500])], ["K", so, "L"]]
        elif x < 0.5:
            ev += drain(r.randrange(0, 2))
            ev += [["A", r.choice([0, 700])], ["R", so, "L"]]
        elif x < 0.7:                     # the library's own loop sleeps as long as it reported
            ev += [["I", 0]] * ((mx + 2) * (len(sent) + 1))
        else:                             # lost: punctual driver until it is given up
            ev += drain((mx + 2) * (len(sent) + 1), r.choice([0, 0, 5]))
        if r.random() < 0.3:
            ev.append(["Q"])
    ev += drain((mx + 2) * (len(sent) + 1))
    ev += [["T"], ["Q"]]
    return {"cfgs": cfgs, "ev": ev, "kind": "observe"}


def gen_timers_case(r, opts=None):
    """contexts whose prepare call has OTHER timers to report besides the send queue: block mode with a
    stalled Block1 upload (state of the large transmit, and of every request's large receive, expires),
    keep-alive (Confirmable pings sent from inside the prepare call), an idle server session.  A driver
    that sleeps exactly as long as the library said enters the loop on every one of those deadlines,
    while Confirmables are pending: the reported wait must never pass the earliest retransmission."""
    ns = r.choice([2, 2, 3])
    if opts is None:
        opts = r.choice(["B", "B", "B", "E", "M", "BE", "BM", "EM", "BEM"])
    cfgs = []
    for k in range(ns):
        if k == 0:      # the uploader: MAX_TRANSMIT_WAIT of a few seconds
            at = r.choice([(1, 0), (1, 0), (1, 500), (2, 0)])
            arf = r.choice([(1, 0), (1, 0), (1, 500), (2, 0)])
            cfgs.append((at[0], at[1], arf[0], arf[1], r.choice([1, 2, 2, 3]), r.choice([1, 2, 3])))
        else:           # the others keep Confirmables pending for a long time
            at = r.choice([(1, 0), (2, 0), (2, 0), (3, 125), (2, 500)])
            arf = r.choice([(1, 0), (1, 500), (1, 0), (2, 0)])
            cfgs.append((at[0], at[1], arf[0], arf[1], r.choice([3, 4, 4, 5]), r.choice([1, 2, 3])))
    ev = []
    if "B" in opts:
        ev.append(["B", 1])
    if "E" in opts:
        # with keep-alive on, coap_retransmit clamps every back-off delay to the keep-alive period (an upstream
        # feature outside the model): the period is chosen above the longest delay of these sessions
        cfgs = [(min(c[0], 2), c[1] if c[0] < 2 else 0, 1, c[3] if c[2] == 1 else 500, min(c[4], 4), c[5]) for c in cfgs]
        ev.append(["E", r.choice([49, 64, 100, 150])])
    if "M" in opts:
        ev.append(["M", r.choice([1, 2, 3, 5, 9, 14])])
    tick = (lambda: ["Z", r.choice(R_BOUNDS + [r.randrange(256)])]) if "E" in opts else (lambda: ["T"])
    mid = 100
    pend = []
    if "B" in opts:
        for k in range(r.choice([1, 1, 2])):
            sk = 0 if k == 0 else r.randrange(ns)
            ev.append(["U", sk, mid, hexb([r.randrange(256) for _ in range(r.choice([1, 2, 4]))]),
                       r.choice([17, 40, 100, 300]), r.choice(R_BOUNDS + [r.randrange(256)])])
            pend.append((sk, mid))
            mid += 1
            if r.random() < 0.3:
                ev.append(["A", r.choice([0, 1, 250, 1000])])
    p_send = 0.12 if "E" in opts else 0.30
    for _ in range(r.randrange(25, 70)):
        x = r.random()
        if p_send <= x < 0.44 and "E" in opts:
            ev.append(tick())       # (a datagram's arrival ends in a prepare call of its own: pings go out before)
        if x < p_send:
            sk = r.randrange(1, ns) if r.random() < 0.8 else 0
            m = rand_msg(r, sk, mid)
            if m[5].startswith("@"):
                m[5] = "-"          # keep the datagram short enough to be printed in full
            pend.append((sk, mid))
            mid += 1
            ev.append(m)
        elif 0.30 <= x < 0.38 and pend:
            sk, mm = pend.pop(r.randrange(len(pend)))
            ev.append([r.choice(["K", "K", "R"]), sk, mm])
        elif 0.38 <= x < 0.44 and "E" in opts:
            ev.append(["K", r.randrange(ns), "L"])
        elif 0.44 <= x < 0.48:
            ev.append(["Q"])
        ev.append(tick())
        ev.append(["W", r.choice([0, 0, 0, 0, 0, 0, 1, 3])] if r.random() < 0.93 else ["A", r.choice([0, 1, 100, 999, 1000, 1001])])
    ev += [tick(), ["Q"]]
    return {"cfgs": cfgs, "ev": ev, "kind": "timers"}


# ---------------------------------------------------------------- the library's own I/O loop
def gen_ioloop_case(r):
    """messages driven by coap_io_process() itself (epoll_wait interposed: it sleeps exactly as long
    as it is told): COAP_IO_WAIT = the punctual driver; finite timeouts and NO_WAIT = early ticks"""
    ns = r.choice([1, 1, 2])
    cfgs = [rand_cfg(r, nstart=1000) for _ in range(ns)]
    ev = []
    sent = []
    mid = r.randrange(60000)
    mode = r.choice(["wait", "wait", "mixed", "short"])
    for _ in range(r.randrange(1, 4)):
        s = r.randrange(ns)
        m = rand_msg(r, s, mid)
        mid += 1
        sent.append(m)
        ev.append(m)
        if r.random() < 0.7:
            ev.append(["Q"])            # (shows the oracle the message's deadline, i.e. its T)
        for _ in range(r.randrange(0, 4)):
            if mode == "wait":
                ev.append(["I", 0])
            elif mode == "short":
                ev.append(["I", r.choice([1, 50, 500, 1500, 4294967295])])
            else:
                ev.append(["I", r.choice([0, 0, 700, 2500, 4294967295, 2147483648, 4000000000])])
        if r.random() < 0.3 and sent:
            ev.append(ack_event(r, r.choice(sent)))
            no_empty_ack_for_request(ev, sent)
    mx = max(eff_max(c) for c in cfgs)
    for _ in range((mx + 2) * len(sent) + 1):
        ev.append(["I", 0])
    ev += [["Q"]]
    return {"cfgs": cfgs, "ev": ev, "kind": "ioloop-" + mode}


# ---------------------------------------------------------------- cancel paths, several sessions
def gen_cancel_case(r):
    """2-4 sessions with interleaved deadlines in one queue; one session's entries are removed
    through a cancel path (NON response with the token / coap_session_disconnected) while the
    others are pending: their deadlines, retransmissions and the reported waits must not move"""
    ns = r.choice([2, 2, 3, 4])
    cfgs = [rand_cfg(r, nstart=1000) for _ in range(ns)]
    ev = []
    sent = []
    mid = 100
    for _ in range(r.randrange(2, 7)):
        s = r.randrange(ns)
        m = rand_msg(r, s, mid, request=True)
        if r.random() < 0.3 and sent:
            m[4] = r.choice(sent)[4]           # same token again (another request of that exchange)
        mid += 1
        sent.append(m)
        ev.append(m)
        ev.append(["A", r.choice([0, 1, 100, 500, 700, 1500])])
        if r.random() < 0.3:
            ev += [["T"], ["W", 0]]
    ev.append(["Q"])
    victim = r.choice(sent)
    x = r.random()
    if x < 0.4:
        ev.append(["N", victim[1], r.choice([victim[2], r.randrange(65536)]), 69, victim[4]])
    elif x < 0.7:
        ev.append(["D", victim[1], r.choice([1, 3, 5])])
    else:
        ev.append(["X", victim[1], victim[2]])      # coap_delete_node on the linked node
    ev.append(["Q"])
    if r.random() < 0.4:
        v2 = r.choice(sent)
        ev += [["T"], ["W", 0], ["N", v2[1], r.randrange(65536), 69, v2[4]], ["Q"]]
    mx = max(eff_max(c) for c in cfgs)
    ev += drain(r.choice([2, mx + 3, (mx + 2) * len(sent)]))
    ev += [["T"], ["Q"]]
    return {"cfgs": cfgs, "ev": ev, "kind": "cancel"}


# ---------------------------------------------------------------- separate response
def gen_separate_case(r):
    """a request answered by an EMPTY ACK (the response will come separately): the library starts
    a receive timer of its own that enters the reported wait, so no 'W' follows the ACK here and
    the waits are compared one-sidedly"""
    cfg = rand_cfg(r)
    m = rand_msg(r, 0, request=True)
    ev = [m] + drain(r.randrange(0, eff_max(cfg) + 1))
    ev += [["T"], ["A", r.choice([0, 1, 500, 1999])], ["K", 0, m[2]]]
    for _ in range(r.randrange(1, 5)):
        ev += [["A", r.choice([1, 2000, 10000, 100000])], ["T"]]
    ev += [["Q"]]
    return {"cfgs": [cfg], "ev": ev, "kind": "separate"}


# ---------------------------------------------------------------- long back-off (32-bit wait)
def gen_long_case(r):
    cfg = list(rand_cfg(r))
    cfg[4] = r.choice([20, 21, 22, 23, 26, 30])
    ev = [rand_msg(r, 0)]
    ev += drain(cfg[4] + 12)
    ev += [["T"], ["Q"]]
    return {"cfgs": [tuple(cfg)], "ev": ev, "kind": "long"}


# ---------------------------------------------------------------- queue primitives (leaf)
def gen_qops(r, with_adjust=False):
    ops = []
    ids = []
    for _ in range(r.randrange(1, 14)):
        x = r.random()
        if x < 0.55 or not ids:
            t = r.choice([0, 1, 5, 5, 10, 10, 100, r.randrange(50), r.randrange(1 << 20)])
            s, i = r.randrange(3), r.randrange(6)
            ids.append((s, i))
            ops += ["i", t, s, i]
        elif x < 0.70:
            ops += ["p"]
        elif x < 0.95 or not with_adjust:
            s, i = r.choice(ids) if r.random() < 0.8 else (r.randrange(3), r.randrange(8))
            ops += ["r", s, i]
        else:
            ops += ["b", r.choice([0, 1, 3, 10, 50, 1 << 21])]
    return "qops " + " ".join(str(x) for x in ops)


def settings_grid(tier):
    ats = AT_POOL + [(1023, 0), (1023, 992), (1023, 993), (1024, 0), (2048, 500), (65535, 999), (4294, 967), (4295, 0)]
    arfs = ARF_POOL + [(1023, 999), (1024, 0), (4, 0), (65535, 0), (65535, 999), (66, 0)]
    if tier != "quick":
        ats += [(i, f) for i in (1, 2, 3, 4, 9, 100, 511, 512, 1000) for f in (0, 15, 16, 124, 125, 126, 499, 500, 992, 993)]
        arfs += [(i, f) for i in (1, 2, 3, 4, 8) for f in (0, 7, 8, 15, 16, 125, 500, 750, 992, 993, 999)]
    return [(a, b, c, d) for (a, b) in ats for (c, d) in arfs]

"""C20 case generator + Python reference of the RFC 6690 listing/filter (used only as the
implementation-only oracle: what coap_print_wellknown printed into a large buffer must be the
listing of the registered resources restricted by the filter).

Case line (see harness/h_link.c):
  lfwk|lflk <i>  { R <path> <flags> <nattr> { <name> <val> }* | D <path> }*  F <filter>  W all | W list {off len}*
"""

WK = b".well-known/core"

NEAR_WK = [WK + b"2", WK + b"/extra", WK + b"/", WK[:-1], b".well-known", b"z/" + WK, WK.upper(),
           WK + b"\x00", b".well-known/corf"]

SEGS = [b"a", b"ab", b"abc", b"b", b"s", b"sensors", b"temp", b"light", b"t", b"x*", b"a=b", b"r t"]
NAMES = [b"rt", b"if", b"rel", b"ct", b"title", b"sz", b"x", b"r", b"rtx", b"href", b""]
TOKS = [b"a", b"ab", b"abc", b"cd", b"temp", b"temperature-c", b"core.s", b"sensor", b"x", b"40",
        b"a*", b"*", b"a=b", b"/a", b"\x00", b"cd\x00"]


def tok(b):
    return b.hex() if b else "-"


def gen_path(r):
    x = r.random()
    if x < 0.04:
        return b""
    if x < 0.08:
        return WK
    if x < 0.16:
        return r.choice(NEAR_WK)      # near misses of the path that is left out of the listing
    n = r.choice([1, 1, 1, 2, 2, 3])
    return b"/".join(r.choice(SEGS) for _ in range(n))


def gen_value(r):
    """-> None (no value) | bytes"""
    x = r.random()
    if x < 0.10:
        return None
    if x < 0.115:
        return b'"'                  # one double quote: not a quoted string (F20e)
    if x < 0.18:
        return b""
    n = r.choice([1, 1, 1, 2, 2, 3, 4])
    ts = [r.choice(TOKS) for _ in range(n)]
    sep = b" "
    v = sep.join(ts)
    y = r.random()
    if y < 0.08:
        v = b" " + v
    elif y < 0.16:
        v = v + b" "
    elif y < 0.22:
        v = v.replace(b" ", b"  ", 1)
    z = r.random()
    if z < 0.45:
        v = b'"' + v + b'"'
    elif z < 0.50:
        v = b'"' + v                 # opening quote only, at least 2 bytes
        if len(v) < 2:
            v = b'"x'
    elif z < 0.53:
        v = b'""'
    return v


def gen_table(r, maxres=12):
    """-> list of ops: ('R', path, flags, [(name, val)...]) | ('D', path)"""
    n = r.choice([0, 1, 1, 2, 2, 3, 3, 3, 4, 4, 5, 5, 6, 6, 7, 8, 9, 10, 11, 12, 12])
    n = min(n, maxres)
    ops = []
    paths = []
    for _ in range(n):
        if paths and r.random() < 0.08:
            p = r.choice(paths)          # duplicate path: replaces the earlier resource
        else:
            p = gen_path(r)
        paths.append(p)
        na = r.choice([0, 1, 1, 2, 2, 3, 4])
        attrs = []
        for _ in range(na):
            nm = r.choice(NAMES[:8]) if r.random() < 0.9 else r.choice(NAMES)
            if attrs and r.random() < 0.1:
                nm = attrs[0][0]         # duplicate attribute name
            attrs.append((nm, gen_value(r)))
        fl = r.choice([0, 0, 0, 1, 1, 2, 3]) | (4 if r.random() < 0.3 else 0)
        ops.append(("R", p, fl, attrs))
        if r.random() < 0.06 and paths:
            ops.append(("D", r.choice(paths)))
        if r.random() < 0.03:
            ops.append((r.choice(["U", "P"]), None))
    return ops


def many_ops(n):
    """what the op "M <n>" stands for (same formula in harness/h_link.c and ocaml/d_link.ml)"""
    ops = []
    for k in range(n):
        ops.append(("R", b"r/%d" % ((k * 7919) % 10007), k % 4,
                    [(b"rt", b'"t%d s"' % (k % 5))] if k % 3 else []))
        if k % 17 == 5:
            ops.append(("D", b"r/%d" % (((k - 3) * 7919) % 10007)))
    return ops


def table_of_ops(ops):
    """registration order, attributes in link_attr order (last added first)"""
    tbl = []
    flat = []
    for op in ops:
        flat += many_ops(op[1]) if op[0] == "M" else [op]
    for op in flat:
        if op[0] == "R":
            _, p, fl, attrs = op
            tbl = [x for x in tbl if x["path"] != p]
            tbl.append({"path": p, "obs": bool(fl & 1), "osc": bool(fl & 2),
                        "attrs": list(reversed(attrs))})
        elif op[0] == "D":
            tbl = [x for x in tbl if x["path"] != op[1]]
        # "U" / "P": the unknown-resource and proxy-URI resources are kept outside the table
    return tbl


def ops_tokens(ops):
    out = []
    for op in ops:
        if op[0] == "R":
            _, p, fl, attrs = op
            out += ["R", tok(p), str(fl), str(len(attrs))]
            for nm, v in attrs:
                out += [tok(nm), "~" if v is None else tok(v)]
        elif op[0] == "D":
            out += ["D", tok(op[1])]
        elif op[0] == "M":
            out += ["M", str(op[1])]
        else:
            out += [op[0]]
    return out


# ---------------------------------------------------------------- reference (oracle only)

def py_link(x):
    s = b"</" + x["path"] + b">"
    for nm, v in x["attrs"]:
        s += b";" + nm + (b"" if v is None else b"=" + v)
    if x["obs"]:
        s += b";obs"
    if x["osc"]:
        s += b";osc"
    return s


def py_tokens(t):
    if t == b"":
        return []
    ts = t.split(b" ")
    if ts[-1] == b"":
        ts = ts[:-1]
    return ts


def py_match(pfx, pat, s):
    return s.startswith(pat) if pfx else s == pat


def py_filter(q, x):
    if q is None:
        return True
    i = q.find(b"=")
    name = q if i < 0 else q[:i]
    if name == b"":
        return True
    if i < 0:
        return False
    p = q[i + 1:]
    if name == b"href":
        if p[:1] == b"/":
            p = p[1:]
        pfx = p[-1:] == b"*"
        if pfx:
            p = p[:-1]
        return py_match(pfx, p, x["path"])
    pfx = p[-1:] == b"*"
    if pfx:
        p = p[:-1]
    for nm, v in x["attrs"]:
        if nm == name:
            if v is None:
                return False
            u = v[1:-1] if (v[:1] == b'"' and len(v) >= 2) else v
            if name in (b"rt", b"if", b"rel"):
                return any(py_match(pfx, p, t) for t in py_tokens(u))
            return py_match(pfx, p, u)
    return False


def py_listing(ops, q):
    return b",".join(py_link(x) for x in table_of_ops(ops)
                     if x["path"] != WK and py_filter(q, x))


def py_clean(x):
    """mirror of LinkParse.lf_clean_res: the text of the link is unambiguous link-format"""
    if b">" in x["path"]:
        return False
    for nm, v in x["attrs"]:
        if any(c in nm for c in b";,="):
            return False
        if v is None or v == b"":
            continue
        if v[:1] == b'"':
            if len(v) < 2 or v[-1:] != b'"' or b'"' in v[1:-1]:
                return False
        elif any(c in v for c in b";,"):
            return False
    return True


def py_canon_dump(ops, q):
    """what LinkParse.lf_parse must read out of the listing (format of the model's lfparse),
    or None when a listed resource is not clean"""
    out = []
    for x in table_of_ops(ops):
        if x["path"] == WK or not py_filter(q, x):
            continue
        if not py_clean(x):
            return None
        attrs = list(x["attrs"]) + ([(b"obs", None)] if x["obs"] else []) + ([(b"osc", None)] if x["osc"] else [])
        out.append(tok(x["path"]) + "|" + ";".join(tok(nm) + ("" if v is None else "=" + tok(v)) for nm, v in attrs))
    return " ".join(out) if out else "none"


# ---------------------------------------------------------------- filters aimed at the table

def gen_filter(r, ops):
    """-> (kind, None | bytes)"""
    tbl = table_of_ops(ops)
    x = r.random()
    if x < 0.04:
        return "none", None
    if x < 0.06:
        return "empty", b""
    cands = []
    for e in tbl:
        for nm, v in e["attrs"]:
            if v is not None:
                cands.append((nm, v))
    if x < 0.30 and tbl:
        e = r.choice(tbl)
        p = e["path"]
        y = r.random()
        lead = b"/" if r.random() < 0.5 else b""
        if y < 0.3:
            return "href-exact", b"href=" + lead + p
        if y < 0.6:
            k = r.randint(0, len(p))
            return "href-prefix", b"href=" + lead + p[:k] + b"*"
        if y < 0.7:
            return "href-longer", b"href=" + lead + p + r.choice([b"x", b"/", b"x*", b"/*"])
        if y < 0.8:
            return "href-edge", b"href=" + r.choice([b"", b"/", b"*", b"/*", b"//", b"**", b"/" + p + b"/"])
        k = r.randint(0, len(p))
        return "href-cut", b"href=" + lead + p[:k]
    if x < 0.93 and cands:
        nm, v = r.choice(cands)
        u = v[1:-1] if (v[:1] == b'"' and len(v) >= 2) else v
        ts = py_tokens(u) or [b""]
        t = r.choice(ts)
        y = r.random() * 0.92 if r.random() < 0.8 else r.random()
        if y < 0.22:
            return "attr-token", nm + b"=" + t
        if y < 0.42:
            k = r.randint(0, len(t))
            return "attr-token-prefix", nm + b"=" + t[:k] + b"*"
        if y < 0.52:
            # pattern longer than the token: continues into the next token / behind the value
            i = u.find(t)
            ext = u[i:i + len(t) + r.choice([1, 2, 3])] if i >= 0 else t + b" "
            if len(ext) <= len(t):
                ext = t + r.choice([b"\x00", b'"', b" ", b"x"])
            return "attr-beyond-token", nm + b"=" + ext + b"*"
        if y < 0.60:
            return "attr-beyond-token", nm + b"=" + t + r.choice([b"\x00", b'"', b"\x00\x00", b'"\x00']) + b"*"
        if y < 0.68:
            return "attr-whole", nm + b"=" + u
        if y < 0.74:
            return "attr-quoted-pattern", nm + b"=" + v
        if y < 0.80:
            k = r.randint(0, len(u))
            return "attr-whole-prefix", nm + b"=" + u[:k] + b"*"
        if y < 0.86:
            return "attr-edge", nm + b"=" + r.choice([b"", b"*", b"**", b" ", b" *", b"=", b"=*"])
        if y < 0.92:
            k = r.randint(0, len(t))
            return "attr-token-cut", nm + b"=" + t[:k]
        return "attr-name-only", nm
    y = r.random()
    if y < 0.25:
        return "unknown-attr", r.choice([b"zz", b"r", b"rtx", b"hre", b"hreff"]) + b"=" + r.choice(TOKS)
    if y < 0.45:
        return "no-name", b"=" + r.choice(TOKS)
    if y < 0.65:
        return "generic", r.choice(NAMES) + b"=" + r.choice(TOKS) + r.choice([b"", b"*"])
    if y < 0.8:
        return "no-equals", r.choice([b"rt", b"href", b"x", b"*", b"/"])
    n = r.randint(1, 8)
    return "blind", bytes(r.choice([0x3d, 0x2a, 0x2f, 0x22, 0x20, 0x61, 0x72, 0x74, 0x00, r.randrange(256)])
                          for _ in range(n))


def boundary_windows(r, ops, q, limit=900):
    """(offset, buflen) pairs around every link/attribute boundary of the expected listing"""
    L = py_listing(ops, q)
    n = len(L)
    marks = {0, n}
    for i, c in enumerate(L):
        if c in b",;<>=":
            marks.add(i)
            marks.add(i + 1)
    pts = set()
    for m in marks:
        for d in (-1, 0, 1):
            if 0 <= m + d <= n + 2:
                pts.add(m + d)
    pts = sorted(pts)
    pairs = set()
    for o in pts:
        for e in pts:
            if e >= o:
                pairs.add((o, e - o))
        pairs.add((o, 0))
        pairs.add((o, n + 2))
    pairs = sorted(pairs)
    if len(pairs) > limit:
        pairs = r.sample(pairs, limit)
        pairs.sort()
    return pairs


def case_line(cmd, ops, q, windows=None):
    t = [cmd] + ops_tokens(ops) + ["F", "~" if q is None else tok(q)]
    if windows is None:
        t += ["W", "all"]
    else:
        t += ["W", "list"]
        for o, n in windows:
            t += [str(o), str(n)]
    return " ".join(t)

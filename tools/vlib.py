"""Shared machinery for all property checks (see DESIGN.md section 2.3).

build   : libcoap objects from /repo's working tree (variants), drivers, extracted model
prove   : make of coq/Properties_Cxx.vo, Print Assumptions collection, forbidden-token grep
verdict : VIOLATION / KNOWN-FINDING lines, evidence/<id>.json
Only the Python standard library is used.
"""
import fcntl
import glob
import hashlib
import json
import os
import re
import subprocess
import sys
import time

ROOT = os.path.dirname(os.path.dirname(os.path.abspath(__file__)))
# VERIF_REPO lets a check run against a scratch worktree of obgm/libcoap (mutation testing)
# without touching /repo: objects, the Coq tree (copied, so regenerated Gen/*.v files do not
# pollute the real one) and the evidence then live under .build/alt-<hash>/.
REPO = os.environ.get("VERIF_REPO", "/repo").rstrip("/") or "/repo"
ALT = REPO != "/repo"
BUILD = os.path.join(ROOT, ".build")
if ALT:
    BUILD = os.path.join(BUILD, "alt-" + hashlib.md5(REPO.encode()).hexdigest()[:8])
COQ = os.path.join(BUILD, "coq") if ALT else os.path.join(ROOT, "coq")
EVID = os.path.join(BUILD, "evidence") if ALT else os.path.join(ROOT, "evidence")
GUARD = "LIBCOAP_VERIF_HOOKS"
NPROC = str(os.cpu_count() or 4)

STD_AXIOMS_ALLOWED = {
    # axioms declared by the standard library itself; named in DESIGN.md section 4 when they occur
    "functional_extensionality_dep", "proof_irrelevance", "classic", "JMeq_eq", "eq_rect_eq",
    "propositional_extensionality", "constructive_definite_description",
}


def log(*a):
    print(*a, file=sys.stderr, flush=True)


def sh(cmd, cwd=None, timeout=None, check=True, env=None, stdin=None, quiet=True):
    e = dict(os.environ)
    if env:
        e.update(env)
    p = subprocess.run(cmd, cwd=cwd, timeout=timeout, env=e, input=stdin,
                       stdout=subprocess.PIPE, stderr=subprocess.STDOUT,
                       shell=isinstance(cmd, str))
    out = p.stdout.decode("utf-8", "replace") if isinstance(p.stdout, bytes) else p.stdout
    if check and p.returncode != 0:
        raise BuildError("command failed (%d): %s\n%s" % (p.returncode, cmd, out[-4000:]))
    return p.returncode, out


class BuildError(Exception):
    pass


class Lock:
    def __init__(self, name):
        os.makedirs(BUILD, exist_ok=True)
        self.path = os.path.join(BUILD, name + ".lock")

    def __enter__(self):
        self.f = open(self.path, "w")
        fcntl.flock(self.f, fcntl.LOCK_EX)
        return self

    def __exit__(self, *a):
        fcntl.flock(self.f, fcntl.LOCK_UN)
        self.f.close()


# ------------------------------------------------------------------ config + library build

def _hash_files(paths):
    h = hashlib.sha256()
    for p in sorted(paths):
        h.update(p.encode())
        try:
            with open(p, "rb") as f:
                h.update(f.read())
        except OSError:
            h.update(b"<missing>")
    return h.hexdigest()[:16]


def ensure_cfg():
    """Run the repository's own CMake configure step (same options as the baseline build) into
    .build/cfg/<hash>; the hash covers the build files, so an edit to them is seen."""
    files = [os.path.join(REPO, f) for f in
             ("CMakeLists.txt", "cmake_coap_config.h.in", "cmake_coap_defines.h.in")]
    files += glob.glob(os.path.join(REPO, "cmake", "*"))
    d = os.path.join(BUILD, "cfg", _hash_files(files))
    with Lock("cfg"):
        if not os.path.exists(os.path.join(d, "ok")):
            os.makedirs(d, exist_ok=True)
            sh(["cmake", "-G", "Ninja", "-S", REPO, "-B", d, "-DENABLE_TESTS=ON",
                "-DENABLE_DOCS=OFF", "-DENABLE_EXAMPLES=OFF",
                "-DCMAKE_BUILD_TYPE=RelWithDebInfo"], timeout=300)
            open(os.path.join(d, "ok"), "w").write("ok\n")
    return d


def lib_sources(cfg):
    txt = open(os.path.join(cfg, "build.ninja")).read()
    srcs = sorted(set(re.findall(r"(src/[A-Za-z0-9_/]+\.c)\b", txt)))
    return [s for s in srcs if os.path.exists(os.path.join(REPO, s))]


def build_lib(variant="base", exclude=()):
    """Objects of /repo/src/*.c (working tree) -> .build/obj/<variant>/libcoap.a (incremental)."""
    cfg = ensure_cfg()
    out = os.path.join(BUILD, "obj", variant)
    srcs = [s for s in lib_sources(cfg) if s not in exclude]
    with Lock("lib-" + variant):
        sh(["make", "-s", "-j" + NPROC, "-f", os.path.join(ROOT, "harness", "lib.mk"),
            "OUT=" + out, "CFG=" + cfg, "VARIANT=" + variant, "SRCS=" + " ".join(srcs),
            "REPO=" + REPO, "GUARD=" + GUARD], timeout=900)
    return {"lib": os.path.join(out, "libcoap.a"), "cfg": cfg, "out": out, "variant": variant}


def cc_for(variant):
    if variant == "base":
        return "gcc", ["-O1", "-g"]
    if variant in ("asan", "asana"):
        return "clang", ["-O1", "-g", "-fno-omit-frame-pointer", "-fsanitize=address,undefined",
                         "-fno-sanitize-recover=undefined"]
    if variant in ("tsan", "tsafe"):
        return "clang", ["-O1", "-g", "-fno-omit-frame-pointer", "-fsanitize=thread"]
    raise ValueError(variant)


def build_driver(name, sources, variant="base", wraps=(), extra=(), libs=("-lgnutls", "-lpthread")):
    """Compile harness/<sources> and link against the variant's libcoap.a.
    wraps: symbols interposed with ld --wrap (no source change to libcoap)."""
    lib = build_lib(variant)
    cc, flags = cc_for(variant)
    exe = os.path.join(lib["out"], name)
    srcs = [os.path.join(ROOT, "harness", s) for s in sources]
    cmd = [cc] + flags + ["-DNDEBUG", "-D" + GUARD, "-w", "-I" + lib["cfg"],
                          "-I" + os.path.join(lib["cfg"], "include"),
                          "-I" + os.path.join(REPO, "include"), "-I" + os.path.join(REPO, "src"),
                          "-I" + os.path.join(ROOT, "harness"),
                          "-DLIBCOAP_PACKAGE_BUILD=\"verif\""]
    if variant == "tsafe":
        cmd += ["-UCOAP_THREAD_SAFE", "-DCOAP_THREAD_SAFE=1"]
    if variant == "asana":
        cmd += ["-UNDEBUG"]
    cmd += list(extra) + srcs + [lib["lib"]]
    for w in wraps:
        cmd.append("-Wl,--wrap=" + w)
    cmd += list(libs) + ["-o", exe]
    with Lock("drv-" + variant + "-" + name):
        sh(cmd, timeout=600)
    return exe


# ------------------------------------------------------------------ Coq

FORBIDDEN = re.compile(r"\b(Admitted|admit|Axiom|Axioms|Parameter|Parameters|Conjecture|"
                       r"Admit Obligations|bypass_check|type-in-type|impredicative-set)\b|"
                       r"Unset\s+(Guard|Positivity|Universe)")


def coq_forbidden_tokens():
    hits = []
    for p in glob.glob(os.path.join(COQ, "**", "*.v"), recursive=True):
        for i, line in enumerate(open(p, encoding="utf-8", errors="replace"), 1):
            if FORBIDDEN.search(line):
                hits.append("%s:%d: %s" % (os.path.relpath(p, COQ), i, line.strip()))
    return hits


def coq_makefile():
    with Lock("coqmk"):
        import coqgen
        if ALT:
            os.makedirs(COQ, exist_ok=True)
            sh(["rsync", "-a", "--delete", "--exclude", "Gen/*.vo", os.path.join(ROOT, "coq") + "/", COQ + "/"])
        coqgen.main(COQ)
        mk = os.path.join(COQ, "Makefile")
        cp = os.path.join(COQ, "_CoqProject")
        if (not os.path.exists(mk)) or os.path.getmtime(mk) < os.path.getmtime(cp):
            sh(["coq_makefile", "-f", "_CoqProject", "-o", "Makefile"], cwd=COQ)


def coq_make(targets, timeout=3000, keep_going=False):
    coq_makefile()
    with Lock("coq"):
        cmd = ["make", "-j" + NPROC] + (["-k"] if keep_going else []) + list(targets)
        t0 = time.time()
        rc, out = sh(cmd, cwd=COQ, timeout=timeout, check=False)
        return rc == 0, out, time.time() - t0


def coq_properties(pid):
    """(Re)compile coq/Properties_<pid>.v (full .vo, after its dependencies) and collect, per
    theorem, what Print Assumptions reports. Returns dict(ok, theorems=[{name, assumptions}],
    failed_theorem, log)."""
    src = os.path.join(COQ, "Properties_%s.v" % pid)
    text = open(src).read()
    names = re.findall(r"^\s*(?:Theorem|Lemma|Corollary)\s+([A-Za-z0-9_']+)", text, re.M)
    printed = re.findall(r"^\s*Print Assumptions\s+([A-Za-z0-9_']+)\s*\.", text, re.M)
    vo = src[:-2] + ".vo"
    with Lock("coq-" + pid):
        if os.path.exists(vo):
            os.remove(vo)
        ok, out, secs = coq_make(["Properties_%s.vo" % pid])
    res = {"ok": ok, "theorems": [], "log": out, "seconds": secs, "declared": names,
           "failed_theorem": None}
    if ok:
        # split the output into one block per Print Assumptions, in file order
        blocks = re.split(r"(?m)^(?=Closed under the global context|Axioms:)", out)
        blocks = [b for b in blocks if b.startswith("Closed under") or b.startswith("Axioms:")]
        for i, n in enumerate(printed):
            b = blocks[i] if i < len(blocks) else "?"
            if b.startswith("Closed under"):
                ax = []
            else:
                ax = re.findall(r"(?m)^([A-Za-z0-9_.']+)\s*:", b)
            res["theorems"].append({"name": n, "assumptions": ax})
        missing = [n for n in names if n not in printed]
        res["unprinted"] = missing
    else:
        m = re.search(r'File "\./Properties_%s\.v", line (\d+)' % pid, out)
        if m:
            ln = int(m.group(1))
            before = text.split("\n")[:ln]
            for l in reversed(before):
                mm = re.match(r"\s*(?:Theorem|Lemma|Corollary)\s+([A-Za-z0-9_']+)", l)
                if mm:
                    res["failed_theorem"] = mm.group(1)
                    break
        else:
            m = re.search(r'File "\./([A-Za-z0-9_/]+\.v)", line (\d+)', out)
            if m:
                res["failed_theorem"] = "%s:%s" % (m.group(1), m.group(2))
    return res


def build_model():
    """Extract the Gallina models (coq/Extract.v -> model.ml) and build ocaml/driver.ml."""
    coq_makefile()
    ok, out, _ = coq_make(["Extract.vo"])
    if not ok:
        raise BuildError("extraction failed:\n" + out[-3000:])
    od = os.path.join(BUILD, "ocaml")
    os.makedirs(od, exist_ok=True)
    with Lock("ocaml"):
        mods = sorted(glob.glob(os.path.join(ROOT, "ocaml", "d_*.ml")))
        srcs = [os.path.join(COQ, "model.mli"), os.path.join(COQ, "model.ml"),
                os.path.join(ROOT, "ocaml", "util.ml")] + mods + \
               [os.path.join(ROOT, "ocaml", "main.ml")]
        exe = os.path.join(od, "model_driver")
        stamp = os.path.join(od, "stamp")
        h = _hash_files(srcs)
        if not (os.path.exists(exe) and os.path.exists(stamp) and open(stamp).read() == h):
            for s in srcs:
                sh(["cp", s, od])
            sh(["ocamlfind", "ocamlopt", "-inline", "50", "-w", "-a"] +
               [os.path.basename(s) for s in srcs] + ["-o", "model_driver"], cwd=od, timeout=600)
            open(stamp, "w").write(h)
    return exe


def run_lines(exe, args, lines, timeout=600, env=None):
    """Feed one case per line on stdin; return the output lines."""
    data = ("\n".join(lines) + "\n").encode()
    e = dict(os.environ)
    if env:
        e.update(env)
    p = subprocess.run([exe] + list(args), input=data, stdout=subprocess.PIPE,
                       stderr=subprocess.PIPE, timeout=timeout, env=e)
    return p.returncode, p.stdout.decode("latin-1").split("\n"), p.stderr.decode("latin-1")


def err_digest(err, limit=2600):
    """what matters of a crashed driver's stderr: the sanitizer's ERROR line, the first frames and
    the SUMMARY line (the tail of an ASan report is only the shadow-byte legend)"""
    m = re.search(r"(?m)^.*(ERROR: \w*Sanitizer|runtime error:|Assertion|==\d+==ERROR).*$", err)
    sm = re.search(r"(?m)^SUMMARY: .*$", err)
    if m:
        body = err[m.start():m.start() + limit]
        if sm and sm.group(0) not in body:
            body += "\n...\n" + sm.group(0)
        return body
    return err[-limit:]


def run_lines_robust(exe, lines, timeout=900, env=None, max_restarts=50):
    """Like run_lines, but survives a crash of the driver: the crashing case gets the result
    "CRASH rc=<n>" and the remaining cases are run in a fresh process.
    Returns (outputs aligned with lines, list of (index, rc, stderr tail))."""
    outs = []
    crashes = []
    start = 0
    while start < len(lines) and len(crashes) <= max_restarts:
        try:
            rc, out, err = run_lines(exe, [], lines[start:], timeout=timeout, env=env)
        except subprocess.TimeoutExpired:
            rc, out, err = -999, [], "timeout"
        if out and out[-1] == "":
            out = out[:-1]
        if rc == 0 and len(out) >= len(lines) - start:
            outs.extend(out[:len(lines) - start])
            start = len(lines)
            break
        # a partial last line may have been flushed; count only complete results
        done = min(len(out), len(lines) - start - 1)
        if rc == 0:
            done = len(out)
        outs.extend(out[:done])
        idx = start + done
        if idx < len(lines):
            outs.append("CRASH rc=%d" % rc)
            crashes.append((idx, rc, err_digest(err)))
        start = idx + 1
    while len(outs) < len(lines):
        outs.append("<not run>")
    return outs, crashes


# ------------------------------------------------------------------ verdict + evidence

def known_findings():
    """known_findings.json (+ known_findings.d/*.json fragments, same format)"""
    out = []
    ps = [os.path.join(ROOT, "known_findings.json")] + \
        sorted(glob.glob(os.path.join(ROOT, "known_findings.d", "*.json")))
    for p in ps:
        if os.path.exists(p):
            out.extend(json.load(open(p)).get("findings", []))
    return out


class Run:
    """One check run for one property: collects obligations, tie statistics, violations."""

    def __init__(self, pid, tier, level="proof"):
        self.pid = pid
        self.tier = tier
        self.level = level
        self.seed = int(os.environ.get("VERIF_SEED", "1") or 1)
        self.t0 = time.time()
        self.violations = []      # (what, replay_path, no_input)
        self.known_hits = {}      # finding id -> what
        self.cov = {"evaluations": 0, "distinct_nontrivial": 0, "samples": [], "obligations": 0,
                    "discharged": 0, "trusted_base": [], "checker_cmd": ""}
        self.assumptions = []
        self._distinct = set()
        self.kf = [f for f in known_findings() if f.get("property") == pid]
        os.makedirs(EVID, exist_ok=True)
        os.makedirs(os.path.join(BUILD, "replay"), exist_ok=True)

    # -- counting
    def count(self, case_key, nontrivial):
        self.cov["evaluations"] += 1
        if nontrivial:
            self._distinct.add(hashlib.md5(case_key.encode("latin-1", "replace")).digest()[:8])

    def sample(self, obj, limit=6):
        if len(self.cov["samples"]) < limit:
            self.cov["samples"].append(obj)

    def hist(self, name, key):
        h = self.cov.setdefault("distribution", {}).setdefault(name, {})
        h[str(key)] = h.get(str(key), 0) + 1

    # -- results
    def replay_file(self, tag, content):
        p = os.path.join(BUILD, "replay", "%s_%s.txt" % (self.pid, tag))
        with open(p, "w") as f:
            f.write(content if isinstance(content, str) else json.dumps(content, indent=1))
        return p

    def match_known(self, signature_fn):
        """signature_fn(finding) -> bool ; returns the first *known* (unfixed) finding matched."""
        for f in self.kf:
            if f.get("status") == "known" and signature_fn(f):
                return f
        return None

    def known(self, finding, detail=""):
        self.known_hits[finding["id"]] = finding["what"] + ((" [" + detail + "]") if detail else "")

    def violation(self, what, replay_content, tag=None, no_input=False):
        tag = tag or ("v%d" % len(self.violations))
        p = self.replay_file(tag, replay_content)
        self.violations.append((what, p, no_input))

    # -- proof step
    def prove(self):
        """Compile Properties_<pid>.v; every theorem in it is one obligation."""
        coq_makefile()
        bad = coq_forbidden_tokens()
        res = coq_properties(self.pid)
        self.cov["checker_cmd"] = ("make -C coq Properties_%s.vo (coqc 8.16.1, full .vo) + "
                                   "Print Assumptions per theorem" % self.pid)
        self.cov["obligations"] = len(res["declared"])
        self.cov["proof_seconds"] = round(res["seconds"], 1)
        if bad:
            self.violation("forbidden token in the Coq development: " + "; ".join(bad[:5]),
                           "\n".join(bad), tag="forbidden", no_input=True)
        if not res["ok"]:
            self.cov["discharged"] = 0
            self.proof_broken = res
            return res
        names = []
        for t in res["theorems"]:
            extra = [a for a in t["assumptions"] if a.split(".")[-1] not in STD_AXIOMS_ALLOWED]
            if extra:
                self.violation("theorem %s depends on undeclared assumptions %s" %
                               (t["name"], extra), json.dumps(t), tag="axioms", no_input=True)
            names.append(t)
        if res.get("unprinted"):
            self.violation("theorems without Print Assumptions: %s" % res["unprinted"],
                           json.dumps(res["unprinted"]), tag="unprinted", no_input=True)
        self.cov["discharged"] = len(res["theorems"])
        self.cov["theorems"] = [{"name": t["name"],
                                 "assumptions": t["assumptions"] or "Closed under the global context"}
                                for t in res["theorems"]]
        self.proof_broken = None
        return res

    def finish(self, extra_cov=None, rule=""):
        self.cov["distinct_nontrivial"] = len(self._distinct)
        self.cov["rule"] = rule
        if extra_cov:
            self.cov.update(extra_cov)
        # a broken proof obligation with no failing input found is still a violation
        pb = getattr(self, "proof_broken", None)
        if pb is not None and not any(not v[2] for v in self.violations):
            self.violation("proof obligation no longer checks: %s" % (pb["failed_theorem"] or "?"),
                           "theorem: %s\n\n%s" % (pb["failed_theorem"], pb["log"][-6000:]),
                           tag="proof", no_input=True)
        for fid, what in sorted(self.known_hits.items()):
            print("KNOWN-FINDING: property=%s %s: %s" % (self.pid, fid, what))
        # report concrete failing inputs first
        vs = sorted(self.violations, key=lambda v: v[2])
        concrete = any(not v[2] for v in vs)
        for what, path, no_input in vs:
            if no_input and concrete:
                log("note (%s): %s  [%s]" % (self.pid, what, path))
                continue
            log("violation detail (%s): %s" % (self.pid, what))
            print("VIOLATION property=%s replay=%s%s" %
                  (self.pid, path, " no-failing-input-found" if no_input else ""))
        ev = {
            "property_id": self.pid, "tier": self.tier, "seed": self.seed, "level": self.level,
            "coverage": self.cov, "assumptions": self.assumptions,
            "wall_s": round(time.time() - self.t0, 2), "violations": len(self.violations),
        }
        if not self.cov["samples"]:
            self.cov["samples"] = ["(no case generated)"]
        ev["coverage"]["known_findings_hit"] = sorted(self.known_hits)
        with open(os.path.join(EVID, self.pid + ".json"), "w") as f:
            json.dump(ev, f, indent=1, sort_keys=True)
            f.write("\n")
        sys.stdout.flush()
        return 1 if self.violations else 0


def read_corpus(pid):
    """corpus/<pid>/*.case : one case line per non-comment line; run before generated cases"""
    out = []
    for p in sorted(glob.glob(os.path.join(ROOT, "corpus", pid, "*.case"))):
        for ln in open(p):
            ln = ln.strip()
            if ln and not ln.startswith("#"):
                out.append(ln)
    return out


TRUSTED_COMMON = [
    "Coq 8.16.1 kernel (coqc; vm_compute used, native_compute not used)",
    "extraction: ExtrOcamlBasic only (bool, option, unit, list, prod, sumbool, sumor), no Extract Constant; ocamlfind ocamlopt",
    "tie: C drivers under harness/, ld --wrap shims, Python generators and diff (tools/)",
    "cmake configure of /repo for the generated config headers",
]

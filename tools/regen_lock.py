#!/usr/bin/env python3
"""C13 translator (form T): reads the locking discipline out of /repo's *current* source and build
configuration and writes it as coq/Gen/LockConfig.v (a value of LockModel.lk_cfg).

 (i)   configuration  - is coap_lock_lock_func compiled into the library built from the repo's own
                        cmake-generated headers (nm), what does coap_threadsafe_is_supported()
                        return (run), done by the caller with the objects of vlib.build_lib;
 (ii)  macro bodies   - the lock macros are expanded by the C preprocessor under the real
                        configuration; the expansion is parsed into statements and its fall-through
                        path is transcribed as a list of LkMInc/LkMDec/LkMUnlock/LkMLock/LkMFunc;
                        the unlock/wait/lock of coap_io_process_with_fds_lkd is read the same way
                        from the preprocessed function body;
 (iii) call sites     - every COAP_API function: lock on entry, unlock before every return, no
                        _lkd call outside the locked region (path enumeration over a small C
                        statement parser); every invocation through an application-callback pointer
                        must sit inside one of the four callback macros.
Everything that does not follow the rule is either listed in an explicit exception table with a
justification and a shape that is re-checked, or reported.

Only the Python standard library is used.  `python3 tools/regen_lock.py [--repo DIR]` prints the
diagnostics as JSON and the generated file."""
import glob
import json
import os
import re
import subprocess
import sys


class TranslatorError(Exception):
    pass


# ----------------------------------------------------------------------------- C lexing

_TOK = re.compile(r"""
    [A-Za-z_]\w*                 |
    0[xX][0-9a-fA-F]+[uUlL]*     |
    \d+\.?\d*(?:[eE][-+]?\d+)?[uUlLfF]* |
    \+\+|--|->|<<=|>>=|<=|>=|==|!=|&&|\|\||\+=|-=|\*=|/=|%=|&=|\|=|\^=|<<|>>|\.\.\. |
    [{}()\[\];,.:?~!%^&*+=|<>/-]
""", re.X)


def strip_comments_strings(src):
    """remove comments, replace string/char literals by "" / ' ' (keeps newlines)"""
    out = []
    i, n = 0, len(src)
    while i < n:
        c = src[i]
        if src.startswith("/*", i):
            j = src.find("*/", i + 2)
            j = n if j < 0 else j + 2
            out.append("\n" * src.count("\n", i, j) or " ")
            i = j
        elif src.startswith("//", i):
            j = src.find("\n", i)
            i = n if j < 0 else j
        elif c == '"' or c == "'":
            j = i + 1
            while j < n and src[j] != c:
                j += 2 if src[j] == "\\" else 1
            out.append('""' if c == '"' else "0")
            i = j + 1
        else:
            out.append(c)
            i += 1
    return "".join(out)


def strip_cpp_lines(src):
    """drop preprocessor lines (with continuations); used on raw sources only"""
    out = []
    cont = False
    for ln in src.split("\n"):
        if cont or ln.lstrip().startswith("#"):
            cont = ln.rstrip().endswith("\\")
            out.append("")
        else:
            out.append(ln)
    return "\n".join(out)


def lex(src):
    return _TOK.findall(src)


# ----------------------------------------------------------------------------- statement parser

class P:
    """Tiny recursive-descent parser: tokens -> statement tree.
    stmt := ('block',[stmt]) | ('if',cond,then,else|None) | ('loop',cond,body) | ('do',body,cond)
          | ('switch',cond,body) | ('return',expr) | ('break',) | ('continue',) | ('goto',label)
          | ('label',name) | ('expr',tokens)"""

    def __init__(self, toks):
        self.t = toks
        self.i = 0

    def peek(self, k=0):
        return self.t[self.i + k] if self.i + k < len(self.t) else None

    def take(self):
        x = self.t[self.i]
        self.i += 1
        return x

    def parens(self):
        assert self.take() == "("
        d, out = 1, []
        while d:
            x = self.take()
            if x == "(":
                d += 1
            elif x == ")":
                d -= 1
                if d == 0:
                    break
            out.append(x)
        return out

    def until_semicolon(self):
        out, d = [], 0
        while True:
            x = self.take()
            if x in "([{":
                d += 1
            elif x in ")]}":
                d -= 1
            elif x == ";" and d == 0:
                return out
            out.append(x)

    def block(self):
        assert self.take() == "{"
        out = []
        while self.peek() != "}":
            out.append(self.stmt())
        self.take()
        return ("block", out)

    def stmt(self):
        x = self.peek()
        if x == "{":
            return self.block()
        if x == "if":
            self.take()
            c = self.parens()
            a = self.stmt()
            b = None
            if self.peek() == "else":
                self.take()
                b = self.stmt()
            return ("if", c, a, b)
        if x in ("while", "for"):
            self.take()
            c = self.parens()
            return ("loop", c, self.stmt())
        if x == "do":
            self.take()
            b = self.stmt()
            assert self.take() == "while"
            c = self.parens()
            assert self.take() == ";"
            return ("do", b, c)
        if x == "switch":
            self.take()
            c = self.parens()
            return ("switch", c, self.stmt())
        if x == "return":
            self.take()
            return ("return", self.until_semicolon())
        if x in ("break", "continue"):
            self.take()
            assert self.take() == ";"
            return (x,)
        if x == "goto":
            self.take()
            lab = self.take()
            assert self.take() == ";"
            return ("goto", lab)
        if x in ("case", "default"):
            while self.take() != ":":
                pass
            return ("label", "case")
        if re.match(r"[A-Za-z_]\w*$", x or "") and self.peek(1) == ":" and self.peek(2) != ":":
            self.take()
            self.take()
            return ("label", x)
        if x == ";":
            self.take()
            return ("expr", [])
        return ("expr", self.until_semicolon())


def parse_body(toks):
    p = P(toks)
    return p.block()


# paths: set of (events tuple, exit) ; exit in fall/ret/brk/cont/goto
MAXPATHS = 20000


def _seq(prefixes, nxt):
    out = set()
    for ev, ex in prefixes:
        if ex != "fall":
            out.add((ev, ex))
        else:
            for ev2, ex2 in nxt:
                out.add((ev + ev2, ex2))
    if len(out) > MAXPATHS:
        raise TranslatorError("too many paths")
    return out


def paths(st, evf, condf=None):
    """evf(tokens) -> tuple of events of an expression (in source order);
    condf(tokens, taken) -> extra events for the branch of an `if` (guards), optional"""
    k = st[0]
    if k == "expr":
        return {(evf(st[1]), "fall")}
    if k == "return":
        return {(evf(st[1]) + ("R",), "ret")}
    if k == "break":
        return {((), "brk")}
    if k == "continue":
        return {((), "cont")}
    if k == "goto":
        return {(("G:" + st[1],), "goto")}
    if k == "label":
        return {((), "fall")}
    if k == "block":
        cur = {((), "fall")}
        for s in st[1]:
            cur = _seq(cur, paths(s, evf, condf))
        return cur
    if k == "if":
        ct = {(evf(st[1]) + (condf(st[1], True) if condf else ()), "fall")}
        cf = {(evf(st[1]) + (condf(st[1], False) if condf else ()), "fall")}
        a = _seq(ct, paths(st[2], evf, condf))
        b = _seq(cf, paths(st[3], evf, condf)) if st[3] is not None else cf
        return a | b
    if k in ("loop", "switch"):
        c = {(evf(st[1]), "fall")}
        body = _seq(c, paths(st[2], evf, condf))
        out = set(c) if k == "loop" else set()
        for ev, ex in body:
            out.add((ev, "fall" if ex in ("brk", "cont", "fall") else ex))
        return out
    if k == "do":
        body = paths(st[1], evf, condf)
        out = set()
        for ev, ex in body:
            if ex in ("fall", "cont"):
                out.add((ev + evf(st[2]), "fall"))
            elif ex == "brk":
                out.add((ev, "fall"))
            else:
                out.add((ev, ex))
        return out
    raise TranslatorError("unknown statement " + k)


def function_paths(body, evf, condf=None):
    """paths of a whole function body; `goto label` continues after a label of the function's
    top-level block (anything else stays marked as exit "goto")"""
    ps = paths(body, evf, condf)
    stmts = body[1]
    labels = {st[1]: i for i, st in enumerate(stmts) if st[0] == "label"}
    for _ in range(6):
        if not any(ex == "goto" for _, ex in ps):
            break
        out = set()
        for ev, ex in ps:
            if ex != "goto":
                out.add((ev, ex))
                continue
            lab = ev[-1][2:]
            if lab not in labels:
                out.add((ev, "unresolved-goto"))
                continue
            cont = paths(("block", stmts[labels[lab] + 1:]), evf, condf)
            for ev2, ex2 in cont:
                out.add((ev[:-1] + ev2, ex2))
        ps = out
        if len(ps) > MAXPATHS:
            raise TranslatorError("too many paths")
    return ps


def find_functions(src_clean, want=None):
    """yield (name, header_text, body_tokens, offset) for function definitions at file level whose
    header matches `want` (regex on the text between the previous ';'/'}' and the '{')"""
    depth = 0
    i, n = 0, len(src_clean)
    last = 0
    while i < n:
        c = src_clean[i]
        if c == "{":
            if depth == 0:
                hdr = src_clean[last:i]
                j = i
                d = 0
                while True:
                    if src_clean[j] == "{":
                        d += 1
                    elif src_clean[j] == "}":
                        d -= 1
                        if d == 0:
                            break
                    j += 1
                m = re.search(r"([A-Za-z_]\w*)\s*\([^{}]*\)\s*$", hdr, re.S)
                if m and "=" not in hdr.split("(")[0] and (want is None or re.search(want, hdr)):
                    yield m.group(1), hdr, lex(src_clean[i:j + 1]), i
                i = j + 1
                last = i
                continue
        elif c in ";}" and depth == 0:
            last = i + 1
        i += 1


# ----------------------------------------------------------------------------- (ii) macro bodies

CPP_COMMON = ["-DNDEBUG", "-DLIBCOAP_VERIF_HOOKS", "-DLIBCOAP_PACKAGE_BUILD=\"verif\"", "-w"]

PROBE = r'''
#include "coap3/coap_libcoap_build.h"
int lkprobe_api(void *LKCTX) { coap_lock_lock(LKCTX, return 0); LKFUNC(); coap_lock_unlock(LKCTX); return 1; }
int lkprobe_keep(void *LKCTX) { coap_lock_callback(LKCTX, LKFUNC()); return 1; }
int lkprobe_keepret(void *LKCTX) { int LKRET; coap_lock_callback_ret(LKRET, LKCTX, LKFUNC()); return 1; }
int lkprobe_rel(void *LKCTX) { coap_lock_callback_release(LKCTX, LKFUNC(), return 0); return 1; }
int lkprobe_relret(void *LKCTX) { int LKRET; coap_lock_callback_ret_release(LKRET, LKCTX, LKFUNC(), return 0); return 1; }
'''


def cpp(repo, cfg, text=None, path=None, cc="gcc", defs=()):
    cmd = [cc, "-E", "-P"] + CPP_COMMON + list(defs) + ["-I" + cfg, "-I" + os.path.join(cfg, "include"),
                                           "-I" + os.path.join(repo, "include"),
                                           "-I" + os.path.join(repo, "src")]
    if text is not None:
        cmd += ["-x", "c", "-"]
    else:
        cmd += [path]
    p = subprocess.run(cmd, input=(text.encode() if text is not None else None),
                       stdout=subprocess.PIPE, stderr=subprocess.PIPE, timeout=120)
    if p.returncode != 0:
        raise TranslatorError("preprocessor failed: " + p.stderr.decode("utf-8", "replace")[-800:])
    return p.stdout.decode("utf-8", "replace")


def _count_after(toks, i):
    """amount of `+= N` / `-= N` at toks[i] (the operator), N an integer literal"""
    if i + 1 < len(toks) and re.match(r"\d+[uUlL]*$", toks[i + 1]):
        return int(re.sub(r"[uUlL]", "", toks[i + 1]))
    raise TranslatorError("in_callback updated by a non-literal amount: " + " ".join(toks[max(0, i - 4):i + 3]))


def lock_events(toks):
    """events of one expression (token list) for the macro probe / the wait scan"""
    ev = []
    i, n = 0, len(toks)
    while i < n:
        t = toks[i]
        if t == "coap_lock_lock_func":
            ev.append("L")
        elif t == "coap_lock_unlock_func":
            ev.append("U")
        elif t == "LKFUNC":
            ev.append("F")
        elif t in ("epoll_wait", "select") and i + 1 < n and toks[i + 1] == "(":
            # a wait; epoll_wait(..., 0) (literal zero timeout) only polls and may run locked
            d, j, last = 0, i + 1, i + 2
            while j < n:
                if toks[j] == "(":
                    d += 1
                elif toks[j] == ")":
                    d -= 1
                    if d == 0:
                        break
                elif toks[j] == "," and d == 1:
                    last = j + 1
                j += 1
            ev.append("P" if (t == "epoll_wait" and toks[last:j] == ["0"]) else "W")
        elif t == "coap_io_do_epoll_lkd" and i + 1 < n and toks[i + 1] == "(":
            ev.append("X")          # the collected events are consumed
        elif t == "lock_count" and i >= 2 and toks[i - 2] == "global_lock":
            raise TranslatorError("macro touches global_lock.lock_count directly")
        elif t == "pid" and i >= 2 and toks[i - 2] == "global_lock":
            # reads of global_lock.pid (coap_lock_check_locked) are fine; writes are not
            if i + 1 < n and toks[i + 1] in ("=", "+=", "-=", "++", "--"):
                raise TranslatorError("macro writes global_lock.pid")
        elif t == "in_callback":
            prev = toks[i - 3] if i >= 3 else None
            nxt = toks[i + 1] if i + 1 < n else None
            if nxt == "++" or prev == "++":
                ev.append("I")
            elif nxt == "--" or prev == "--":
                ev.append("D")
            elif nxt == "+=":
                ev.extend(["I"] * _count_after(toks, i + 1))
            elif nxt == "-=":
                ev.extend(["D"] * _count_after(toks, i + 1))
            elif nxt == "=":
                # x = x + N / x = x - N
                rest = toks[i + 2:i + 8]
                if rest[:3] == ["global_lock", ".", "in_callback"] and len(rest) >= 5 and \
                        rest[3] in "+-" and re.match(r"\d+[uUlL]*$", rest[4]):
                    k = int(re.sub(r"[uUlL]", "", rest[4]))
                    ev.extend(["I" if rest[3] == "+" else "D"] * k)
                    i += 5
                else:
                    raise TranslatorError("unrecognised assignment to in_callback: " + " ".join(toks[max(0, i - 2):i + 8]))
            # plain reads (asserts, conditions) are ignored
        i += 1
    return tuple(ev)


MOP = {"I": "LkMInc", "D": "LkMDec", "U": "LkMUnlock", "L": "LkMLock", "F": "LkMFunc"}


def probe_macros(repo, cfg, defs=()):
    """-> {api,keep,keepret,rel,relret: [mop names]}, diagnostics"""
    out = cpp(repo, cfg, text=PROBE, defs=defs)
    clean = strip_comments_strings(out)
    res, diag = {}, {}
    for name, hdr, toks, _ in find_functions(clean, want=r"lkprobe_\w+"):
        kind = name[len("lkprobe_"):]
        ps = paths(parse_body(toks), lock_events)
        full = sorted(ev for ev, ex in ps if ex == "ret" and ev and ev[-1] == "R" and "F" in ev)
        short = sorted(ev for ev, ex in ps if not ("F" in ev))
        # the path that runs FUNC and reaches the final `return 1`
        mains = set(tuple(e for e in ev if e != "R") for ev in full)
        if len(mains) != 1:
            # FUNC may be lost altogether (macro expands to nothing)
            allp = set(tuple(e for e in ev if e != "R") for ev, ex in ps)
            if len(allp) == 1:
                mains = allp
            else:
                raise TranslatorError("macro %s: no unique path through FUNC: %s" % (kind, sorted(ps)))
        main = list(mains)[0]
        res[kind] = [MOP[e] for e in main]
        diag[kind] = {"main": "".join(main), "other_paths": ["".join(e) for e in short]}
    for k in ("api", "keep", "keepret", "rel", "relret"):
        if k not in res:
            raise TranslatorError("macro probe lost " + k)
    return res, diag


def scan_wait(repo, cfg, defs=()):
    """the unlock / wait / lock of coap_io_process_with_fds_lkd, from the preprocessed source"""
    src = None
    for f in sorted(glob.glob(os.path.join(repo, "src", "*.c"))):
        if re.search(r"^coap_io_process_with_fds_lkd\s*\(", open(f, errors="replace").read(), re.M):
            src = f
            break
    if not src:
        raise TranslatorError("coap_io_process_with_fds_lkd not found")
    clean = strip_comments_strings(cpp(repo, cfg, path=src, defs=defs))
    fn = [x for x in find_functions(clean, want=r"\bcoap_io_process_with_fds_lkd\b")]
    if len(fn) != 1:
        raise TranslatorError("coap_io_process_with_fds_lkd: %d definitions after preprocessing" % len(fn))
    ps = paths(parse_body(fn[0][2]), lock_events)
    segs = set()
    stale = set()
    for ev, ex in ps:
        full = "".join(e for e in ev if e in "ULWPX")
        # events handed to coap_io_do_epoll_lkd must have been collected AFTER the lock was taken
        # again: sockets referenced by events collected while unlocked may have been freed since
        for m in re.finditer(r"X", full):
            before = full[:m.start()]
            k = max(before.rfind("W"), before.rfind("P"))
            if k >= 0 and "L" in before[k:]:
                stale.add(full)
        s = "".join(e for e in full if e in "ULW")
        # the function is entered locked: cut the path at every wait
        for m in re.finditer(r"W+", s):
            before = s[:m.start()]
            after = s[m.end():]
            pre = "U" if before.endswith("U") else ""
            # the path may end (return -1 when the re-lock fails / libcoap stopped) right after a
            # failed coap_lock_lock_func: that still is an L event
            post = "L" if after.startswith("L") else ""
            segs.add(pre + "F" + post)
    if not segs:
        raise TranslatorError("no select()/epoll_wait() found in coap_io_process_with_fds_lkd")
    # all waits must agree; the worst one is reported
    order = ["F", "UF", "FL", "UFL"]
    worst = sorted(segs, key=lambda x: order.index(x))[0]
    return [MOP[e] for e in worst], {"file": os.path.relpath(src, repo), "segments": sorted(segs),
                                     "paths": len(ps), "stale_event_paths": sorted(stale)}


def static_config(repo, cfg, defs=()):
    """What a build with these headers/defines WOULD contain, decided by the preprocessor alone:
    is coap_lock_lock_func defined by src/coap_threadsafe.c, what does
    coap_threadsafe_is_supported() return.  Used for configurations that are not built here
    (COAP_THREAD_RECURSIVE_CHECK, the autoconf configuration) and as a cross-check of the
    built one."""
    ts = strip_comments_strings(cpp(repo, cfg, path=os.path.join(repo, "src", "coap_threadsafe.c"), defs=defs))
    names = [n for n, _, _, _ in find_functions(ts)]
    compiled = "coap_lock_lock_func" in names and "coap_lock_unlock_func" in names
    net = None
    for f in sorted(glob.glob(os.path.join(repo, "src", "*.c"))):
        if re.search(r"^coap_threadsafe_is_supported\s*\(", open(f, errors="replace").read(), re.M):
            net = f
            break
    if not net:
        raise TranslatorError("coap_threadsafe_is_supported not found")
    clean = strip_comments_strings(cpp(repo, cfg, path=net, defs=defs))
    fn = [x for x in find_functions(clean, want=r"\bcoap_threadsafe_is_supported\b")]
    if len(fn) != 1:
        raise TranslatorError("coap_threadsafe_is_supported: %d definitions" % len(fn))
    toks = fn[0][2]
    if len(toks) == 5 and toks[0] == "{" and toks[1] == "return" and toks[3] == ";" and toks[4] == "}" \
            and re.match(r"\d+$", toks[2]):
        reports = int(toks[2]) != 0
    else:
        raise TranslatorError("coap_threadsafe_is_supported has an unexpected body: " + " ".join(toks[:20]))
    return compiled, reports


def ensure_autoconf_cfg(repo, build_dir):
    """Run the repository's second build system (./autogen.sh && ./configure, defaults) on a
    scratch copy and keep the generated coap_config.h + include/coap3/coap_defines.h in
    <build_dir>/accfg/<hash>/ (the hash covers the autoconf inputs, so an edit to them is seen)."""
    import hashlib
    import shutil
    files = [os.path.join(repo, f) for f in ("configure.ac", "autogen.sh", "Makefile.am")]
    files += sorted(glob.glob(os.path.join(repo, "m4", "*")))
    files += sorted(glob.glob(os.path.join(repo, "*.in"))) + \
        sorted(glob.glob(os.path.join(repo, "include", "coap3", "*.in")))
    h = hashlib.sha256()
    for f in files:
        h.update(os.path.relpath(f, repo).encode())
        try:
            h.update(open(f, "rb").read())
        except OSError:
            h.update(b"<missing>")
    d = os.path.join(build_dir, "accfg", h.hexdigest()[:16])
    if os.path.exists(os.path.join(d, "ok")):
        return d
    work = d + ".work"
    shutil.rmtree(work, ignore_errors=True)
    shutil.rmtree(d, ignore_errors=True)
    os.makedirs(work)
    subprocess.run(["rsync", "-a", "--exclude", ".git", "--exclude", "_build", repo + "/", work + "/"],
                   check=True, timeout=300)
    for cmd in (["./autogen.sh"], ["./configure", "--disable-doxygen", "--disable-manpages",
                                    "--disable-examples"]):
        p = subprocess.run(cmd, cwd=work, stdout=subprocess.PIPE, stderr=subprocess.STDOUT, timeout=900)
        if p.returncode != 0:
            raise TranslatorError("autoconf build system: %s failed:\n%s" %
                                  (" ".join(cmd), p.stdout.decode("utf-8", "replace")[-1500:]))
    os.makedirs(os.path.join(d, "include", "coap3"))
    shutil.copy(os.path.join(work, "coap_config.h"), os.path.join(d, "coap_config.h"))
    shutil.copy(os.path.join(work, "include", "coap3", "coap_defines.h"),
                os.path.join(d, "include", "coap3", "coap_defines.h"))
    shutil.rmtree(work, ignore_errors=True)
    open(os.path.join(d, "ok"), "w").write("ok\n")
    return d


def config_only(repo, cfg, api_ok, cb_ok, defs=()):
    """configuration dict of a header set that is not built here (preprocessor only)"""
    macros, mdiag = probe_macros(repo, cfg, defs=defs)
    wait, _ = scan_wait(repo, cfg, defs=defs)
    compiled, reports = static_config(repo, cfg, defs=defs)
    c = dict(macros)
    c["wait"] = wait
    c.update({"compiled": compiled, "reports": reports, "api_ok": api_ok, "cb_ok": cb_ok})
    txt = cpp(repo, cfg, text='#include "coap3/coap_libcoap_build.h"\nLKV_TS COAP_THREAD_SAFE LKV_RC COAP_THREAD_RECURSIVE_CHECK LKV_END\n', defs=defs)
    m = re.search(r"LKV_TS\s+(.*?)\s+LKV_RC\s+(.*?)\s+LKV_END", txt, re.S)
    c["_values"] = {"COAP_THREAD_SAFE": m.group(1) if m else "?", "COAP_THREAD_RECURSIVE_CHECK": m.group(2) if m else "?"}
    return c


# ----------------------------------------------------------------------------- (iii) COAP_API wrappers

CB_MACROS = ("coap_lock_callback", "coap_lock_callback_ret", "coap_lock_callback_release",
             "coap_lock_callback_ret_release")

# Rule for every COAP_API function and every other function that uses the lock macros:
#   * walking each path with the state unlocked/locked (entry state: unlocked, except for *_lkd
#     functions, which are entered locked), L needs unlocked, U needs locked, the path must end in
#     its entry state (no return with the lock held, no double unlock);
#   * a *_lkd call (K) while unlocked is only tolerated on a path guarded by "X is NULL" where X
#     is a field of the object itself (contains ->) or a local assigned from such a field
#     ("the object is not attached to any context, nothing shared to protect").  A guard on a
#     bare, caller-supplied parameter does not count: the lock decision must not depend on what
#     the caller passes (coap_delete_resource(NULL, r) is the documented call form).
#   * paths that take both branches of the same simple test are infeasible and dropped.
LVALUE = re.compile(r"^[A-Za-z_]\w*(?:(?:->|\.)[A-Za-z_]\w*)*$")


def guard_events(toks, taken):
    t = "".join(toks)
    neg = False
    while t.startswith("!"):
        neg = not neg
        t = t[1:]
    if t.startswith("(") and t.endswith(")") and LVALUE.match(t[1:-1]):
        t = t[1:-1]
    m = re.match(r"^(.*?)(==|!=)(NULL|0)$", t)
    if m and LVALUE.match(m.group(1)):
        t = m.group(1)
        if m.group(2) == "==":
            neg = not neg
    if not LVALUE.match(t):
        return ()
    truthy = taken != neg
    return (("T:" if truthy else "F:") + t,)


def derived_locals(toks):
    """identifiers assigned (or initialised) from an expression that dereferences an object:
    x = a->b ... ;"""
    out = set()
    for i in range(1, len(toks) - 3):
        if toks[i] == "=" and re.match(r"[A-Za-z_]\w*$", toks[i - 1]) and toks[i + 1] != "=" and \
                toks[i - 1] not in ("return",) and (i < 2 or toks[i - 2] not in ("->", ".", "=", "!", "<", ">")):
            j = i + 1
            rhs = []
            while j < len(toks) and toks[j] not in (";", ","):
                rhs.append(toks[j])
                j += 1
            if "->" in rhs and "(" not in rhs:
                out.add(toks[i - 1])
    return out


def walk_path(ev, entry_locked, derived):
    """-> (list of problems, list of guards that justify unlocked *_lkd calls)"""
    problems, used = [], []
    locked = entry_locked
    guards_false = []
    seen = {}
    for e in ev:
        if e.startswith("T:") or e.startswith("F:"):
            g = e[2:]
            if g in seen and seen[g] != e[0]:
                return None, None              # infeasible
            seen[g] = e[0]
            if e[0] == "F":
                guards_false.append(g)
        elif e == "L":
            if locked:
                problems.append("lock taken twice")
            locked = True
        elif e == "U":
            if not locked:
                problems.append("unlock without holding the lock")
            locked = False
        elif e == "K":
            if not locked:
                # X->field NULL / local derived from the object NULL: object not attached to a context;
                # coap_started == 0: the library is being started, coap_lock_lock_func() refuses
                # every other caller until then
                just = [g for g in guards_false if "->" in g or g in derived or g == "coap_started"]
                if just:
                    used.append(just[-1])
                else:
                    problems.append("*_lkd function called without the lock" +
                                    (" (guarded only by the caller-supplied %s)" % ", ".join(guards_false)
                                     if guards_false else ""))
        elif e == "I":
            # (re-)initialising global_lock is only allowed once, before the library is started:
            # coap_startup() is documented to ignore repeated calls, and another thread may own
            # the mutex by then
            if seen.get("coap_started") != "F":
                problems.append("global_lock (re-)initialised without a preceding 'coap_started already set -> return' guard")
        elif e in ("R", "E"):
            if locked != entry_locked:
                problems.append("returns with the lock %s" % ("held" if locked else "released"))
        elif e.startswith("G:") or e == "?":
            problems.append("control flow not understood (%s)" % e)
    return problems, used


def api_events(toks):
    ev = []
    i, n = 0, len(toks)
    while i < n:
        t = toks[i]
        if i + 1 < n and toks[i + 1] == "(" and re.match(r"[A-Za-z_]\w*$", t):
            if t in ("coap_lock_lock", "coap_lock_unlock") or t in CB_MACROS or t == "coap_lock_invert":
                # skip the macro arguments (the `failed` argument holds a return statement)
                d, j = 0, i + 1
                while True:
                    if toks[j] == "(":
                        d += 1
                    elif toks[j] == ")":
                        d -= 1
                        if d == 0:
                            break
                    j += 1
                ev.append({"coap_lock_lock": "L", "coap_lock_unlock": "U"}.get(t, "K"))
                i = j + 1
                continue
            if t.endswith("_lkd") or t.endswith("_locked"):
                ev.append("K")
            if t == "coap_lock_init":
                ev.append("I")
        i += 1
    return tuple(ev)


def scan_api(repo, compiled_srcs=()):
    """-> (ok, records).  Every COAP_API function of every src/*.c (raw source, all back-ends, all
    #if branches) and every other function of the compiled sources that uses coap_lock_lock /
    coap_lock_unlock."""
    recs = []
    ok = True
    compiled = set(compiled_srcs)
    for f in sorted(glob.glob(os.path.join(repo, "src", "*.c"))):
        rel = os.path.relpath(f, repo)
        raw = open(f, errors="replace").read()
        if "COAP_API" not in raw and not (rel in compiled and "coap_lock_" in raw):
            continue
        clean = strip_cpp_lines(strip_comments_strings(raw))
        try:
            funcs = list(find_functions(clean))
        except IndexError:
            if rel in compiled or "COAP_API" in raw:
                recs.append({"file": rel, "name": "*", "verdict": "unparsed", "detail": "unbalanced braces"})
                ok = False
            continue
        for name, hdr, toks, off in funcs:
            is_api = re.search(r"\bCOAP_API\b", hdr) is not None
            uses = "coap_lock_lock" in toks or "coap_lock_unlock" in toks or "coap_lock_init" in toks
            if not is_api and not (uses and rel in compiled):
                continue
            entry_locked = (not is_api) and name.endswith("_lkd")
            try:
                ps = function_paths(parse_body(toks), api_events, guard_events)
            except (TranslatorError, AssertionError, IndexError) as e:
                recs.append({"file": rel, "name": name, "verdict": "unparsed", "detail": str(e)})
                ok = False
                continue
            derived = derived_locals(toks)
            shapes, problems, guards = set(), [], set()
            for ev, ex in ps:
                ev = ev + (("E",) if ex == "fall" else () if ex == "ret" else ("?",))
                pr, used = walk_path(ev, entry_locked, derived)
                if pr is None:
                    continue
                shape = "".join(e for e in ev if len(e) == 1)
                shapes.add(shape)
                guards |= set(used)
                for x in pr:
                    problems.append("%s on path %s" % (x, shape))
            rec = {"file": rel, "name": name, "api": is_api, "paths": sorted(shapes)}
            if problems:
                rec["verdict"] = "bad"
                rec["problems"] = sorted(set(problems))
                ok = False
            elif not any("L" in x or "U" in x for x in shapes) and not any("I" in x for x in shapes):
                rec["verdict"] = "no-lock-needed" if not any("K" in x for x in shapes) else "bad"
                if rec["verdict"] == "bad":
                    ok = False
            elif guards:
                rec["verdict"] = "guarded"
                rec["guards"] = sorted(guards)
                rec["why"] = "*_lkd called without the lock only where %s is NULL: the object is not attached to a context" % " / ".join(sorted(guards))
            else:
                rec["verdict"] = "ok"
            recs.append(rec)
    if sum(1 for r in recs if r["verdict"] == "ok") < 20:
        ok = False      # the scan lost the wrappers altogether
    return ok, recs


# ----------------------------------------------------------------------------- (iii) callback sites

# callback kinds named by the property: request / response / NACK / event / ping / pong handlers
PROPERTY_TYPES = {"coap_method_handler_t", "coap_response_handler_t", "coap_nack_handler_t",
                  "coap_event_handler_t", "coap_ping_handler_t", "coap_pong_handler_t"}
# function-pointer types that are not application callbacks of the protocol engine
IGNORED_TYPES = {
    "coap_layer_read_t": "internal protocol layer table, not an application callback",
    "coap_layer_write_t": "internal protocol layer table",
    "coap_layer_establish_t": "internal protocol layer table",
    "coap_layer_close_t": "internal protocol layer table",
    "coap_log_handler_t": "log sink; called from coap_log_impl with or without the lock, must not call the API",
    "coap_rand_func_t": "PRNG source, documented as a leaf function",
    "coap_lwip_input_wait_handler_t": "lwIP port only (not compiled here)",
}
# invocations outside a macro that are tolerated, with the reason; anything else is reported.
# None of these is one of the callback kinds the property names.
CB_EXCEPTIONS = {
    ("src/coap_resource.c", "resource_deleted"): "persist tracking hook (coap_persist_track_funcs); runs locked without in_callback, must not call the API; not a callback kind of C13",
    ("src/coap_resource.c", "observe_deleted"): "persist tracking hook; as above",
    ("src/coap_resource.c", "observe_added"): "persist tracking hook; as above",
    ("src/coap_resource.c", "dyn_resource_added"): "persist tracking hook; as above",
    ("src/coap_resource.c", "track_observe_value"): "persist tracking hook; as above",
    ("src/coap_oscore.c", "save_seq_num_func"): "OSCORE sequence-number persistence hook; runs locked, must not call the API; not a callback kind of C13",
    ("src/coap_gnutls.c", "additional_tls_setup_call_back"): "TLS set-up hook, called while the session is created; not a callback kind of C13",
    ("src/coap_gnutls.c", "validate_id_call_back"): "server PSK identity hook: invoked locked but outside coap_lock_callback_ret in every TLS back-end (the other PSK/PKI hooks are wrapped); an application calling a COAP_API function from it would block on itself; not a callback kind of C13 - reported as an observation in notes/C13.md",
}
# invocations of a property callback type that are not application callbacks: (file, ident) ->
# (text that must occur in the 400 characters before the call, reason); at most one such site
CB_INTERNAL = {
    ("src/coap_net.c", "h"): ("resource == &resource_uri_wellknown",
                              "the handler of the built-in /.well-known/core pseudo resource is library code (hnd_get_wellknown_lkd), deliberately run with the lock kept"),
}


def callback_idents(repo):
    hdr = "".join(open(f, errors="replace").read()
                  for f in sorted(glob.glob(os.path.join(repo, "include", "coap3", "*.h"))))
    hdr = strip_comments_strings(hdr)
    tds = set(re.findall(r"typedef\s+[^;{}]*?\(\s*\*\s*(coap_\w+)\s*\)\s*\(", hdr))
    ids = {}
    files = sorted(glob.glob(os.path.join(repo, "include", "coap3", "*.h")) +
                   glob.glob(os.path.join(repo, "src", "*.c")))
    for f in files:
        s = strip_comments_strings(open(f, errors="replace").read())
        for t in tds:
            for m in re.finditer(r"\b" + t + r"\s+(\w+)\s*(?:\[[^\]]*\])?\s*[;,)=]", s):
                ids.setdefault(m.group(1), set()).add(t)
    return tds, ids


def scan_callbacks(repo, compiled_srcs):
    tds, ids = callback_idents(repo)
    sites = []
    ok = True
    missing_types = PROPERTY_TYPES - tds
    if missing_types:
        ok = False
    for rel in compiled_srcs:
        f = os.path.join(repo, rel)
        raw = open(f, errors="replace").read()
        s = strip_comments_strings(raw)
        # spans of the callback macro invocations
        spans = []
        for m in re.finditer(r"\b(coap_lock_callback(?:_ret)?(?:_release)?)\s*\(", s):
            d, j = 0, m.end() - 1
            while True:
                if s[j] == "(":
                    d += 1
                elif s[j] == ")":
                    d -= 1
                    if d == 0:
                        break
                j += 1
            spans.append((m.start(), j, m.group(1)))
        for ident, types in ids.items():
            ts = types - set(IGNORED_TYPES)
            if not ts:
                continue
            # a call through the pointer: x->ident(...), x.ident(...), ident(...), ident[...](...)
            for m in re.finditer(r"(->|\.)?\s*\b" + re.escape(ident) + r"\s*(\[[^\]]*\])?\s*\(", s):
                member = m.group(1) is not None
                start = m.start()
                if not member:
                    # a bare identifier: only when it is a local variable / parameter of a callback
                    # type in this file (not a function of that name, not a declaration)
                    if not re.search(r"\b(?:%s)\s+%s\b" % ("|".join(sorted(ts)), re.escape(ident)), s):
                        continue
                    pre = s[max(0, start - 80):start]
                    if re.search(r"\b(?:%s)\s*$" % "|".join(sorted(tds)), pre):
                        continue          # declaration
                    if re.search(r"[\w)]\s*$", pre) and not re.search(r"\b(return|else)\s*$", pre):
                        continue          # part of a longer declarator / cast
                line = s.count("\n", 0, start) + 1
                inside = [sp for sp in spans if sp[0] < start < sp[1]]
                site = {"file": rel, "line": line, "ident": ident, "types": sorted(ts),
                        "macro": inside[0][2] if inside else None}
                internal = CB_INTERNAL.get((rel, ident))
                if inside:
                    site["verdict"] = "wrapped"
                elif internal and internal[0] in s[max(0, start - 400):start] and \
                        not any(x["verdict"] == "internal" and x["file"] == rel and x["ident"] == ident
                                for x in sites):
                    site["verdict"] = "internal"
                    site["why"] = internal[1]
                elif ts & PROPERTY_TYPES:
                    site["verdict"] = "UNWRAPPED-property-callback"
                    ok = False
                elif (rel, ident) in CB_EXCEPTIONS:
                    site["verdict"] = "exception"
                    site["why"] = CB_EXCEPTIONS[(rel, ident)]
                else:
                    site["verdict"] = "UNWRAPPED-unlisted"
                    ok = False
                sites.append(site)
    # each property callback kind must be seen wrapped at least once (else the scan went blind)
    seen = set()
    for st in sites:
        if st["verdict"] == "wrapped":
            seen |= set(st["types"])
    blind = sorted(PROPERTY_TYPES - seen)
    if blind:
        ok = False
    return ok, sites, {"blind": blind, "missing_types": sorted(missing_types)}


# ----------------------------------------------------------------------------- rendering

def coq_list(xs):
    return "[" + "; ".join(xs) + "]"


def _render_one(name, c):
    b = lambda x: "true" if x else "false"
    return """Definition %s : lk_cfg :=
  {| lk_compiled := %s;
     lk_reports := %s;
     lk_m_api := %s;
     lk_m_keep := %s;
     lk_m_keepret := %s;
     lk_m_rel := %s;
     lk_m_relret := %s;
     lk_m_wait := %s;
     lk_api_ok := %s;
     lk_cb_ok := %s |}.
""" % (name, b(c["compiled"]), b(c["reports"]), coq_list(c["api"]), coq_list(c["keep"]),
       coq_list(c["keepret"]), coq_list(c["rel"]), coq_list(c["relret"]), coq_list(c["wait"]),
       b(c["api_ok"]), b(c["cb_ok"]))


def render(c, c_rc=None, c_ac=None):
    """c: the configuration the library is built with here (cmake defaults);
    c_rc: the same tree with COAP_THREAD_RECURSIVE_CHECK=1 (what the autoconf build enables by
    default): the other variant of every lock macro and of the lock functions"""
    txt = """(* GENERATED by tools/regen_lock.py from the source tree and its build configuration - do not edit.
   Rewritten on every run of `tools/check.py C13` when the content changes. *)
From Coq Require Import List.
Import ListNotations.
From LibcoapV Require Import Lock.LockModel.

""" + _render_one("lk_gen_cfg", c)
    if c_rc is not None:
        txt += "\n(* the COAP_THREAD_RECURSIVE_CHECK variant of the macros (preprocessor only, not built) *)\n" + \
            _render_one("lk_gen_cfg_rc", c_rc)
    if c_ac is not None:
        txt += "\n(* the configuration produced by the second build system: ./autogen.sh && ./configure\n" \
               "   (COAP_THREAD_SAFE = %s, COAP_THREAD_RECURSIVE_CHECK = %s; preprocessor only, not built) *)\n" % \
               (c_ac["_values"]["COAP_THREAD_SAFE"], c_ac["_values"]["COAP_THREAD_RECURSIVE_CHECK"]) + \
            _render_one("lk_gen_cfg_autoconf", c_ac)
    return txt


CANON = {"api": ["LkMLock", "LkMFunc", "LkMUnlock"],
         "keep": ["LkMInc", "LkMFunc", "LkMDec"], "keepret": ["LkMInc", "LkMFunc", "LkMDec"],
         "rel": ["LkMUnlock", "LkMFunc", "LkMLock"], "relret": ["LkMUnlock", "LkMFunc", "LkMLock"],
         "wait": ["LkMUnlock", "LkMFunc", "LkMLock"]}


RC_DEFS = ("-DCOAP_THREAD_RECURSIVE_CHECK=1",)


def translate(repo, cfg, compiled_srcs, compiled, reports, ac_cfg=None):
    """-> (cfg dict, diagnostics dict); diag["rc"] = the RECURSIVE_CHECK variant of the cmake
    configuration, diag["ac"] = the configuration produced by autogen.sh+configure (when given)"""
    macros, mdiag = probe_macros(repo, cfg)
    wait, wdiag = scan_wait(repo, cfg)
    api_ok, api = scan_api(repo, compiled_srcs)
    cb_ok, sites, cbdiag = scan_callbacks(repo, compiled_srcs)
    if wdiag["stale_event_paths"]:
        api_ok = False
    c = dict(macros)
    c["wait"] = wait
    c.update({"compiled": bool(compiled), "reports": bool(reports), "api_ok": api_ok, "cb_ok": cb_ok})
    st_compiled, st_reports = static_config(repo, cfg)
    rc = config_only(repo, cfg, api_ok, cb_ok, defs=RC_DEFS)
    ac = config_only(repo, ac_cfg, api_ok, cb_ok) if ac_cfg else None
    diag = {"macros": mdiag, "wait": wdiag, "rc": rc, "ac": ac,
            "static": {"compiled": st_compiled, "reports": st_reports},
            "api": {"ok": api_ok, "functions": len(api),
                    "by_verdict": _hist(r["verdict"] for r in api),
                    "not_ok": [r for r in api if r["verdict"] not in ("ok", "no-lock-needed")],
                    "bad": [r for r in api if r["verdict"] in ("bad", "unparsed")]},
            "callbacks": {"ok": cb_ok, "sites": len(sites), "by_verdict": _hist(s["verdict"] for s in sites),
                          "not_wrapped": [s for s in sites if s["verdict"] != "wrapped"], **cbdiag},
            "api_all": api, "sites_all": sites}
    return c, diag


def _hist(it):
    h = {}
    for x in it:
        h[x] = h.get(x, 0) + 1
    return h


def differences(c, label=""):
    """human-readable list of what deviates from the canonical discipline"""
    out = []
    if not c["compiled"]:
        out.append("coap_lock_lock_func is not compiled into the library (no locking)")
    if c["reports"] != c["compiled"]:
        out.append("coap_threadsafe_is_supported() returns %d but locking compiled in = %d"
                   % (c["reports"], c["compiled"]))
    for k in ("api", "keep", "keepret", "rel", "relret", "wait"):
        if c[k] != CANON[k]:
            out.append("macro %s expands to %s, expected %s" % (k, c[k], CANON[k]))
    if not c["api_ok"]:
        out.append("a COAP_API function does not lock on entry / unlock on every return path")
    if not c["cb_ok"]:
        out.append("an application callback is invoked outside the lock macros")
    return [label + x for x in out]


if __name__ == "__main__":
    sys.path.insert(0, os.path.dirname(os.path.abspath(__file__)))
    import vlib
    cfgd = vlib.ensure_cfg()
    srcs = vlib.lib_sources(cfgd)
    acd = ensure_autoconf_cfg(vlib.REPO, vlib.BUILD)
    c, d = translate(vlib.REPO, cfgd, srcs, True, True, ac_cfg=acd)
    d.pop("api_all")
    d.pop("sites_all")
    rc = d.pop("rc")
    ac = d.pop("ac")
    if "--gen" not in sys.argv:
        print(json.dumps(d, indent=1))
    print(render(c, rc, ac))
    if "--gen" not in sys.argv:
        print(differences(c), differences(rc, "[RECURSIVE_CHECK] "), differences(ac, "[autoconf] "))

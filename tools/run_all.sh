#!/bin/bash
# run_all.sh [tier] : every claimed check once, sequentially, against /repo; summary at the end
T=${1:-quick}
cd /verif
for p in $(python3 -c "import json;print(' '.join(c['property_id'] for c in json.load(open('MANIFEST.json'))['checks']))"); do
  s=$(date +%s)
  python3 tools/check.py $p --tier $T > .build/all.$p.out 2> .build/all.$p.err; rc=$?
  e=$(date +%s)
  echo "$p rc=$rc wall=$((e-s))s viol=$(grep -c '^VIOLATION' .build/all.$p.out) known=$(grep -c '^KNOWN-FINDING' .build/all.$p.out)"
done

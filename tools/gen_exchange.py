"""C07 - case generators and trace analysis for the exchange checks.

Two kinds of case lines (formats: harness/h_exchange.c, ocaml/d_exchange.ml):
  exc ...   explicit client inputs from a scripted peer; model and library run the same line
  exe ...   discrete-event run of whole exchanges against a real libcoap server or a scripted
            RFC 7252 server; the library's observed client inputs are replayed on the model
"""
import itertools

MAXR = 4
STYLES = [0, 1, 2, 3, 4]      # p c n a b
EXE_STYLES = [0, 1, 2, 3, 4, 5, 6]   # + u v: coap_register_async(.., 0) and a later coap_async_trigger()
STYLE_NAMES = {0: "piggybacked", 1: "separate CON from handler", 2: "separate NON from handler",
               3: "async CON", 4: "async NON"}


# ------------------------------------------------------------------ exc: scripted peer
def exc_line(inputs, maxr=MAXR, mid0=100, tok0=0):
    return "exc %d %d %d %s" % (maxr, mid0, tok0, " ".join(inputs))


def templates():
    """(name, inputs): adversarial timings of an honest peer; every one is a behaviour of a
    server + network within the property's quantifier (loss, duplication, delay)."""
    T = []
    for v in (1, 0):
        T.append(("piggybacked v=%d" % v, ["S0", "R:ar:m0:k0:%d" % v]))
        T.append(("piggybacked after 2 retransmissions, response duplicated v=%d" % v,
                  ["S0", "T", "T", "R:ar:m0:k0:%d" % v, "R:ar:m0:k0:%d" % v, "T"]))
        T.append(("empty ACK lost + separate response v=%d" % v,
                  ["S1", "T", "R:cr:7:k0:%d" % v, "T", "T"]))
        T.append(("empty ACK then separate response; its ACK lost, server retransmits v=%d" % v,
                  ["S1", "R:ae:m0:0:1", "R:cr:7:k0:%d" % v, "R:cr:7:k0:%d" % v, "R:cr:7:k0:%d" % (1 - v), "T"]))
        T.append(("duplicated empty ACK after the response v=%d" % v,
                  ["S1", "R:ae:m0:0:1", "R:cr:7:k0:%d" % v, "R:ae:m0:0:1", "T"]))
        T.append(("separate response overtakes the empty ACK v=%d" % v,
                  ["S1", "R:cr:7:k0:%d" % v, "R:ae:m0:0:1", "T"]))
        T.append(("duplicated piggybacked ACK after the response v=%d" % v,
                  ["S0", "R:ar:m0:k0:%d" % v, "R:ar:m0:k0:1", "R:ar:m0:k0:0", "T"]))
        T.append(("separate NON response duplicated v=%d" % v,
                  ["S2", "R:ae:m0:0:1", "R:nr:9:k0:%d" % v, "R:nr:9:k0:%d" % v]))
        T.append(("NON response, empty ACK lost v=%d" % v, ["S2", "T", "R:nr:9:k0:%d" % v, "T", "T"]))
        T.append(("two exchanges, second separate v=%d" % v,
                  ["S0", "R:ar:m0:k0:1", "S1", "R:ae:m0:0:1", "R:cr:8:k0:%d" % v, "R:cr:8:k0:1",
                   "S0", "R:ar:m0:k0:%d" % v]))
        T.append(("FAIL then piggybacked then duplicate of the CON v=%d" % v,
                  ["S1", "R:ae:m0:0:1", "R:cr:7:k0:%d" % v, "S0", "R:ar:m0:k0:1", "R:cr:7:k1:1"]))
        T.append(("FAIL on NON then duplicate of the CON v=%d" % v,
                  ["S1", "R:ae:m0:0:1", "R:cr:7:k0:1", "S2", "R:ae:m0:0:1", "R:nr:9:k0:%d" % v,
                   "R:cr:7:k1:1"]))
    T.append(("five transmissions then NACK", ["S0", "T", "T", "T", "T", "T", "T"]))
    T.append(("reset", ["S0", "R:rs:m0:0:1", "T"]))
    T.append(("reset for nothing", ["R:rs:55:0:1", "S0", "R:rs:55:0:1", "R:ar:m0:k0:1"]))
    T.append(("empty ACK for nothing", ["R:ae:55:0:1", "S0", "R:ae:55:0:1", "T", "R:ar:m0:k0:1"]))
    T.append(("NACK then next exchange", ["S0", "T", "T", "T", "T", "T", "S1", "R:ae:m0:0:1", "R:cr:7:k0:1"]))
    T.append(("send while outstanding is skipped", ["S0", "S1", "R:ar:m0:k0:1", "S1"]))
    T.append(("late duplicate after the next exchange (ACK)", ["S0", "R:ar:m0:k0:1", "S0", "R:ar:m0:k0:1", "R:ar:m1:k1:1"]))
    T.append(("late duplicate after the next exchange (CON)",
              ["S1", "R:ae:m0:0:1", "R:cr:7:k0:1", "S1", "R:ae:m0:0:1", "R:cr:8:k0:1", "R:cr:7:k1:1"]))
    T.append(("second separate response with a new mid", ["S1", "T", "R:cr:7:k0:1", "R:cr:8:k0:1"]))
    T.append(("NON with the mid of the outstanding request", ["S2", "R:ae:m0:0:1", "R:nr:101:k0:1", "S0", "R:nr:102:k1:1", "T"]))
    return T


def random_exc(r, honest=True, maxr=MAXR):
    """a random input sequence; honest: the peer only refers to requests that were sent, a
    response carries the token of the request it answers and server mids are tied to it.
    The generator mirrors whether the send queue is occupied (a send is skipped then), so that
    m<j>/k<j> always name requests that exist."""
    n = r.choice([3, 5, 8, 12, 20, 30])
    ins = []
    nsent = 0
    q = None            # index of the queued request, retransmit count
    gone = set()        # requests that ended in a NACK
    for _ in range(n):
        x = r.random()
        if nsent == 0 or x < 0.22:
            ins.append("S%d" % r.choice(STYLES))
            if q is None:
                q = [nsent, 0]
                nsent += 1
            continue
        if x < 0.40:
            ins.append("T")
            if q is not None:
                if q[1] < maxr:
                    q[1] += 1
                else:
                    gone.add(q[0])
                    q = None
            continue
        j = r.choice([0, 0, 0, 0, 1, 1, 2]) if nsent > 1 else 0
        j = min(j, nsent - 1)
        idx = nsent - 1 - j
        v = r.choice([1, 1, 1, 0])
        kind = r.choice(["ae", "ar", "cr", "cr", "nr", "rs"] if r.random() < 0.25 else ["ae", "ar", "cr", "cr", "nr"])
        if honest and (idx in gone):
            # the client gave up on this request (NACK) or the peer reset it: an honest server
            # whose response is still under way within the delay bound does not exist
            kind = "ae"
        if honest and kind == "rs" and r.random() < 0.7:
            kind = "ae"
        if honest:
            # server mids 1000+10*idx+variant
            smid = 1000 + 10 * idx + r.choice([0, 0, 0, 1])
            if kind in ("ae", "rs"):
                ins.append("R:%s:m%d:0:1" % (kind, j))
                if kind == "rs":
                    gone.add(idx)
            elif kind == "ar":
                ins.append("R:ar:m%d:k%d:%d" % (j, j, v))
            else:
                ins.append("R:%s:%d:k%d:%d" % (kind, smid, j, v))
            if q is not None and q[0] == idx:
                q = None
        else:
            mid = r.choice(["m0", "m1", "m0", "7", "8", "101", "102", "65535", "0"])
            tok = r.choice(["k0", "k1", "k0", "1", "2", "3", "0", "77"])
            ins.append("R:%s:%s:%s:%d" % (kind, mid, tok, v))
            q = q if r.random() < 0.5 else None     # unknown: later sends may be skipped, harmless
    return ins


# ------------------------------------------------------------------ exe: whole exchanges
# initial tx_token values: the first token is tok0 + 1.  -1: zero-length token first, then 1 byte;
# 254: 1 byte then 2 bytes; 2^56 - 2: 7 bytes then 8 bytes
TOK0S = [0, -1, 254, 72057594037927934]


def exe_line(kind, reqs, fates, seed=12345, cmid0=100, smid0=-1, adelay=300, dflt=3, nstart=0, method=1, tok0=0):
    q = " ".join("%d:%d:%d" % (s, ok, th) for (s, ok, th) in reqs)
    return "exe K %s P %d M %d %d T %d A %d E %d N %d H %d Q %s F %s" % (
        kind, seed, cmid0, smid0, tok0, adelay, dflt, nstart, method, q, " ".join(fates))


def exhaustive_fates(n, dup_delay):
    """every assignment deliver / lose / duplicate to the first n datagrams"""
    opts = ["0", "x", "0+%d" % dup_delay]
    for combo in itertools.product(opts, repeat=n):
        yield list(combo)


def random_fates(r, n, heavy=False):
    """heavy: most datagrams are lost, so that the deep retransmission / give-up paths are reached"""
    out = []
    for _ in range(n):
        x = r.random()
        if heavy and x < 0.72:
            out.append("x")
            continue
        x = r.random()
        d = r.choice([0, 0, 1, 3, 50, 700, 1500, 1999])
        if x < 0.28:
            out.append("x")
        elif x < 0.48:
            d2 = r.choice([0, 1, 40, 900, 1999])
            out.append("%d+%d" % (min(d, d2), max(d, d2)))
        elif x < 0.52:
            out.append("%d+%d+%d" % (0, r.choice([5, 600]), 1999))
        else:
            out.append(str(d))
    return out


# ------------------------------------------------------------------ parsing
def parse_steps(s):
    """'<in> > <outs> | ...' -> list of (input, [outs])"""
    s = s.strip()
    if not s:
        return []
    out = []
    for st in s.split(" | "):
        i, _, o = st.partition(" > ")
        o = o.strip()
        out.append((i.strip(), [] if o == "-" else o.split(",")))
    return out


def fmt_steps(steps):
    return " | ".join("%s > %s" % (i, ",".join(o) if o else "-") for (i, o) in steps)


def parse_exe(line):
    parts = line.split(" || ")
    if len(parts) not in (4, 5):
        return None
    steps = parse_steps(parts[0])
    times = [int(x) for x in parts[1][len("times="):].split(",") if x]
    log = []
    for e in parts[2][len("log="):].split():
        f = e.split("/")
        log.append({"i": int(f[0]), "t": int(f[1]), "side": f[2], "d": f[3],
                    "deliv": [] if f[4] == "x" else [int(x) for x in f[4].split("+")]})
    end = {}
    for kv in parts[3].split():
        k, _, v = kv.partition("=")
        end[k] = v
    reqs = []
    for e in end.get("reqs", "").split(","):
        if e:
            tok, mid, nresp, nnack = e.split(":")
            reqs.append({"tok": int(tok), "mid": int(mid), "nresp": int(nresp), "nnack": int(nnack)})
    end["reqs"] = reqs
    srv = None
    if len(parts) == 5 and parts[4].startswith("srv="):
        first, _, rest = parts[4][4:].partition(" ")
        srv = (int(first), rest.strip())
    return {"steps": steps, "times": times, "log": log, "end": end, "srv": srv}


def rx_fields(inp):
    """'R:cr:7:2:1' -> (kind, mid, tok, ok)"""
    f = inp.split(":")
    return f[1], int(f[2]), int(f[3]), int(f[4])


# ------------------------------------------------------------------ classification of judge failures
def explain_redelivery(steps, pos):
    """The judge stopped at step pos with code 2 (a token concluded twice).  Decide which
    shape it is.  Returns (cls, text):
      'slot'      a duplicate (same message type and mid as the first delivery for the token) was
                  delivered again after a response of the same type with another mid had been
                  handled in between (single-slot filter last_con_mid / last_ack_mid overwritten)
      'newmid'    a second response message for the same token (other mid or other type) was
                  delivered: the client matches responses by mid only
      'both'      NACK and response for the same token
      'other'     anything else (e.g. the same mid delivered twice in a row)"""
    inp, outs = steps[pos]
    if not inp.startswith("R:") or inp.startswith("R:rs"):
        ntok = [int(o.split(":")[1]) for o in outs if o.startswith("nack:")]
        prev = [o for j in range(pos) for o in steps[j][1]
                if ntok and ((o.startswith("nack:") and int(o.split(":")[1]) == ntok[0]) or
                             (o.startswith("resp:") and int(o.split(":")[3]) == ntok[0] and o.split(":")[1] != "1"))]
        return "both", "NACK for token %s which had already concluded (%s)" % (ntok[:1], ",".join(prev[:2]))
    kind, mid, tok, _ = rx_fields(inp)
    first = None
    for j in range(pos):
        i2, o2 = steps[j]
        for o in o2:
            f = o.split(":")
            if f[0] == "resp" and int(f[3]) == tok and f[1] != "1" and first is None:
                first = (j, int(f[1]), int(f[2]))
            if f[0] == "nack" and int(f[1]) == tok and first is None:
                return "both", "response handled after the NACK for token %d" % tok
    if first is None:
        return "other", "no earlier conclusion found"
    j0, ty0, mid0 = first
    ty = {"cr": 0, "ar": 2}.get(kind, -1)
    if ty != ty0 or mid != mid0:
        return "newmid", ("token %d: response type %d mid %d handled at step %d, another response "
                          "type %d mid %d handled at step %d" % (tok, ty0, mid0, j0, ty, mid, pos))
    for j in range(j0 + 1, pos):
        i2, o2 = steps[j]
        if i2.startswith("R:%s:" % kind):
            k2, m2, _, _ = rx_fields(i2)
            if m2 != mid:
                return "slot", ("token %d: mid %d delivered at step %d and again at step %d after "
                                "mid %d (same type) was handled at step %d" % (tok, mid, j0, pos, m2, j))
    return "other", "token %d: mid %d delivered at steps %d and %d with nothing in between" % (tok, mid, j0, pos)


def double_conclusions(steps):
    """positions of the steps in which a token concludes (handler call for a piggybacked or
    Confirmable response, NACK) that had concluded before"""
    done = set()
    out = []
    for pos, (inp, outs) in enumerate(steps):
        for o in outs:
            f = o.split(":")
            tok = None
            if f[0] == "resp" and f[1] != "1":
                tok = int(f[3])
            elif f[0] == "nack":
                tok = int(f[1])
            if tok is not None:
                if tok in done:
                    out.append(pos)
                done.add(tok)
    return out


def server_shape_errors(srv_steps):
    """The steps observed at the real server ('X:<datagram> > <sent>' / 'TS > <sent>').  What a
    libcoap server with the harness's handlers may send in direct answer to a request datagram
    is fixed by the style: 0: the piggybacked response; 1: the separate CON response + the empty
    ACK (only the ACK when NSTART holds the response back); 2: the NON response + the empty ACK;
    3/4 (coap_register_async, timed or untimed): nothing but the empty ACK - the response comes
    from the timer / trigger, never from a request datagram, in particular not from a
    retransmission that arrives while the async entry is pending."""
    errs = []
    if not srv_steps:
        return errs
    for st in srv_steps.split(" | "):
        inp, _, outs = st.partition(" > ")
        outs = [] if outs.strip() == "-" else outs.strip().split(",")
        kinds = [o.split(":")[0] for o in outs]
        if inp.startswith("X:req:"):
            _, _, m, k, sty = inp.split(":")
            ok = {"0": kinds == ["ackr"], "1": kinds in (["conr", "ack"], ["ack"]),
                  "2": kinds == ["nonr", "ack"]}.get(sty, kinds == ["ack"])
            for o in outs:
                f = o.split(":")
                if f[0] == "ack" and f[1] != m:
                    ok = False
                if f[0] in ("ackr", "conr", "nonr") and f[2] != k:
                    ok = False
                if f[0] == "ackr" and f[1] != m:
                    ok = False
            if not ok:
                errs.append(st)
        elif inp.startswith("X:"):
            # an ACK / RST of the client may release a CON response that NSTART held back
            if any(x != "conr" for x in kinds):
                errs.append(st)
        elif any(x not in ("conr", "nonr") for x in kinds):
            errs.append(st)
    return errs

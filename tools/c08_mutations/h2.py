from edit import edit
# H2 (harmless): ACK branch rewritten with nested ifs and a local
edit('src/coap_net.c','''    if (sent && session->con_active) {
      session->con_active--;
      if (session->state == COAP_SESSION_STATE_ESTABLISHED)
        /* Flush out any entries on session->delayqueue */
        coap_session_connected(session);
    }
    if (coap_option_check_critical(session, pdu, &opt_filter) == 0) {''','''    if (sent) {
      uint8_t active = session->con_active;
      if (active != 0) {
        session->con_active = (uint8_t)(active - 1);
        if (!(session->state != COAP_SESSION_STATE_ESTABLISHED))
          coap_session_connected(session);
      }
    }
    if (coap_option_check_critical(session, pdu, &opt_filter) == 0) {''')

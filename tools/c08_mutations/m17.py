from edit import edit
# M17: revert of adf1662 (the RST defect as found)
edit('src/coap_net.c','''    /* find message id in sendqueue to stop retransmission */
    coap_remove_from_queue(&context->sendqueue, session, pdu->mid, &sent);

    if (sent && sent->pdu->type == COAP_MESSAGE_CON && session->con_active) {
      session->con_active--;
      if (session->state == COAP_SESSION_STATE_ESTABLISHED)
        /* Flush out any entries on session->delayqueue */
        coap_session_connected(session);
    }
''','''    if (session->con_active) {
      session->con_active--;
      if (session->state == COAP_SESSION_STATE_ESTABLISHED)
        /* Flush out any entries on session->delayqueue */
        coap_session_connected(session);
    }

    /* find message id in sendqueue to stop retransmission */
    coap_remove_from_queue(&context->sendqueue, session, pdu->mid, &sent);
''')

from edit import edit
# M8 (one of two sites, breaking alone): a retransmission no longer releases the slot first
edit('src/coap_net.c','''    if (!node->is_mcast && node->session->con_active) {
      node->session->con_active--;
      released = 1;
    }''','''    (void)released;''')

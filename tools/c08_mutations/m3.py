from edit import edit
# M3: give-up does not release the slot when the session has nothing waiting (rare path: leak)
edit('src/coap_net.c','''  if (node->session->con_active) {
    node->session->con_active--;
    if (node->session->state == COAP_SESSION_STATE_ESTABLISHED) {''','''  if (node->session->con_active && node->session->delayqueue) {
    node->session->con_active--;
    if (node->session->state == COAP_SESSION_STATE_ESTABLISHED) {''')

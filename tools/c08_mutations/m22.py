from edit import edit
# M22: coap_session_set_nstart off by one for values above 1
edit('src/coap_session.c','''  if (value > 0) {
    session->nstart = value;
    coap_log_debug("***%s: session nstart set to %u\\n",''','''  if (value > 0) {
    session->nstart = value > 1 ? value + 1 : value;
    coap_log_debug("***%s: session nstart set to %u\\n",''')

from edit import edit
# M6: held messages are put at the front of the delay queue (FIFO broken)
edit('src/coap_session.c','''  LL_APPEND(session->delayqueue, node);
  coap_log_debug("** %s: mid=0x%04x: delayed\\n",''','''  LL_PREPEND(session->delayqueue, node);
  coap_log_debug("** %s: mid=0x%04x: delayed\\n",''')

from edit import edit
# M19: the flush loop counts a CON only after a successful write (rare path: failing write in drain)
edit('src/coap_session.c','''      if (session->con_active >= COAP_NSTART(session))
        break;
      session->con_active++;
    }''','''      if (session->con_active >= COAP_NSTART(session))
        break;
    }''')
edit('src/coap_session.c','''    bytes_written = coap_session_send_pdu(session, q->pdu);
    if (q->pdu->type == COAP_MESSAGE_CON && COAP_PROTO_NOT_RELIABLE(session->proto)) {''','''    bytes_written = coap_session_send_pdu(session, q->pdu);
    if (bytes_written >= 0 && q->pdu->type == COAP_MESSAGE_CON && COAP_PROTO_NOT_RELIABLE(session->proto))
      session->con_active++;
    if (q->pdu->type == COAP_MESSAGE_CON && COAP_PROTO_NOT_RELIABLE(session->proto)) {''')

from edit import edit
# H3 (harmless for the property): give-up reports the NACK before it releases the slot
edit('src/coap_net.c','''  if (node->session->con_active) {
    node->session->con_active--;
    if (node->session->state == COAP_SESSION_STATE_ESTABLISHED) {''','''  if (node->pdu->type == COAP_MESSAGE_CON) {
    coap_handle_nack(node->session, node->pdu, COAP_NACK_TOO_MANY_RETRIES, node->id);
  }
  if (node->session->con_active) {
    node->session->con_active--;
    if (node->session->state == COAP_SESSION_STATE_ESTABLISHED) {''')
edit('src/coap_net.c','''  /* And finally delete the node */
  if (node->pdu->type == COAP_MESSAGE_CON) {
    coap_handle_nack(node->session, node->pdu, COAP_NACK_TOO_MANY_RETRIES, node->id);
  }
  coap_delete_node_lkd(node);''','''  /* And finally delete the node */
  coap_delete_node_lkd(node);''')

from edit import edit
# M10: revert of 0c2a709 - a NON from the peer removes a queued CON with the same message id
edit('src/coap_net.c','''      if (q && q->pdu->type != COAP_MESSAGE_CON)
        coap_remove_from_queue(&context->sendqueue, session, pdu->mid, &sent);''','''      if (q)
        coap_remove_from_queue(&context->sendqueue, session, pdu->mid, &sent);''')

from edit import edit
# M16: rare path - a NON drained after the handshake takes an NSTART slot
edit('src/coap_session.c','''    if (q->pdu->type == COAP_MESSAGE_CON && COAP_PROTO_NOT_RELIABLE(session->proto)) {
      if (session->con_active >= COAP_NSTART(session))
        break;
      session->con_active++;
    }''','''    if (COAP_PROTO_NOT_RELIABLE(session->proto)) {
      if (q->pdu->type == COAP_MESSAGE_CON && session->con_active >= COAP_NSTART(session))
        break;
      session->con_active++;
    }''')

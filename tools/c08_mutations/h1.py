from edit import edit
# H1 (harmless, three sites): a retransmission neither releases nor re-takes its slot
edit('src/coap_net.c','''    if (!node->is_mcast && node->session->con_active) {
      node->session->con_active--;
      released = 1;
    }''','''    (void)released;''')
edit('src/coap_net.c','''  if (session->state != COAP_SESSION_STATE_ESTABLISHED ||
      (pdu->type == COAP_MESSAGE_CON &&
       session->con_active >= COAP_NSTART(session))) {
    return coap_session_delay_pdu(session, pdu, node);
  }''','''  if (session->state != COAP_SESSION_STATE_ESTABLISHED ||
      (pdu->type == COAP_MESSAGE_CON && node == NULL &&
       session->con_active >= COAP_NSTART(session))) {
    return coap_session_delay_pdu(session, pdu, node);
  }''')
edit('src/coap_net.c','''  if (bytes_written >= 0 && pdu->type == COAP_MESSAGE_CON &&
      COAP_PROTO_NOT_RELIABLE(session->proto))
    session->con_active++;''','''  if (bytes_written >= 0 && pdu->type == COAP_MESSAGE_CON && node == NULL &&
      COAP_PROTO_NOT_RELIABLE(session->proto))
    session->con_active++;''')

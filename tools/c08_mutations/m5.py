from edit import edit
# M5: cancel by token forgets the slot (coap_cancel_all_messages)
edit('src/coap_net.c','''      if (q->pdu->type == COAP_MESSAGE_CON && session->con_active) {
        session->con_active--;
        if (session->state == COAP_SESSION_STATE_ESTABLISHED)
          /* Flush out any entries on session->delayqueue */
          coap_session_connected(session);
      }
      coap_delete_node_lkd(q);''','''      coap_delete_node_lkd(q);''')

from edit import edit
# M7: disconnect reports held CONs only when nothing was in flight
edit('src/coap_session.c','''      if (q->pdu->type == COAP_MESSAGE_CON) {
        coap_handle_nack(session, q->pdu, reason, q->id);
        sent_nack = 1;
      }
''','''      if (q->pdu->type == COAP_MESSAGE_CON && !sent_nack) {
        coap_handle_nack(session, q->pdu, reason, q->id);
        sent_nack = 1;
      }
''')

import sys
def edit(path, old, new, count=1):
    p='/var/tmp/verif.wt.C08/'+path
    s=open(p).read()
    assert s.count(old)>=1, ("pattern not found", old)
    if count==1: assert s.count(old)==1, ("pattern ambiguous", s.count(old), old)
    s=s.replace(old,new)
    open(p,'w').write(s)

from edit import edit
# M2: off by one in coap_send_pdu
edit('src/coap_net.c','''       session->con_active >= COAP_NSTART(session))) {
    return coap_session_delay_pdu(session, pdu, node);''','''       session->con_active > COAP_NSTART(session))) {
    return coap_session_delay_pdu(session, pdu, node);''')

from edit import edit
# M20: revert of 6ed059d - a delayed multicast response releases a slot
edit('src/coap_net.c','''    if (!node->is_mcast && node->session->con_active) {''','''    if (node->session->con_active) {''')

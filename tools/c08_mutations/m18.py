from edit import edit
# M18: revert of 39d6f14 - a failed retransmission write gives its slot away
edit('src/coap_net.c','''        if (q)
          q->session->con_active++;''','''        if (q)
          (void)q;''')

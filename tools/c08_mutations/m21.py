from edit import edit
# M21: server-side only - a disconnect forgets to reset con_active
edit('src/coap_session.c','''  session->con_active = 0;

  if (session->partial_pdu) {''','''  if (session->type == COAP_SESSION_TYPE_CLIENT)
    session->con_active = 0;

  if (session->partial_pdu) {''')

from edit import edit
# M4: drain loop off by one (coap_session_connected)
edit('src/coap_session.c','''      if (session->con_active >= COAP_NSTART(session))
        break;
      session->con_active++;''','''      if (session->con_active > COAP_NSTART(session))
        break;
      session->con_active++;''')

from edit import edit
# M1: ACK branch forgets to flush the delay queue
edit('src/coap_net.c','''    if (sent && session->con_active) {
      session->con_active--;
      if (session->state == COAP_SESSION_STATE_ESTABLISHED)
        /* Flush out any entries on session->delayqueue */
        coap_session_connected(session);
    }
    if (coap_option_check_critical(session, pdu, &opt_filter) == 0) {''','''    if (sent && session->con_active) {
      session->con_active--;
    }
    if (coap_option_check_critical(session, pdu, &opt_filter) == 0) {''')

"""C17 - case generator: CoAP datagrams, histories of server events, raw updater calls.
Case line format: see harness/h_persist.c."""
import struct

ARENA_BASE = 0x7e0000000000
ARENA_SLOT = 512


def opt_hdr(delta, length):
    def nib(x):
        if x < 13:
            return x, b""
        if x < 269:
            return 13, bytes([x - 13])
        return 14, struct.pack(">H", x - 269)
    dn, de = nib(delta)
    ln, le = nib(length)
    return bytes([dn << 4 | ln]) + de + le


def coap_msg(mtype, code, mid, token=b"", opts=(), payload=b""):
    """opts: list of (number, value bytes), any order (sorted stably here)"""
    out = bytearray([0x40 | (mtype << 4) | len(token), code, mid >> 8, mid & 255]) + token
    prev = 0
    for num, val in sorted(opts, key=lambda o: o[0]):
        out += opt_hdr(num - prev, len(val)) + val
        prev = num
    if payload:
        out += b"\xff" + payload
    return bytes(out)


def path_opts(name):
    """name: str or bytes, '/'-separated segments (no escapes needed for unreserved chars)"""
    if isinstance(name, str):
        name = name.encode()
    if name == b"":
        return []
    return [(11, seg) for seg in name.split(b"/")]


def put(name, mid, payload=b"v"):
    return coap_msg(0, 3, mid, b"", path_opts(name), payload)


def delete(name, mid):
    return coap_msg(0, 4, mid, b"", path_opts(name))


def get_obs(name, mid, token, obs=0, query=None, etag=None):
    opts = path_opts(name) + [(6, b"" if obs == 0 else bytes([obs]))]
    if query is not None:
        opts.append((15, query if isinstance(query, bytes) else query.encode()))
    if etag is not None:
        opts.append((4, etag))
    return coap_msg(0, 1, mid, token, opts)


def hx(b):
    if isinstance(b, str):
        b = b.encode()
    return b.hex() if b else "-"


class Layout:
    def __init__(self, line):
        t = line.split()
        self.la, self.lt = int(t[0]), int(t[1])
        self.listen, self.proto = t[2], t[3]
        self.tuples = t[4:12]
        self.extra = dict(x.split("=") for x in t[12:])

    def prefix(self, mode, buf, freq, cfg, port, ntup=8):
        return "c17 %s %s %d %s %d %d %d %s %s %d %s" % (
            mode, buf, freq, cfg, port, self.la, self.lt, self.listen, self.proto, ntup,
            " ".join(self.tuples[:ntup]))


def key_of_slot(i):
    return struct.pack("<Q", ARENA_BASE + i * ARENA_SLOT)


# ---------------------------------------------------------------- events (token lists)
def ev_inject(client, dgram):
    return ["I", str(client), hx(dgram)]


def ev_notify(name):
    return ["N", hx(name)]


def ev_crash(k=-1):
    return ["X", str(k)]


def ev_write(which, data):
    return ["W", which, hx(data)]


def ev_ua(key, tuple_hex, pkt, osc=None):
    return ["UA", hx(key), tuple_hex, hx(pkt), "~" if osc is None else hx(osc)]


def ev_ud(key):
    return ["UD", hx(key)]


def ev_ut(name, value):
    return ["UT", hx(name), str(value)]


def ev_uc(name):
    return ["UC", hx(name)]


def ev_ur(name, pkt):
    return ["UR", hx(name), hx(pkt)]


def ev_uo(proto, key, tuple_hex, pkt, osc=None):
    return ["UO", str(proto)] + ev_ua(key, tuple_hex, pkt, osc)[1:]


def ev_up(proto, name, pkt):
    return ["UP", str(proto), hx(name), hx(pkt)]


def ev_ux(name):
    return ["UX", hx(name)]


def case_line(layout, mode, buf, freq, cfg, port, events):
    toks = []
    for e in events:
        toks.extend(e)
    return layout.prefix(mode, buf, freq, cfg, port) + " " + " ".join(toks)


# ---------------------------------------------------------------- random histories
NAMES_DYN = ["a", "b", "c1", "d/e", "xn", "f%20g"]
# names that are proper prefixes of each other / of a static resource, or differ only behind an
# escaped character (the blank becomes %20 in the resource name)
NAMES_PREFIX = ["a", "ab", "abc", "f ", "f g", "f h", "s0x", "s0/1"]
NAMES_STATIC = ["s0", "s1"]


def res_name(path):
    """the name the resource created by PUT <path> gets (coap_get_uri_path escapes every
    character outside is_unescaped_in_path, e.g. the blank and the percent sign)"""
    keep = "ABCDEFGHIJKLMNOPQRSTUVWXYZabcdefghijklmnopqrstuvwxyz0123456789-._~!$'()*+,;=:@&/"
    return "".join(ch if ch in keep else "%%%02X" % ord(ch) for ch in path)


class HistGen:
    """server-level histories; keeps a light abstract state so that most events are meaningful"""

    def __init__(self, r, max_events=10, allow_restart=True, names=None):
        self.r = r
        self.mid = r.randrange(1, 60000)
        self.res = set(NAMES_STATIC)
        self.subs = []          # (name, client, token, query)
        self.max_events = max_events
        self.allow_restart = allow_restart
        self.names = names or (NAMES_PREFIX if r.random() < 0.35 else NAMES_DYN)

    def next_mid(self):
        self.mid = (self.mid + 1) & 0xffff
        return self.mid

    def gen(self):
        r = self.r
        evs = []
        n = r.randint(2, self.max_events)
        if r.random() < 0.5:
            # several dynamic resources first, so that deletes / re-creations hit the first,
            # a middle and the last record of the file
            for name in r.sample(self.names, r.choice([2, 3, 4])):
                evs.append(ev_inject(0, put(name, self.next_mid())))
                self.res.add(name)
        for _ in range(n):
            x = r.random()
            if x < 0.22:
                name = r.choice(self.names)
                evs.append(ev_inject(0, put(name, self.next_mid())))
                self.res.add(name)
            elif x < 0.30 and self.res:
                name = r.choice(sorted(self.res))
                evs.append(ev_inject(0, delete(name, self.next_mid())))
                self.res.discard(name)
                self.subs = [s for s in self.subs if s[0] != name]
            elif x < 0.60:
                name = r.choice(sorted(self.res) or NAMES_STATIC)
                client = r.randrange(0, 4)
                if self.subs and r.random() < 0.25:
                    # same client: same token (no-op) or same query with a new token (replace)
                    s = r.choice(self.subs)
                    name, client, tok, q = s
                    if r.random() < 0.5:
                        tok = bytes([r.randrange(256) for _ in range(r.choice([1, 2, 4, 8]))])
                else:
                    tok = bytes([r.randrange(256) for _ in range(r.choice([0, 1, 2, 4, 8]))])
                    q = r.choice([None, None, "q=1", "q=2"])
                etag = bytes([r.randrange(256)]) if r.random() < 0.15 else None
                evs.append(ev_inject(client, get_obs(name, self.next_mid(), tok, 0, q, etag)))
                self.subs.append((name, client, tok, q))
            elif x < 0.70 and self.subs:
                name, client, tok, q = r.choice(self.subs)
                if r.random() < 0.3:
                    tok = bytes([r.randrange(256)])      # wrong token: cache-key path
                evs.append(ev_inject(client, get_obs(name, self.next_mid(), tok, 1, q)))
                self.subs = [s for s in self.subs if not (s[0] == name and s[1] == client and s[3] == q)]
            elif x < 0.93:
                names = sorted(set(s[0] for s in self.subs)) or sorted(self.res) or NAMES_STATIC
                name = r.choice(names)
                for _ in range(r.choice([1, 1, 2, 3, 7])):
                    evs.append(ev_notify(res_name(name)))
            elif self.allow_restart:
                evs.append(ev_crash(-1 if r.random() < 0.5 else r.randrange(0, 60)))
        return evs


# ---------------------------------------------------------------- direct updater calls
def rbytes(r, n):
    return bytes(r.randrange(256) for _ in range(n))


def raw_history(r, layout, max_events=9, big=False):
    """direct calls of the six updaters with arbitrary binary records (keys and names drawn
    from small pools so that replace / delete hit existing entries)"""
    keys = [rbytes(r, 8) for _ in range(4)]
    dnames = [b"a", b"ab", b"bb", b"a b", b"\x00\xff\n", rbytes(r, r.choice([1, 3, 40])), b"n" * 300]
    cnames = [b"a", b"ab", b"abc", b"bb", b"r/s", b"%20x", b"%20", b"z" * r.choice([1, 100, 1486, 1487])]
    sizes = [1, 2, 4, 9, 23, 200, 1472] + ([65535, 65536] if big else [])
    evs = []
    for _ in range(r.randint(2, max_events)):
        x = r.random()
        if x < 0.25:
            osc = None if r.random() < 0.6 else rbytes(r, r.choice([1, 5, 60]))
            # the tuple must be a real address image: a fresh process builds a session from it
            tup = layout.tuples[r.randrange(8)]
            # records of sessions of other transports in the same file (COAP_PROTO_DTLS .. WSS):
            # every copy step has to keep the transport of the record it copies
            if r.random() < 0.3:
                evs.append(ev_uo(r.choice([2, 3, 4, 5, 6]), r.choice(keys), tup, rbytes(r, r.choice(sizes)), osc))
            else:
                evs.append(ev_ua(r.choice(keys), tup, rbytes(r, r.choice(sizes)), osc))
        elif x < 0.38:
            evs.append(ev_ud(r.choice(keys)))
        elif x < 0.58:
            evs.append(ev_ut(r.choice(cnames), r.choice([0, 1, 2, 9, 10, 99, 0xffffff, 0xffffffff,
                                                          r.randrange(1 << 24)])))
        elif x < 0.66:
            evs.append(ev_uc(r.choice(cnames)))
        elif x < 0.86:
            # the stored packet is a request the unknown-resource handler accepted (a PUT):
            # the loader hands it to that handler again
            sz = r.choice(sizes)
            tok = rbytes(r, r.choice([0, 2, 8]))
            path = path_opts(r.choice(["a", "bb", "d/e"]))
            head = len(coap_msg(0, 3, 0, tok, path, b"x")) - 1
            # the whole stored request is sz bytes long (at most 0x10000: what the readers accept)
            pkt = coap_msg(0, 3, r.randrange(65536), tok, path, rbytes(r, sz - head) if sz > head else b"")
            # COAP_PROTO_DTLS frames a stored request like UDP does: the loader accepts it
            if r.random() < 0.3:
                evs.append(ev_up(2, r.choice(dnames), pkt))
            else:
                evs.append(ev_ur(r.choice(dnames), pkt))
        elif x < 0.95:
            evs.append(ev_ux(r.choice(dnames + cnames[:3])))
        else:
            evs.append(ev_crash(-1 if r.random() < 0.5 else r.randrange(0, 40)))
    return evs

"""C18 case generators: PDU builder op lists with an allocation-failure pattern
(fapdu <type> <code> <mid> <max> F <k,k|-> { T b | O n b | D b }*)."""


def rbytes_tok(r, n):
    if n == 0:
        return "-"
    if n <= 24 and r.random() < 0.5:
        return bytes(r.randrange(256) for _ in range(n)).hex()
    return "@%d,%d" % (n, r.randrange(1000))


def gen_pdu_case(r):
    """sizes are aimed at the growth steps of coap_pdu_check_resize (256, 512, 1024, max_size)"""
    mx = r.choice([0, 0, 300, 600, 1152, 1152, 2000, 65535])
    code = r.choice([1, 2, 3, 69, 68, 132])
    ops = []
    if r.random() < 0.8:
        ops += ["T", rbytes_tok(r, r.choice([0, 1, 4, 8, 8, 12, 13, 40, 255, 257, 300]))]
    num = 0
    for _ in range(r.choice([1, 2, 3, 4, 6, 8])):
        x = r.random()
        if x < 0.7:
            num = num + r.choice([0, 0, 1, 3, 4, 11, 13, 20, 269, 300])
            if r.random() < 0.15:
                num = max(1, num - r.choice([1, 2, 5, 20]))          # out of order -> insert
            num = min(num, 65000)
            n = num if r.random() > 0.1 else r.choice([35, 39, 16])
            ln = r.choice([0, 1, 3, 8, 12, 13, 14, 60, 100, 120, 200, 240, 250, 255, 256, 268, 269,
                           270, 500, 700])
            ops += ["O", str(max(1, n)), rbytes_tok(r, ln)]
        elif x < 0.9:
            ops += ["D", rbytes_tok(r, r.choice([0, 1, 10, 100, 200, 250, 255, 256, 300, 511, 512, 900,
                                                 1100]))]
        else:
            ops += ["T", rbytes_tok(r, r.choice([0, 2, 8]))]
    nf = r.choice([0, 1, 1, 1, 2, 2, 3])
    ks = sorted(set(r.choice([1, 2, 3, 3, 4, 4, 5, 6, 7]) for _ in range(nf)))
    f = ",".join(map(str, ks)) if ks else "-"
    return "fapdu %d %d %d %d F %s %s" % (r.choice([0, 1]), code, r.randrange(65536), mx, f,
                                          " ".join(ops))

"""C19: case generator, trace parser and implementation-only oracle for the (D)TLS gate.

A case line (see harness/h_tls.c):
  c19 <seed> <fd0> <proto> <cid> <ckey> <csni> <cih> <shint> <skey> <sids> <ssni> <force> op ...
The C driver answers with one line of trace tokens.  This module
  * splits such a trace into per-session event lists and builds the line for the extracted
    acceptor (ocaml/d_tls.ml, command tgs);
  * evaluates the property on the trace alone (oracle);
  * generates cases: credential matrix x schedules x injections x fault codes.
"""
import re

TYPES = "CNAR"
MODELLED_EVENTS = {0x0000, 0x01DE, 0x0200, 0x2001}
MAX_RETRANSMIT = 4
MARK = b"PLAINTEXT-MARKER"


def hx(b):
    return b.hex() if b else "."


def tbl(rows):
    """rows: None | list of tuples of bytes"""
    if rows is None:
        return "none"
    return "T" + ",".join(":".join(hx(f) for f in r) for r in rows)


class Case:
    def __init__(self, seed=1, fd0=0, proto="dtls", cid=b"id", ckey=b"secret", csni=None, cih=None,
                 shint=b"hint", skey=b"secret", sids=None, ssni=None, force=None, ops=()):
        self.seed, self.fd0, self.proto = seed, fd0, proto
        self.cid, self.ckey, self.csni, self.cih = cid, ckey, csni, cih
        self.shint, self.skey, self.sids, self.ssni = shint, skey, sids, ssni
        self.force = force or []
        self.ops = list(ops)
        self.kind = ""

    def line(self):
        f = ",".join("%s.%s.%d=%d" % x for x in self.force) or "-"
        return " ".join(["c19", str(self.seed), str(self.fd0), self.proto,
                         "-" if self.cid is None else hx(self.cid),
                         "-" if self.ckey is None else hx(self.ckey),
                         self.csni.decode() if self.csni else "-", tbl(self.cih),
                         hx(self.shint), hx(self.skey), tbl(self.sids), tbl(self.ssni), f] + self.ops)

    def cred_line(self):
        return " ".join(["tgcred", hx(self.cid or b""), hx(self.ckey or b""),
                         hx(self.csni) if self.csni else "-", tbl(self.cih),
                         hx(self.shint), hx(self.skey), tbl(self.sids), tbl(self.ssni)])


def parse_case_line(ln):
    t = ln.split()

    def fb(s):
        return None if s == "-" else (b"" if s == "." else bytes.fromhex(s))

    def ft(s, n):
        if s == "none":
            return None
        rows = []
        for e in s[1:].split(","):
            if e:
                rows.append(tuple(fb(x) for x in e.split(":")))
        return rows
    c = Case(seed=int(t[1]), fd0=int(t[2]), proto=t[3], cid=fb(t[4]), ckey=fb(t[5]),
             csni=None if t[6] == "-" else t[6].encode(), cih=ft(t[7], 3), shint=fb(t[8]),
             skey=fb(t[9]), sids=ft(t[10], 2), ssni=ft(t[11], 3), ops=t[13:])
    if t[12] != "-":
        for e in t[12].split(","):
            m = re.match(r"([cs])\.(hs|tx|rx|ck)\.(\d+)=(-?\d+)", e)
            c.force.append((m.group(1), m.group(2), int(m.group(3)), int(m.group(4))))
    return c


# ------------------------------------------------------------------ trace -> ops with tokens

def split_ops(trace):
    """-> (header tokens, [(op, [tokens])])"""
    toks = trace.split()
    head, ops = [], []
    for t in toks:
        if t.startswith("|"):
            ops.append((t[1:], []))
        elif ops:
            ops[-1][1].append(t)
        else:
            head.append(t)
    return head, ops


def tag_parse(tag):
    """'C64845.2' -> (type index, mid, code); '?12' -> None"""
    m = re.match(r"([CNAR])(\d+)\.(\d+)$", tag)
    if not m:
        return None
    return TYPES.index(m.group(1)), int(m.group(2)), int(m.group(3))


class SessTrace:
    """events of one session in model form"""

    def __init__(self, role, nstart=1):
        self.role = role          # 'c' or 'h'
        self.nstart = nstart
        self.steps = []           # (event string, [output tokens])
        self.hs, self.more, self.tx, self.rx, self.ck = [], [], [], [], []
        self.cur = None
        self.lastcall = None      # index into self.more of the last hs call in this chunk
        self.stray = []           # tokens outside any event
        self.freed = False
        self.pending_dl = False
        self.snaps = {}           # index of step -> snapshot string

    def snapshot(self, tok):
        """tok = 'st:<state>:<type>:<dq>:<sq>:<ca>:<tls>' after an op; belongs to the last step"""
        f = tok.split(":")
        if len(f) < 7 or not self.steps or self.freed:
            return

        def ids(x):
            return "-" if x == "-" else ".".join(y[1:] for y in x.split(","))
        self.snaps[len(self.steps) - 1] = "%s/%s/%s/%s/%s/%s" % (f[1], f[2], ids(f[3]), ids(f[4]), f[5], f[6])

    def start(self, ev):
        self.cur = [ev, []]
        self.steps.append(self.cur)
        self.lastcall = None
        self.pending_dl = False

    def _call(self, kind):
        if kind == "hs" and self.lastcall is not None:
            self.more[self.lastcall] = 1
        self.lastcall = None

    def token(self, t):
        """t = token without the session prefix"""
        k, _, rest = t.partition(":")
        if k in ("cb", "sni", "ih", "req", "rsp", "st", "tmo"):
            return
        if k == "ev":
            e = int(rest, 16)
            if e == 0x4002:
                self.start("F")
                self.freed = True
                return
            if e not in MODELLED_EVENTS:
                return
            out = "ev:%d" % e
        elif k == "hs":
            self._call("hs")
            self.hs.append(int(rest))
            self.more.append(0)
            self.lastcall = len(self.more) - 1
            out = "hs:%d" % int(rest)
        elif k == "ck":
            self._call("ck")
            self.ck.append(int(rest))
            out = "ck:%d" % int(rest)
        elif k == "tx":
            tag, _, code = rest.rpartition(":")
            p = tag_parse(tag)
            c = 1 if code == "ok" else int(code)
            mid = p[1] if p else -1
            if self.role == "h" and self.pending_dl and self.cur is not None:
                # the stack answers from inside dispatch: an ESend of its own
                self.start("s%d:%d" % (mid, 1 if p and p[0] == 0 else 0))
            self._call("tx")
            self.tx.append(c)
            out = "tx:%d:%d" % (mid, c)
        elif k == "rx":
            self._call("rx")
            if rest.startswith("ok:"):
                p = tag_parse(rest[3:])
                self.rx.append(1)
                out = "rx:1"
                if self.cur is not None and self.cur[0].startswith("R") and p:
                    self.cur[0] = "R%d:%d" % (p[0], p[1])
            else:
                self.rx.append(int(rest))
                out = "rx:%d" % int(rest)
        elif k == "dl":
            p = tag_parse(rest)
            out = "dl:%d:%d" % ((p[0], p[1]) if p else (0, 0))
            self.pending_dl = True
        elif k == "nack":
            a, _, r = rest.partition(":")
            out = "na:%s" % r if a == "anon" else "nk:%s:%s" % (a[1:], r)
        elif k == "to":
            self.start("T")
            return
        elif k == "rt":
            a, _, cnt = rest.partition(":")
            self.start("X%s:%d" % (a[1:], 1 if int(cnt) >= MAX_RETRANSMIT else 0))
            return
        else:
            return
        if self.cur is None:
            self.stray.append(t)
        else:
            self.cur[1].append(out)

    def line(self, proto):
        def j(l):
            return ",".join(str(x) for x in l) or "-"
        steps = ["%s=%s%s" % (e, ",".join(o), ("@" + self.snaps[i]) if i in self.snaps else "")
                 for i, (e, o) in enumerate(self.steps)]
        return " ".join(["tgs", proto, self.role, str(self.nstart), j(self.hs), j(self.more),
                         j(self.tx), j(self.rx), j(self.ck)] + steps)


def split_phases(case, trace):
    """A case with K ops is a history of client sessions on one server context.  -> list of
    (Case, trace) pairs, one per client: the credentials of that client, its ops, and the part of
    the trace that belongs to it (the release at the start of the next K op included)."""
    if not any(op.startswith("K") for op in case.ops):
        return [(case, trace)]
    head, ops = split_ops(trace)
    out = []
    cur = parse_case_line(case.line())
    cur.kind = case.kind
    cur.ops = []
    cur.force = []
    toks = list(head)
    for op, ts in ops:
        if op.startswith("K"):
            before = ts[:ts.index("a.next")] if "a.next" in ts else ts
            toks += ["|rel"] + before + ["|end"]
            out.append((cur, " ".join(toks)))
            f = op[1:].split(":")
            nxt = parse_case_line(cur.line())
            nxt.kind = case.kind
            nxt.ops = []
            nxt.csni = None if f[0] == "-" else f[0].encode()
            if len(f) > 1:
                nxt.ckey = b"" if f[1] == "." else bytes.fromhex(f[1])
            if len(f) > 2:
                nxt.cid = b"" if f[2] == "." else bytes.fromhex(f[2])
            cur = nxt
            toks = list(head)
        else:
            if op != "end":
                cur.ops.append(op)
            toks += ["|" + op] + ts
    out.append((cur, " ".join(toks)))
    return out


def sendq_order_ambiguous(trace):
    """The context's send queue is ordered by expiry time; the model keeps submission order.
    They differ only when two Confirmables are in flight and one was retransmitted (NSTART > 1):
    then the order in which a disconnect NACKs them is time-dependent and the exact acceptor
    does not apply to the client session (counted in the evidence, the oracle still runs)."""
    inflight = set()
    rt = False
    most = 0
    for t in trace.split():
        if t.startswith("c.tx:"):
            p = tag_parse(t.split(":")[1])
            if p and p[0] == 0:
                inflight.add(p[1])
        elif t.startswith("c.dl:"):
            p = tag_parse(t[5:])
            if p and p[0] in (2, 3):
                inflight.discard(p[1])
        elif t.startswith("c.nack:C"):
            inflight.discard(int(t.split(":")[1][1:]))
        elif t.startswith("c.rt:"):
            rt = True
        most = max(most, len(inflight))
    return rt and most >= 2


def sessions_of(case, trace):
    """-> list of (name, SessTrace) for the client session and every server session for the
    client's address, in model form"""
    head, ops = split_ops(trace)
    nstart = 1
    for op in case.ops:
        if op.startswith("ns"):
            nstart = int(op[2:])
    cli = None
    srv = None
    out = []
    for op, toks in ops:
        if op == "C" and "a.nocs" not in toks and cli is None:
            cli = SessTrace("c", nstart)
            out.append(("c", cli))
            cli.start("C")
        elif op.startswith("q") and cli and not cli.freed:
            cli.start("S?")
        elif op == "rel" and cli and not cli.freed and "a.rel:1" in toks:
            cli.start("L")
        elif op == "end":
            if cli and not cli.freed:
                cli.start("F")
                cli.freed = True
        elif cli:
            cli.cur = None
        if srv:
            srv.cur = None
        for t in toks:
            if t.startswith("n.inj:") and t.endswith(":0"):
                continue          # an empty datagram: recv() returns 0, nothing is dispatched
            if t.startswith("n.rv:") or t.startswith("n.inj:"):
                to = t.split(":")[1]
                if cli:
                    cli.cur = None
                if srv:
                    srv.cur = None
                if to == "c" and cli and not cli.freed:
                    cli.start("R0:0")
                elif to == "s" and srv and not srv.freed:
                    srv.start("R0:0")
                continue
            if t.startswith("a.q:") and cli and cli.cur and cli.cur[0] == "S?":
                f = t.split(":")
                if f[2] == "skip":
                    cli.steps.pop()
                    cli.cur = None
                    continue
                con = 1 if f[2][0] == "C" else 0
                mid = int(f[2][1:])
                cli.cur[0] = "S%d:%d" % (mid, con)
                if int(f[3]) == -1:
                    cli.cur[1].append("ds:%d" % mid)
                elif not any(o.startswith("tx:%d:" % mid) for o in cli.cur[1]):
                    cli.cur[1].append("dq:%d:%d" % (mid, con))
                cli.cur = None
                continue
            if t.startswith("a.rel:"):
                if cli and t.endswith(":1"):
                    cli.freed = True
                continue
            if t.startswith("c.st:") and cli:
                cli.snapshot(t[2:])
                continue
            if t.startswith("s.st:") and srv:
                srv.snapshot(t[2:])
                continue
            if t.startswith("c.") and cli:
                if cli.freed and not (cli.cur and cli.cur[0] in ("L", "F")):
                    continue
                cli.token(t[2:])
                continue
            if t.startswith("s."):
                if t == "s.ev:4001":
                    srv = SessTrace("h", 1)
                    out.append(("s", srv))
                    srv.start("R0:0")
                    continue
                if srv and not (srv.freed and srv.cur is None):
                    srv.token(t[2:])
    # post-process retransmissions: no tx and no nack in the chunk => the node was re-delayed
    for _, s in out:
        for st in s.steps:
            if st[0].startswith("X") and st[0].endswith(":0") and not any(o.startswith("tx:") for o in st[1]):
                st[1].append("dq:%s:1" % st[0][1:].split(":")[0])
    return out


# ------------------------------------------------------------------ implementation-only oracle

def oracle(case, trace, match):
    """The property evaluated on what the implementation did.  match = do the configured
    credentials match (computed by the credential model, itself tied to the PSK callbacks).
    Returns a list of violation strings."""
    bad = []
    head, ops = split_ops(trace)
    toks = [t for _, ts in ops for t in ts]
    dtls = case.proto == "dtls"
    if not dtls:
        return bad
    hs_ok = {"c": False, "s": False, "o": False}
    queued = {}      # mid -> con   (client requests accepted by coap_send)
    reqno = {}       # k -> mid
    nacks = {}
    sent_tx = []     # client: mids handed to the TLS layer, in order
    srv_req = []     # request numbers seen by the server handler
    cli_rsp = []
    delayed = []     # mids that were held in the delay queue (in submission order)
    cli_established = False
    cli_closed = False
    forced_ok = any(f[1] == "hs" and f[3] == 0 for f in case.force)
    for op, ts in ops:
        for t in ts:
            f = t.split(":")
            who = t[0]
            if t[1:5] == ".hs:" and f[1] == "0":
                hs_ok[who] = True
            elif f[0] == "n.w":
                # every datagram on the wire of a DTLS endpoint is made of DTLS records
                if "f" not in f[5]:
                    bad.append("datagram %s from %s is not DTLS-framed (first byte %s, len %s)" % (f[2], f[1], f[4], f[3]))
                if "P" in f[5]:
                    bad.append("cleartext CoAP on the wire: datagram %s from %s contains a plaintext request/response encoding" % (f[2], f[1]))
                if "A" in f[5]:
                    bad.append("application-data record in epoch 0 (unprotected): datagram %s" % f[2])
            elif f[0] == "a.q" and f[2] != "skip":
                k, mid, ret = int(f[1]), int(f[2][1:]), int(f[3])
                if ret != -1:
                    queued[mid] = f[2][0] == "C"
                    reqno[k] = mid
                    if not any(x.startswith("c.tx:%s." % f[2]) for x in ts):
                        delayed.append(mid)
            elif f[0] in ("s.req", "o.req"):
                k = int(f[1])
                if not hs_ok[who]:
                    bad.append("request %d delivered to the server handler on a session whose handshake never completed" % k)
                if not match and not forced_ok:
                    bad.append("request %d delivered to the server handler although the credentials do not match" % k)
                if "INJECTED" in bytes.fromhex(f[2] if f[2] != "-" else "").decode("latin-1"):
                    bad.append("injected cleartext request %d reached the server handler" % k)
                srv_req.append(k)
            elif f[0] == "c.rsp":
                k = int(f[1])
                if not hs_ok["c"]:
                    bad.append("response %d delivered to the client handler before the handshake completed" % k)
                if not match and not forced_ok:
                    bad.append("response %d delivered to the client handler although the credentials do not match" % k)
                if "FORGED" in bytes.fromhex(f[3] if f[3] != "-" else "").decode("latin-1"):
                    bad.append("forged cleartext response %d reached the client handler" % k)
                cli_rsp.append(k)
            elif f[0] == "c.nack" and f[1] != "anon":
                mid = int(f[1][1:])
                nacks[mid] = nacks.get(mid, 0) + 1
            elif f[0] == "c.tx":
                p = tag_parse(f[1])
                if p:
                    sent_tx.append(p[1])
                if not hs_ok["c"]:
                    bad.append("client handed application data to the TLS layer before the handshake completed")
            elif f[0] == "c.st" and len(f) > 2:
                if f[1] == "4":
                    cli_established = True
                    if not hs_ok["c"]:
                        bad.append("client session ESTABLISHED without a completed handshake")
                    if not match and not forced_ok:
                        bad.append("client session ESTABLISHED although the credentials do not match")
            elif f[0] == "s.st" and len(f) > 2:
                if f[1] == "4":
                    if not hs_ok["s"]:
                        bad.append("server session ESTABLISHED without a completed handshake")
                    if not match and not forced_ok:
                        bad.append("server session ESTABLISHED although the credentials do not match")
    # After the run everything is released.  Every Confirmable the application queued and
    # that was never handed to the TLS layer has exactly one NACK; if the client's handshake
    # never completed this covers every queued Confirmable.  (A Confirmable that was in flight
    # on an established session when it broke is outside this clause of the property.)
    for mid, con in queued.items():
        n = nacks.get(mid, 0)
        if not con:
            # (in block mode libcoap reports the request tracked in lg_crcv when nothing else was
            # reported, which can be a Non-confirmable: the property does not speak about that)
            if n and "bm" not in case.ops:
                bad.append("NACK for the Non-confirmable mid %d" % mid)
            continue
        if mid not in sent_tx or not hs_ok["c"]:
            if n != 1:
                bad.append("queued Confirmable mid %d was never transmitted and got %d NACKs (exactly one expected)" % (mid, n))
    if not hs_ok["c"]:
        for mid in sent_tx:
            bad.append("mid %d handed to the TLS layer although the handshake never completed" % mid)
    # order: what was held in the delay queue leaves it in submission order, each once
    first = []
    for m in sent_tx:
        if m in delayed and m not in first:
            first.append(m)
    if first != [m for m in delayed if m in first]:
        bad.append("delayed messages left the queue out of order: queued %s, transmitted %s" % (delayed, first))
    # exactly-once delivery (when nothing was retransmitted)
    if not any(t.startswith("c.rt:") for t in toks):
        for k in set(srv_req):
            if srv_req.count(k) > 1:
                bad.append("request %d delivered %d times to the server handler" % (k, srv_req.count(k)))
        for k in set(cli_rsp):
            if cli_rsp.count(k) > 1:
                bad.append("response %d delivered %d times to the client handler" % (k, cli_rsp.count(k)))
    return bad


def completed(case, trace):
    """did every request get its response (used for the liveness part on loss-free schedules)"""
    head, ops = split_ops(trace)
    toks = [t for _, ts in ops for t in ts]
    q = [int(t.split(":")[1]) for t in toks if t.startswith("a.q:") and not t.endswith(":skip") and not t.endswith(":-1")]
    r = [int(t.split(":")[1]) for t in toks if t.startswith("c.rsp:")]
    s = [int(t.split(":")[1]) for t in toks if t.startswith("s.req:")]
    return q, s, r


# ------------------------------------------------------------------ generators

KEYS = [b"secret", b"secre", b"secret1", b"secreT", b"\x00secret", b"secret\x00", b"s", b"",
        bytes(range(1, 33)), bytes(range(1, 32)), b"secret" * 8]


def cred_matrix():
    """(name, kwargs) pairs spanning the credential space of the property"""
    out = []
    for ck in KEYS:
        for sk in (b"secret", bytes(range(1, 33)), b"", b"s"):
            out.append(("key", dict(ckey=ck, skey=sk)))
    ids = [(b"id", b"secret"), (b"alice", b"k-alice"), (b"bob", b"k-bob")]
    for cid, ck in [(b"id", b"secret"), (b"alice", b"k-alice"), (b"alice", b"k-bob"), (b"carol", b"secret"),
                    (b"ali", b"k-alice"), (b"alice2", b"k-alice"), (b"bob", b"k-bob"), (b"", b"secret")]:
        out.append(("idtable", dict(cid=cid, ckey=ck, sids=ids, skey=b"default")))
    out.append(("idtable-empty", dict(sids=[], skey=b"secret")))
    # identity hint accepted / rejected by the client
    for hint in (b"hint", b"other", b"", b"hin", b"hint2"):
        out.append(("hint", dict(shint=hint, cih=[(b"hint", b"id", b"secret"), (b"", b"id0", b"secret0")])))
        out.append(("hint-wrongkey", dict(shint=hint, cih=[(b"hint", b"id", b"secreX")])))
    out.append(("hint-empty-table", dict(cih=[])))
    # SNI
    snis = [(b"good.example", b"hint", b"secret"), (b"other.example", b"hint", b"otherkey"), (b"", b"hint", b"nosni")]
    for sni in (b"good.example", b"other.example", b"bad.example", None, b"GOOD.example"):
        out.append(("sni", dict(csni=sni, ssni=snis)))
    out.append(("sni-nosni-key", dict(csni=None, ckey=b"nosni", ssni=snis)))
    out.append(("noident", dict(cid=None)))
    out.append(("nokey", dict(ckey=None)))
    # lengths around every buffer constant of the TLS glue (COAP_DTLS_MAX_PSK 64,
    # COAP_DTLS_MAX_PSK_IDENTITY 64, COAP_DTLS_HINT_LENGTH 128), differences only in the tail
    def tail(n, last):
        return bytes((37 + 7 * i) % 200 + 33 for i in range(n - 1)) + bytes([last])
    longk = [tail(n, l) for n in (63, 64, 65, 66, 127, 128, 129, 200) for l in (0x41, 0x42)]
    longk += [tail(64, 0x41) + b"Z", tail(64, 0x41) + b"ZZ", tail(65, 0x41)[:64]]
    for i, ck in enumerate(longk):
        for sk in (longk[i], longk[min(i ^ 1, len(longk) - 1)], tail(64, 0x41), tail(128, 0x41), tail(65, 0x41)[:64]):
            out.append(("longkey", dict(ckey=ck, skey=sk)))
    longid = [tail(n, l) for n in (63, 64, 65, 127, 128, 129) for l in (0x41, 0x42)]
    for i, cid in enumerate(longid):
        out.append(("longid", dict(cid=cid, ckey=b"k-a", skey=b"default",
                                   sids=[(longid[i & ~1], b"k-a"), (longid[i | 1], b"k-b")])))
    longh = [tail(n, l) for n in (63, 64, 65, 126, 127, 128, 129, 140) for l in (0x41, 0x42)]
    for i, h in enumerate(longh):
        out.append(("longhint", dict(shint=h, cih=[(longh[i & ~1], b"id", b"secret"), (longh[i | 1], b"id", b"other")])))
    # the hint callback must be given the server's hint: a table that knows only the EMPTY hint
    # (with the right credentials) has to reject every server that announces a hint
    for hint in (b"hint", b"h", b"other-hint"):
        out.append(("hint-only-empty", dict(shint=hint, cih=[(b"", b"id", b"secret")])))
    out.append(("hint-only-empty", dict(shint=b"", cih=[(b"", b"id", b"secret")])))
    return out


SCHEDULES = [
    # (name, ops) ; C is prepended
    ("plain", "qc1 a".split()),
    ("queue3", "qc1 qn2 qc3 a".split()),
    ("queue-mid", "d d qc1 d qn2 a qc3 a".split()),
    ("after", "a qc1 a qn2 a".split()),
    ("nstart2", "ns2 qc1 qc2 qc3 qn4 a".split()),
    ("early-release", "qc1 qc2 qn3 rel".split()),
    ("release-mid", "qc1 d d d qc2 rel a".split()),
    ("fail-timeout", "qc1 qn2 qc3 a t1000 a t1000 a t2000 a t2000 a t1000 a t1000 a".split()),
]


def gen_random(r, n):
    """random loss / duplication / reordering / time / injection / release, any credentials"""
    cases = []
    cm = cred_matrix()
    inj_pool = ["is@req9", "ic@rsp1", "ic@rst1", "in@req8", "in@hello", "is@hello", "ic@req7", "is@rsp1",
                "ic1603030000", "is17fefd0001000000000001000401020304", "ic17fefd00010000000000010001aa",
                "is15fefd000000000000000100020228", "ic15fefd000000000000000100020228", "is", "ic40"]
    for i in range(n):
        ops = ["C"]
        nreq = 0
        ln = r.choice([6, 10, 16, 24, 40, 60])
        pinj = r.choice([0.02, 0.04, 0.12])
        ploss = r.choice([0.0, 0.05, 0.16, 0.3])
        for _ in range(ln):
            x = r.random()
            if x < 0.18 and nreq < 14:
                nreq += 1
                ops.append(("qc%d" if r.random() < 0.7 else "qn%d") % nreq)
            elif x < 0.18 + pinj:
                ops.append(r.choice(inj_pool))
            elif x < 0.22 + pinj:
                ops.append("rel" if r.random() < 0.3 else "o")
            elif x < 0.36 + pinj:
                ops.append("t%d" % r.choice([1, 500, 1000, 1000, 1000, 2000, 3000]))
            elif x < 0.50 + pinj:
                ops.append("a")
            else:
                y = r.random()
                ops.append("x" if y < ploss else ("u" if y < ploss * 1.6 else "d"))
        if r.random() < 0.5:
            ops.append("a")
        if r.random() < 0.3:
            ops.insert(1, "ns%d" % r.choice([1, 2, 3]))
        nm, kw = ("match", {}) if r.random() < 0.6 else r.choice(cm)
        force = []
        if r.random() < 0.15:
            force = [(r.choice("cs"), r.choice(["hs", "hs", "tx", "rx", "ck"]), r.randrange(0, 8),
                      r.choice([0, -28, -52, -32, -12, -19, -15, -16, -49, -24, -43, -10, -328, -110, -319, -54, -53, -1, -9]))]
            if force[0][1] == "ck":
                force = [("s",) + force[0][1:]]
        c = Case(seed=r.randrange(1, 1 << 30), fd0=r.randrange(2), ops=ops, force=force, **kw)
        c.kind = "random/" + nm + ("+force" if force else "")
        cases.append(c)
    return cases


def gen_cases(r, n, tier):
    """structured cases: credential matrix x schedules, injections, forced GnuTLS return codes;
    plus n random ones"""
    cases = []
    cm = cred_matrix()
    # 1. full credential matrix with the plain and the queueing schedule
    for i, (nm, kw) in enumerate(cm):
        for sn, ops in (SCHEDULES[1], SCHEDULES[7]) if tier == "quick" else SCHEDULES:
            c = Case(seed=1 + i, fd0=i % 2, ops=["C"] + ops, **kw)
            c.kind = "cred/" + nm + "/" + sn
            cases.append(c)
    # 2. schedules with matching credentials
    for sn, ops in SCHEDULES:
        for fd0 in (0, 1):
            c = Case(seed=7, fd0=fd0, ops=["C"] + ops)
            c.kind = "sched/" + sn
            cases.append(c)
    cases += gen_random(r, n)
    # 4. injected cleartext CoAP before / during / after the handshake, both directions
    inj = ["is@req9", "in@req8", "ic@rsp1", "ic@rst1", "is@hello", "in@hello"]
    for k, pos in enumerate([0, 1, 2, 3, 5, 8, 11, 12, 13, 99]):
        for j in inj:
            base = ["qc1", "qc2"] + ["d"] * 14
            p = min(pos, len(base))
            ops = ["C"] + base[:p] + [j] + base[p:] + ["a", j, "a"]
            c = Case(seed=11 + k, fd0=k % 2, ops=ops)
            c.kind = "inject/" + j
            cases.append(c)
    # injection at every point of a failing handshake (sessions without a TLS context exist
    # between the failure and the release) and after a forced failure
    fail = "qc1 qn2 a t1000 a t1000 a t2000 a t2000 a t1000 a t1000 a".split()
    for kw in (dict(skey=b"other"), dict(cih=[]), dict(sids=[(b"nobody", b"k")])):
        for pos in range(len(fail) + 1):
            for j in ("is@req9", "ic@rsp1", "ic@req7", "is@rsp1"):
                c = Case(seed=21 + pos, fd0=pos % 2, ops=["C"] + fail[:pos] + [j] + fail[pos:] + [j], **kw)
                c.kind = "inject-fail/" + j
                cases.append(c)
    for f in (("c", "hs", 0, -12), ("c", "hs", 1, -12), ("s", "hs", 0, -12), ("s", "hs", 1, -10), ("c", "hs", 2, -16)):
        for j in ("is@req9", "ic@rsp1", "ic@req7"):
            c = Case(seed=4, force=[f], ops=["C", "qc1", j, "a", j, "t1000", j, "a", j])
            c.kind = "inject-forcefail/" + j
            cases.append(c)
    # injection with no client at all, and before the client exists
    for j in ("in@req8", "in@hello", "is@req9"):
        c = Case(seed=5, ops=[j, j, "C", "qc1", j, "a"])
        c.kind = "inject-first/" + j
        cases.append(c)
    # a stranger's ClientHello (second source address) at every point of client A's handshake,
    # with and without a small limit on half-open sessions: A must still be served
    base = ["qc1", "qn2"] + ["d"] * 14
    for pos in range(0, len(base) + 1):
        for mh in ("", "mh1", "mh2"):
            for rep in (1, 3):
                ops = ([mh] if mh else []) + ["C"] + base[:pos] + ["in@hello"] * rep + base[pos:] + ["a", "in@hello", "qc3", "a"]
                c = Case(seed=40 + pos, fd0=pos % 2, ops=ops)
                c.kind = "stranger-hello"
                cases.append(c)
    # 4b. client in COAP_BLOCK_USE_LIBCOAP mode: requests are also tracked in session->lg_crcv
    # (Observe, NON, ...); queued mixes ending in each kind, every way the handshake can end
    mixes = [["qc1", "qn2", "qo3"], ["qo1"], ["qo1", "qc2"], ["qn1", "qo2"], ["qo1", "qo2", "qn3"],
             ["qn1"], ["qc1", "qo2", "qn3", "qc4"], ["qo1", "qn2"]]
    tails = {"timeout": "a t1000 a t1000 a t2000 a t2000 a t1000 a t1000 a".split(),
             "release": ["d", "d", "rel"], "plain": ["a"]}
    for mi, mix in enumerate(mixes):
        for kw in (dict(skey=b"other-key"), dict(sids=[(b"nobody", b"k")]), {}):
            for tn, tl in tails.items():
                for pre in (["bm", "C"], ["bm", "C", "d", "d", "d"]):
                    c = Case(seed=60 + mi, fd0=mi % 2, ops=pre + mix + tl, **kw)
                    c.kind = "blockmode/" + tn
                    cases.append(c)
        for f in (("c", "hs", 1, -12), ("c", "hs", 2, -16), ("c", "hs", 3, -10), ("s", "hs", 1, -12)):
            c = Case(seed=60 + mi, force=[f], ops=["bm", "C"] + mix + tails["timeout"])
            c.kind = "blockmode/force"
            cases.append(c)
    # 5. forced GnuTLS return codes (fault sequences) at every call position of a handshake
    codes = [0, -28, -52, -32, -12, -19, -15, -16, -49, -112, -24, -43, -21, -87, -10, -328, -110, -319,
             -54, -53, -1, -8, -9, -50, -59, -64, -78, -292, -400]
    pos = range(0, 7) if tier == "quick" else range(0, 9)
    for side in "cs":
        for k in pos:
            for code in (codes if tier != "quick" else codes[::2] + [-12, -16, -32]):
                c = Case(seed=3, fd0=0, force=[(side, "hs", k, code)],
                         ops="C qc1 qn2 qc3 a t1000 a t1000 a t1000 a t1000 a t1000 a t1000 a".split())
                c.kind = "force/%s.hs" % side
                cases.append(c)
    for side in "cs":
        for k in (0, 1, 2):
            for code in (-28, -12, -16, -1, -10, -53, 0):
                for kind in ("tx", "rx"):
                    c = Case(seed=3, fd0=0, force=[(side, kind, k, code)],
                             ops="C qc1 qn2 qc3 a qc4 a t100 a".split())
                    c.kind = "force/%s.%s" % (side, kind)
                    cases.append(c)
    for code in (0, -1, -9, -214, -28):
        for k in (0, 1, 2):
            c = Case(seed=3, force=[("s", "ck", k, code)], ops="C qc1 a t1000 a".split())
            c.kind = "force/s.ck"
            cases.append(c)
    # 6. post-handshake loss: CoAP retransmission of the protected message
    for drops in (["x"], ["d", "x"], ["x", "x"]):
        c = Case(seed=9, ops=["C", "a", "qc1"] + drops + ["a", "t2000", "a", "t4000", "a"])
        c.kind = "postloss"
        cases.append(c)
    c = Case(seed=9, ops="C a qc1 x t2000 x t4000 x t8000 x t16000 x t32000 a".split())
    c.kind = "postloss/giveup"
    cases.append(c)
    # 7. UDP contrast (cleartext is the expected behaviour there; no oracle, acceptor only)
    for sn, ops in SCHEDULES[:4]:
        c = Case(seed=2, proto="udp", ops=["C"] + ops)
        c.kind = "udp/" + sn
        cases.append(c)
    return cases


def gen_sni_history(r, tier):
    """2-4 client sessions with different SNI names and keys on ONE server context: the server's
    SNI callback has a name -> key table with prefix-related names, the per-context cache of
    libcoap sits in front of it, so the order of the handshakes matters"""
    names = [b"dev", b"dev2", b"dev22", b"d", b"de", b"other", b"DEV2"]
    keys = {b"dev": b"k-dev", b"dev2": b"k-dev2", b"dev22": b"k-dev22", b"d": b"k-d", b"other": b"k-other"}
    table = [(n, b"h", k) for n, k in keys.items()]
    table_nosni = table + [(b"", b"h", b"k-nosni")]
    cases = []

    def mk(seq, tbl, seed):
        ops = []
        for j, (n, k) in enumerate(seq):
            if j == 0:
                first = (n, k)
            else:
                ops.append("K%s:%s" % (n.decode() if n else "-", hx(k)))
            ops += ["C", "qc%d" % (j + 1), "a"]
        c = Case(seed=seed, fd0=seed % 2, csni=first[0] or None, ckey=first[1], shint=b"h", skey=b"unused",
                 ssni=tbl, ops=ops)
        c.kind = "sni-history"
        return c
    # every ordered pair (cached first, then a related name) x (own key | the other's key)
    seed = 0
    for a in names:
        for b in names + [b""]:
            if a == b:
                continue
            for kb in ("own", "other"):
                ka = keys.get(a.lower(), b"k-unknown")
                k2 = keys.get(b.lower(), b"k-nosni" if b == b"" else b"k-unknown") if kb == "own" else ka
                for tbl in ((table,) if tier == "quick" else (table, table_nosni)):
                    seed += 1
                    cases.append(mk([(a, ka), (b, k2), (b, keys.get(b.lower(), b"k-unknown"))], tbl, seed))
    n = 40 if tier == "quick" else 600
    allkeys = list(keys.values()) + [b"k-nosni", b"k-unknown"]
    for i in range(n):
        seq = [(r.choice(names + [b""]), r.choice(allkeys)) for _ in range(r.randrange(2, 5))]
        cases.append(mk(seq, r.choice([table, table_nosni]), 1000 + i))
    return cases


def prefilter_lines(tier):
    """datagrams for the ClientHello pre-filter sweep: every first byte x boundary lengths x
    handshake-type bytes"""
    out = []
    lens = [0, 1, 4, 13, 14, 15, 25] if tier == "quick" else [0, 1, 2, 4, 12, 13, 14, 15, 16, 25, 60]
    hts = [0, 1, 2, 22] if tier == "quick" else [0, 1, 2, 3, 11, 16, 20, 22, 255]
    for b0 in range(256):
        for ln in lens:
            for ht in (hts if ln >= 14 else [0]):
                if ln < 14:
                    # primer: leaves 22 / 1 at offsets 0 / 13 of the receive buffer, so that a
                    # read past a short datagram sees a ClientHello
                    out.append((bytes([0]) + bytes([0xfe, 0xfd]) + bytes(10) + bytes([1]) + bytes(11)).hex())
                d = bytearray(ln)
                if ln > 0:
                    d[0] = b0
                if ln >= 3:
                    d[1], d[2] = 0xfe, 0xfd
                if ln >= 14:
                    d[13] = ht
                out.append(bytes(d).hex() or "-")
    return out


# ------------------------------------------------------------------ TLS over TCP (oracle only)

def tcp_line(c):
    """case line for harness/h_tls_tcp.c from a Case (same credential fields)"""
    return " ".join(["c19t", str(c.seed), "-" if c.cid is None else hx(c.cid),
                     "-" if c.ckey is None else hx(c.ckey), c.csni.decode() if c.csni else "-",
                     tbl(c.cih), hx(c.shint), hx(c.skey), tbl(c.sids), tbl(c.ssni)] + c.ops)


def gen_tcp_cases(r, tier):
    cases = []
    cm = cred_matrix()
    for i, (nm, kw) in enumerate(cm):
        c = Case(seed=i, ops=["C", "qc1", "qn2", "qc3"], **kw)
        c.kind = "tcp-cred/" + nm
        cases.append(c)
        # requests submitted while the session is coming up: the wait inside coap_send is
        # serviced (q) or times out (w: the message is queued, or CSM time-out)
        c = Case(seed=i, ops=["C1", "wc1", "wn2", "wc3", "r", "qc4"], **kw)
        c.kind = "tcp-queued/" + nm
        cases.append(c)
    for n in range(0, 9):
        for ops in (["C%d" % n, "qc1", "qn2"], ["C%d" % n, "wc1", "wc2", "r", "qc3"],
                    ["C%d" % n, "wc1", "wc2", "rel"], ["C%d" % n, "wc1", "qc2", "wc3", "r"]):
            for kw in ({}, dict(skey=b"other")):
                c = Case(seed=n, ops=ops, **kw)
                c.kind = "tcp-sched"
                cases.append(c)
    # a send in every state of the set-up after the wait has already timed out once (no more
    # waiting then): in particular in state CSM, between the local CSM and the peer's
    for n0 in (0, 1, 2):
        for n in range(0, 8):
            for kw in ({}, dict(skey=b"other")):
                c = Case(seed=n, ops=["C%d" % n0, "wc1", "r%d" % n, "qc2", "wc3", "r", "qc4"], **kw)
                c.kind = "tcp-sched"
                cases.append(c)
    inj = ["@req9", "40", "1603030005", "170303000a" + "41" * 10, "d1" + "00" * 20]
    for j in inj:
        for ops in (["C", "ic" + j, "qc1", "r50"], ["C", "qc1", "ic" + j, "qc2", "r50"],
                    ["C1", "ic" + j, "r", "qc1"], ["C2", "ic" + j, "r", "qc1"], ["C3", "ic" + j, "r", "qc1"],
                    ["C4", "ic" + j, "r", "qc1"], ["C6", "ic" + j, "r", "qc1"], ["C9", "ic" + j, "r", "qc1"],
                    ["C", "is" + j, "qc1", "r50"], ["C2", "is" + j, "r", "qc1"], ["C4", "is" + j, "r", "qc1"],
                    ["C1", "wc1", "wc2", "ic" + j, "r", "r50"]):
            c = Case(seed=3, ops=ops)
            c.kind = "tcp-inject"
            cases.append(c)
    n = 60 if tier == "quick" else 800
    for i in range(n):
        nm, kw = ("match", {}) if r.random() < 0.5 else r.choice(cm)
        ops = ["C%d" % r.randrange(0, 12)] if r.random() < 0.6 else ["C"]
        nreq = 0
        for _ in range(r.randrange(0, 8)):
            x = r.random()
            if x < 0.55:
                nreq += 1
                ops.append(r.choice(["qc", "qn", "wc", "wn"]) + str(nreq))
            elif x < 0.7:
                ops.append(r.choice(["ic", "is"]) + r.choice(inj))
            elif x < 0.9:
                ops.append(r.choice(["r", "r1", "r2", "r5", "r30"]))
            else:
                ops.append("rel")
        c = Case(seed=i, ops=ops, **kw)
        c.kind = "tcp-random/" + nm
        cases.append(c)
    return cases


def tcp_oracle(case, trace, match):
    """the property on the TLS-over-TCP run, implementation alone"""
    bad = []
    toks = trace.split()
    hs = {"c": False, "s": False}
    q, sreq, rsp, nacked = [], [], [], []
    injected = any(op.startswith("i") for op in case.ops)
    for t in toks:
        f = t.split(":")
        if t in ("c.hs:0", "s.hs:0"):
            hs[t[0]] = True
            if not match:
                bad.append("TLS handshake completed on the %s side although the credentials do not match" % ("client" if t[0] == "c" else "server"))
        elif f[0] == "s.req":
            if not hs["s"]:
                bad.append("request %s delivered to the server handler before the TLS handshake completed" % f[1])
            if f[2] == "INJECTED":
                bad.append("cleartext request injected into the TCP stream reached the server handler")
            sreq.append(int(f[1]))
        elif f[0] == "c.rsp":
            if not hs["c"]:
                bad.append("response %s delivered to the client handler before the TLS handshake completed" % f[1])
            rsp.append(int(f[1]))
        elif f[0] == "c.st" and f[1] == "4" and not hs["c"]:
            bad.append("TLS client session ESTABLISHED without a completed handshake")
        elif f[0] == "a.q" and f[1] != "skip" and f[2] != "-1":
            q.append(int(f[1]))
        elif f[0] == "c.nack" and f[1] != "anon":
            nacked.append(int(f[1]))
        elif f[0] == "n.dir":
            if "f" not in f[4]:
                bad.append("bytes that are not TLS records on the %s->peer stream" % f[1])
            if "P" in f[4]:
                bad.append("cleartext CoAP in the %s->peer TCP stream" % f[1])
    if not match and (sreq or rsp):
        bad.append("application data exchanged over TLS although the credentials do not match")
    if match and not injected and "rel" not in case.ops and case.ops and case.ops[0] == "C" \
       and not any(op[0] == "w" for op in case.ops):
        if q != sreq or q != rsp:
            bad.append("TLS, matching credentials: requests %s, server saw %s, client saw %s" % (q, sreq, rsp))
    # what the server handler saw arrived in submission order, each once
    if [k for k in q if k in sreq] != sreq and sorted(set(sreq)) == sorted(sreq):
        bad.append("TLS: requests reached the server handler out of order: submitted %s, seen %s" % (q, sreq))
    # a request accepted by coap_send is answered, NACKed exactly once, or still in progress at the end;
    # never both answered/seen by the server and NACKed while it was only queued
    for k in set(nacked):
        if nacked.count(k) > 1:
            bad.append("TLS: request %d NACKed %d times" % (k, nacked.count(k)))
    if not hs["c"]:
        for k in q:
            if nacked.count(k) != 1:
                bad.append("TLS handshake never completed: queued request %d got %d NACKs (exactly one expected)" % (k, nacked.count(k)))
    for k in set(sreq):
        if sreq.count(k) > 1:
            bad.append("request %d delivered %d times over TLS" % (k, sreq.count(k)))
    return bad


TCP_EVENTS = {0x0000, 0x01DE, 0x0200, 0x2001, 0x1001, 0x1002, 0x1003, 0x2002, 0x2003}


class TcpSess:
    def __init__(self, side):
        self.side = side
        self.steps = []       # [event, [outs]]
        self.snaps = {}
        self.hs, self.tx, self.rx = [], [], []
        self.cur = None
        self.stray = []
        self.freed = False
        self.kind = None      # kind of the PDU being dispatched in the current chunk

    def start(self, ev, kind=None):
        self.cur = [ev, []]
        self.kind = kind
        self.steps.append(self.cur)

    def out(self, o, tok):
        if self.cur is None:
            self.stray.append(tok)
        else:
            self.cur[1].append(o)

    def line(self):
        def j(l):
            return ",".join(str(x) for x in l) or "-"
        steps = ["%s=%s%s" % (e, ",".join(o), ("@" + self.snaps[i]) if i in self.snaps else "")
                 for i, (e, o) in enumerate(self.steps)]
        return " ".join(["tgt", self.side, j(self.hs), j(self.tx), j(self.rx)] + steps)


def tcp_sessions_of(trace):
    """cut a trace of harness/h_tls_tcp.c into the event lists of the client and the server session"""
    head, ops = split_ops(trace)
    ss = {"c": None, "s": None}
    out = []
    pending = None          # (k, con) of the coap_send in progress
    sent_started = False
    for op, toks in ops:
        if op.startswith("C") and ss["c"] is None and "a.nocs" not in toks:
            ss["c"] = TcpSess("c")
            out.append(("c", ss["c"]))
            ss["c"].start("C")
        for t in toks:
            f = t.split(":")
            if t.startswith("a.send:"):
                pending = (int(f[1]), int(f[2]))
                sent_started = False
                if ss["c"]:
                    ss["c"].cur = None
                continue
            if t.startswith("a.q:"):
                c = ss["c"]
                if c and pending and not c.freed:
                    k = pending[0]
                    if not sent_started:
                        c.start("S%d:1" % k)
                    outs = c.cur[1]
                    txs = [o for o in outs if o.startswith("tx:%d:" % k)]
                    if int(f[2]) == -1:
                        if not (c.cur[0].startswith("S") and False):
                            outs.append("ds:%d" % k)
                    elif not txs or txs[-1].endswith(":-28"):
                        outs.append("dq:%d:1" % k)
                    c.cur = None
                pending = None
                continue
            if t == "a.rel":
                c = ss["c"]
                if c and not c.freed:
                    c.start("F")
                    c.freed = True
                continue
            if t[:2] not in ("c.", "s.") or t.startswith("s.hsok") or t.startswith("c.hsok"):
                continue
            side = t[0]
            x = ss[side]
            k, _, rest = t[2:].partition(":")
            if side == "s" and x is None:
                if t == "s.ev:1001":
                    x = ss["s"] = TcpSess("s")
                    out.append(("s", x))
                    x.start("A")
                    x.out("ev:4097", t)
                continue
            if x is None:
                continue
            if x.freed and not (x.cur and x.cur[0] == "F"):
                continue
            if k == "st":
                if rest != "gone" and x.steps:
                    g = rest.split(":")
                    x.snaps[len(x.steps) - 1] = "%s/%s/%s/%s/%s" % (g[0], g[1], g[2], g[3], g[4])
                continue
            if k in ("rr", "req", "rsp", "ih"):
                continue
            if k == "rd":
                x.start("R")
            elif k == "pdu":
                x.start("D" + rest, int(rest))
                x.out("dl:%s:0" % rest, t)
            elif k == "wt":
                x.start("W")
            elif k == "ev":
                e = int(rest, 16)
                if e == 0x4002:
                    x.start("F")
                    x.freed = True
                elif e == 0x1001 and side == "c":
                    x.start("K1")
                    x.out("ev:4097", t)
                elif e == 0x1003 and side == "c" and x.steps and x.steps[-1][0] == "C":
                    x.start("K0")
                    x.out("ev:4099", t)
                elif e in TCP_EVENTS:
                    x.out("ev:%d" % e, t)
            elif k == "hs":
                x.hs.append(int(rest))
                x.out("hs:%d" % int(rest), t)
            elif k == "rx":
                c = 1 if rest == "ok" else int(rest)
                x.rx.append(c)
                x.out("rx:%d" % c, t)
            elif k == "tx":
                i, _, code = rest.partition(":")
                c = 1 if code == "ok" else int(code)
                i = int(i)
                if side == "c" and pending and i == pending[0] and not sent_started:
                    x.start("S%d:1" % i)
                    sent_started = True
                elif x.kind in (1, 2, 4) and x.cur is not None and x.cur[0].startswith("D"):
                    x.start("s%d:1" % i)      # the stack answers from inside dispatch
                x.tx.append(c)
                x.out("tx:%d:%d" % (i, c), t)
            elif k == "nack":
                a, _, r = rest.partition(":")
                x.out("na:%s" % r if a == "anon" else "nk:%s:%s" % (a, r), t)
    return out

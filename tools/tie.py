"""Differential tie: run the same case lines through the extracted model and the C driver."""
import random
import vlib


def rng_for(run, tag):
    return random.Random("%d/%s/%s" % (run.seed, run.pid, tag))


def run_both(model_exe, c_exe, lines, c_env=None, timeout=900):
    """-> (model outputs, C outputs, C crashes); both output lists are aligned with lines"""
    out_m, cr_m = vlib.run_lines_robust(model_exe, lines, timeout=timeout)
    out_c, cr_c = vlib.run_lines_robust(c_exe, lines, timeout=timeout, env=c_env)
    return out_m, out_c, cr_c


def diff_cases(lines, out_m, out_c):
    """yield (index, line, model_out, c_out) for every disagreement"""
    for i, ln in enumerate(lines):
        m = out_m[i] if i < len(out_m) else "<missing>"
        c = out_c[i] if i < len(out_c) else "<missing>"
        if m != c:
            yield i, ln, m, c


def shrink_ops(case_prefix, ops, still_fails, max_steps=400):
    """Delta-debugging over a list of ops (each op = list of tokens)."""
    ops = list(ops)
    steps = 0
    changed = True
    while changed and steps < max_steps:
        changed = False
        i = 0
        while i < len(ops) and steps < max_steps:
            cand = ops[:i] + ops[i + 1:]
            steps += 1
            if still_fails(case_prefix, cand):
                ops = cand
                changed = True
            else:
                i += 1
    return ops

"""Generators for C05 (stream readers): byte streams made of serialised messages and ways of
cutting them into arrivals, aimed at the case boundaries of the proofs: the four TCP length
forms (Len nibble <13 / 13 / 14 / 15), extended token lengths (TKL 13 / 14), cuts inside the
2..8 header bytes, arrivals that fill the 1472-byte read buffer exactly, oversize declarations.
gen_wire.py_serialize is used as an input generator only (never as an oracle)."""
import itertools

import gen_wire

RXBUF = 1472
HARD = 8 * 1024 * 1024 + 256      # checked against the build by the tcpconsts case
SAFE_REQ_OPTS = [(11, 0, 12), (11, 13, 20), (15, 1, 14), (12, 0, 2), (17, 0, 2), (4, 1, 8), (14, 0, 4),
                 (60, 0, 4), (3, 1, 30), (7, 0, 2), (1, 0, 8), (5, 0, 0)]
SAFE_RSP_OPTS = [(12, 0, 2), (14, 0, 4), (4, 1, 8), (8, 0, 20), (20, 0, 20), (60, 0, 4)]
SAFE_REQ_NUMS = {o[0] for o in SAFE_REQ_OPTS}
SAFE_RSP_NUMS = {o[0] for o in SAFE_RSP_OPTS}
TOKS = [0, 0, 0, 1, 2, 4, 8, 8, 12, 13, 14, 40, 268, 269, 270, 300]


def _opts(r, table, n):
    out = []
    seen = set()
    for _ in range(n):
        num, lo, hi = r.choice(table)
        if num in (12, 17, 14, 60, 7, 5, 3) and num in seen:
            continue                      # not repeatable
        seen.add(num)
        out.append((num, gen_wire.rbytes(r, r.choice([lo, hi, r.randint(lo, hi)]))))
    return out


def gen_tcp_msg(r, want=None):
    """-> (frame bytes, kind). All of these parse; the kinds a handler sees are predictable."""
    x = r.random()
    kind = want or ("req" if x < 0.5 else "rsp" if x < 0.65 else "ping" if x < 0.75 else
                    "pong" if x < 0.8 else "empty" if x < 0.85 else "csm" if x < 0.92 else "big")
    if kind == "req":
        code = r.choice([1, 2, 3, 4, 5, 6, 7])
        tl = r.choice(TOKS)
        opts = _opts(r, SAFE_REQ_OPTS, r.choice([0, 1, 2, 3, 5]))
        if code == 5 and not any(o[0] == 12 for o in opts):
            opts.append((12, bytes([60])))          # FETCH without Content-Format is answered 4.15
        pl = r.choice([0, 0, 1, 2, 7, 11, 12, 13, 14, 100, 254, 255, 256, 267, 268, 269, 270, 300])
    elif kind == "rsp":
        code = r.choice([65, 67, 68, 69, 95, 128, 132, 160, 165])
        tl = r.choice(TOKS)
        opts = _opts(r, SAFE_RSP_OPTS, r.choice([0, 1, 2]))
        pl = r.choice([0, 1, 12, 13, 200, 268, 269, 1000])
    elif kind == "ping":
        code, tl, pl = 226, 0, 0
        opts = [(2, b"")] if r.random() < 0.3 else []
    elif kind == "pong":
        code, tl, pl = 227, 0, 0
        opts = [(2, b"")] if r.random() < 0.3 else []
    elif kind == "empty":
        code, tl, pl, opts = 0, 0, 0, []
    elif kind == "csm":
        code, tl, pl = 225, 0, 0
        opts = []
        if r.random() < 0.7:
            opts.append((2, bytes([0x04, 0x80]) if r.random() < 0.5 else bytes([0x7f, 0xff, 0xff])))
        if r.random() < 0.5:
            opts.append((4, b""))
        if r.random() < 0.3:
            opts.append((6, bytes([0x01, 0x00])))
    else:  # big: Len nibble 14 with a large body, or nibble 15 (>= 65805 bytes of options+payload)
        code = r.choice([2, 3, 69])
        tl = r.choice([0, 8, 13, 269])
        opts = _opts(r, SAFE_REQ_OPTS if code < 32 else SAFE_RSP_OPTS, 1)
        pl = r.choice([1400, 1464, 1465, 1466, 1472, 2944, 5000, 65000, 65790, 65800, 65804, 65805, 65806, 70000])
    frame = gen_wire.py_serialize("tcp", 0, code, 0, gen_wire.rbytes(r, tl), opts, gen_wire.rbytes(r, pl))
    return frame, kind


def tcp_hdr_len(b0):
    l, t = b0 >> 4, b0 & 15
    return (2 if l < 13 else 3 if l == 13 else 4 if l == 14 else 6) + (1 if t == 13 else 2 if t == 14 else 0)


def frame_code(f):
    l = f[0] >> 4
    return f[(2 if l < 13 else 3 if l == 13 else 4 if l == 14 else 6) - 1]


def gen_tcp_stream(r, small=False, allow_big=True):
    """-> (stream bytes, meta) ; meta: kinds, message starts, 'hot' cut offsets (inside headers),
    tail kind"""
    n = r.choice([1, 1, 2, 2, 3, 4, 6])
    parts, kinds, starts, hot = [], [], [], []
    pos = 0
    for i in range(n):
        want = None
        if small:
            want = r.choice(["req", "req", "ping", "pong", "empty", "csm", "rsp"])
        elif i == 0 and r.random() < 0.4:
            want = "csm"
        f, k = gen_tcp_msg(r, want)
        if (small and len(f) > 24) or (k == "big" and not allow_big):
            f, k = gen_tcp_msg(r, r.choice(["ping", "empty", "pong"]))
        starts.append(pos)
        hl = tcp_hdr_len(f[0])
        hot.extend(range(pos + 1, pos + hl + 1))
        parts.append(f)
        kinds.append(k)
        pos += len(f)
    tail = "none"
    x = r.random()
    if x < 0.12:
        # incomplete last message
        f, _ = gen_tcp_msg(r, "req")
        cut = r.randrange(1, len(f))
        parts.append(f[:cut])
        hot.extend(range(pos + 1, pos + min(cut, tcp_hdr_len(f[0])) + 1))
        tail = "partial"
    elif x < 0.22:
        # oversize declaration (32-bit length form above the hard cap), possibly followed by bytes
        tkl = r.choice([0, 0, 8, 13, 14])
        ext = r.choice([HARD - 65805 + d for d in (-7, -6, -5, -1, 0, 1, 2)] + [0x7fffffff, 0xffffffff])
        h = bytes([0xf0 | tkl]) + ext.to_bytes(4, "big") + bytes([r.choice([1, 2, 69])])
        h += bytes([r.randrange(256)]) * (1 if tkl == 13 else 2 if tkl == 14 else 0)
        parts.append(h + gen_wire.rbytes(r, r.choice([0, 0, 1, 5, 40])))
        hot.extend(range(pos + 1, pos + len(h) + 1))
        tsz = tkl if tkl < 13 else h[6] + 14 if tkl == 13 else (h[6] << 8) + h[7] + 271
        tail = "oversize" if ext + 65805 + tsz > HARD - 6 else "hugepartial"
    elif x < 0.30:
        # malformed but framed: TKL 15, reserved option nibble, marker without payload
        f, _ = gen_tcp_msg(r, "req")
        f = bytearray(f)
        y = r.random()
        if y < 0.4:
            f[0] = (f[0] & 0xf0) | 15
        elif y < 0.7 and len(f) > tcp_hdr_len(f[0]):
            f[-1] = 0xff
        else:
            f = bytearray(gen_wire.mutate(r, bytes(f)))
        parts.append(bytes(f))
        if f:
            hot.extend(range(pos + 1, pos + min(len(f), tcp_hdr_len(f[0])) + 1))
        tail = "malformed"
        if r.random() < 0.5:
            g, _ = gen_tcp_msg(r, "ping")
            parts.append(g)
    stream = b"".join(parts)
    expect = None
    if tail in ("none", "partial", "hugepartial", "oversize"):
        # by construction: these messages, in this order, then (oversize) the close
        expect = ([frame_code(f) for f in parts[:n]], 1 if tail == "oversize" else 0)
    return stream, {"kinds": kinds, "starts": starts, "hot": [h for h in hot if h < len(stream)], "tail": tail,
                    "expect": expect}


def cuts_to_token(cut_points, n):
    """sorted cut offsets (0 < c < n) -> 'a,b,c' lengths token ('-' when there is no cut)"""
    pts = sorted(set(c for c in cut_points if 0 < c < n))
    if not pts:
        return "-"
    lens, prev = [], 0
    for c in pts:
        lens.append(c - prev)
        prev = c
    return ",".join(str(x) for x in lens)


def exhaustive_cuts(n, k):
    """all placements of exactly k cuts in a stream of n bytes"""
    for pts in itertools.combinations(range(1, n), k):
        yield cuts_to_token(pts, n)


def random_cuts(r, n, hot):
    """-> (cuts token, cut kind)"""
    x = r.random()
    if n <= 1:
        return "-", "none"
    small = n <= 3000        # the list-based model is quadratic in (arrivals x frame size)
    if x < 0.12 and small:
        return "x1", "bytewise"
    if x < 0.2 and small:
        return "x%d" % r.choice([2, 3, 5, 7]), "fixed"
    if x < 0.3 and n > RXBUF:
        return "x%d" % r.choice([RXBUF, RXBUF - 1, RXBUF + 1, 2 * RXBUF]), "rxbuf"
    k = r.choice([1, 2, 2, 3, 3, 4, 6, 10])
    pts = set()
    for _ in range(k):
        if hot and r.random() < 0.7:
            pts.add(r.choice(hot))
        else:
            pts.add(r.randrange(1, n))
    if n > RXBUF and r.random() < 0.3:
        base = r.choice(sorted(pts))
        pts.add(base + RXBUF)
    return cuts_to_token(pts, n), "aimed"


def cut_points_of(token, n):
    if token == "-":
        return []
    if token[0] == "x":
        k = max(1, int(token[1:]))
        return list(range(k, n, k))
    out, pos = [], 0
    for t in token.split(","):
        pos += int(t)
        if pos < n:
            out.append(pos)
    return out


def max_rcv(mtu):
    """generator-side copy of coap_session_max_pdu_size_internal (aims sizes at the cap; the
    verdict never depends on it)"""
    if mtu <= 2:
        return 0
    if mtu <= 14:
        return mtu - 2
    if mtu <= 271:
        return mtu - 3
    if mtu <= 65808:
        return mtu - 4
    return mtu - 6


def gen_capfit(r, mtu, d):
    """a request whose declared size (everything after the header) is max_rcv(mtu) + d"""
    target = max_rcv(mtu) + d
    tl = r.choice([0, 2, 8])
    opts = [(11, b"c")]
    fixed = tl + 2 + 1               # token + option 11 "c" + payload marker
    pl = max(1, target - fixed)
    f = gen_wire.py_serialize("tcp", 0, r.choice([2, 3]), 0, gen_wire.rbytes(r, tl), opts, gen_wire.rbytes(r, pl))
    return f

"""Generators for C05 (stream readers): byte streams made of serialised messages and ways of
cutting them into arrivals, aimed at the case boundaries of the proofs: the four TCP length
forms (Len nibble <13 / 13 / 14 / 15), extended token lengths (TKL 13 / 14), cuts inside the
2..8 header bytes, arrivals that fill the 1472-byte read buffer exactly, oversize declarations.
gen_wire.py_serialize is used as an input generator only (never as an oracle)."""
import itertools

import gen_wire

RXBUF = 1472
HARD = 8 * 1024 * 1024 + 256      # checked against the build by the tcpconsts case
SAFE_REQ_OPTS = [(11, 0, 12), (11, 13, 20), (15, 1, 14), (12, 0, 2), (17, 0, 2), (4, 1, 8), (14, 0, 4),
                 (60, 0, 4), (3, 1, 30), (7, 0, 2), (1, 0, 8), (5, 0, 0)]
SAFE_RSP_OPTS = [(12, 0, 2), (14, 0, 4), (4, 1, 8), (8, 0, 20), (20, 0, 20), (60, 0, 4)]
SAFE_REQ_NUMS = {o[0] for o in SAFE_REQ_OPTS}
SAFE_RSP_NUMS = {o[0] for o in SAFE_RSP_OPTS}
TOKS = [0, 0, 0, 1, 2, 4, 8, 8, 12, 13, 14, 40, 268, 269, 270, 300]


def _opts(r, table, n):
    out = []
    seen = set()
    for _ in range(n):
        num, lo, hi = r.choice(table)
        if num in (12, 17, 14, 60, 7, 5, 3) and num in seen:
            continue                      # not repeatable
        seen.add(num)
        out.append((num, gen_wire.rbytes(r, r.choice([lo, hi, r.randint(lo, hi)]))))
    return out


def gen_tcp_msg(r, want=None):
    """-> (frame bytes, kind). All of these parse; the kinds a handler sees are predictable."""
    x = r.random()
    kind = want or ("req" if x < 0.5 else "rsp" if x < 0.65 else "ping" if x < 0.75 else
                    "pong" if x < 0.8 else "empty" if x < 0.85 else "csm" if x < 0.92 else "big")
    if kind == "req":
        code = r.choice([1, 2, 3, 4, 5, 6, 7])
        tl = r.choice(TOKS)
        opts = _opts(r, SAFE_REQ_OPTS, r.choice([0, 1, 2, 3, 5]))
        if code == 5 and not any(o[0] == 12 for o in opts):
            opts.append((12, bytes([60])))          # FETCH without Content-Format is answered 4.15
        pl = r.choice([0, 0, 1, 2, 7, 11, 12, 13, 14, 100, 254, 255, 256, 267, 268, 269, 270, 300])
    elif kind == "rsp":
        code = r.choice([65, 67, 68, 69, 95, 128, 132, 160, 165])
        tl = r.choice(TOKS)
        opts = _opts(r, SAFE_RSP_OPTS, r.choice([0, 1, 2]))
        pl = r.choice([0, 1, 12, 13, 200, 268, 269, 1000])
    elif kind == "ping":
        code, tl, pl = 226, 0, 0
        opts = [(2, b"")] if r.random() < 0.3 else []
    elif kind == "pong":
        code, tl, pl = 227, 0, 0
        opts = [(2, b"")] if r.random() < 0.3 else []
    elif kind == "empty":
        code, tl, pl, opts = 0, 0, 0, []
    elif kind == "csm":
        code, tl, pl = 225, 0, 0
        opts = []
        if r.random() < 0.7:
            opts.append((2, bytes([0x04, 0x80]) if r.random() < 0.5 else bytes([0x7f, 0xff, 0xff])))
        if r.random() < 0.5:
            opts.append((4, b""))
        if r.random() < 0.3:
            opts.append((6, bytes([0x01, 0x00])))
    else:  # big: Len nibble 14 with a large body, or nibble 15 (>= 65805 bytes of options+payload)
        code = r.choice([2, 3, 69])
        tl = r.choice([0, 8, 13, 269])
        opts = _opts(r, SAFE_REQ_OPTS if code < 32 else SAFE_RSP_OPTS, 1)
        pl = r.choice([1400, 1464, 1465, 1466, 1472, 2944, 5000, 65000, 65790, 65800, 65804, 65805, 65806, 70000])
    frame = gen_wire.py_serialize("tcp", 0, code, 0, gen_wire.rbytes(r, tl), opts, gen_wire.rbytes(r, pl))
    return frame, kind


def tcp_hdr_len(b0):
    l, t = b0 >> 4, b0 & 15
    return (2 if l < 13 else 3 if l == 13 else 4 if l == 14 else 6) + (1 if t == 13 else 2 if t == 14 else 0)


def frame_code(f):
    l = f[0] >> 4
    return f[(2 if l < 13 else 3 if l == 13 else 4 if l == 14 else 6) - 1]


def gen_tcp_stream(r, small=False, allow_big=True):
    """-> (stream bytes, meta) ; meta: kinds, message starts, 'hot' cut offsets (inside headers),
    tail kind"""
    n = r.choice([1, 1, 2, 2, 3, 4, 6])
    parts, kinds, starts, hot = [], [], [], []
    pos = 0
    for i in range(n):
        want = None
        if small:
            want = r.choice(["req", "req", "ping", "pong", "empty", "csm", "rsp"])
        elif i == 0 and r.random() < 0.4:
            want = "csm"
        f, k = gen_tcp_msg(r, want)
        if (small and len(f) > 24) or (k == "big" and not allow_big):
            f, k = gen_tcp_msg(r, r.choice(["ping", "empty", "pong"]))
        starts.append(pos)
        hl = tcp_hdr_len(f[0])
        hot.extend(range(pos + 1, pos + hl + 1))
        parts.append(f)
        kinds.append(k)
        pos += len(f)
    tail = "none"
    x = r.random()
    if x < 0.12:
        # incomplete last message
        f, _ = gen_tcp_msg(r, "req")
        cut = r.randrange(1, len(f))
        parts.append(f[:cut])
        hot.extend(range(pos + 1, pos + min(cut, tcp_hdr_len(f[0])) + 1))
        tail = "partial"
    elif x < 0.22:
        # oversize declaration (32-bit length form above the hard cap), possibly followed by bytes
        tkl = r.choice([0, 0, 8, 13, 14])
        ext = r.choice([HARD - 65805 + d for d in (-7, -6, -5, -1, 0, 1, 2)] + [0x7fffffff, 0xffffffff])
        h = bytes([0xf0 | tkl]) + ext.to_bytes(4, "big") + bytes([r.choice([1, 2, 69])])
        h += bytes([r.randrange(256)]) * (1 if tkl == 13 else 2 if tkl == 14 else 0)
        parts.append(h + gen_wire.rbytes(r, r.choice([0, 0, 1, 5, 40])))
        hot.extend(range(pos + 1, pos + len(h) + 1))
        tsz = tkl if tkl < 13 else h[6] + 14 if tkl == 13 else (h[6] << 8) + h[7] + 271
        tail = "oversize" if ext + 65805 + tsz > HARD - 6 else "hugepartial"
    elif x < 0.30:
        # malformed but framed: TKL 15, reserved option nibble, marker without payload
        f, _ = gen_tcp_msg(r, "req")
        f = bytearray(f)
        y = r.random()
        if y < 0.4:
            f[0] = (f[0] & 0xf0) | 15
        elif y < 0.7 and len(f) > tcp_hdr_len(f[0]):
            f[-1] = 0xff
        else:
            f = bytearray(gen_wire.mutate(r, bytes(f)))
        parts.append(bytes(f))
        if f:
            hot.extend(range(pos + 1, pos + min(len(f), tcp_hdr_len(f[0])) + 1))
        tail = "malformed"
        if r.random() < 0.5:
            g, _ = gen_tcp_msg(r, "ping")
            parts.append(g)
    stream = b"".join(parts)
    expect = None
    if tail in ("none", "partial", "hugepartial", "oversize"):
        # by construction: these messages, in this order, then (oversize) the close
        expect = ([frame_code(f) for f in parts[:n]], 1 if tail == "oversize" else 0)
    return stream, {"kinds": kinds, "starts": starts, "hot": [h for h in hot if h < len(stream)], "tail": tail,
                    "expect": expect}


def cuts_to_token(cut_points, n):
    """sorted cut offsets (0 < c < n) -> 'a,b,c' lengths token ('-' when there is no cut)"""
    pts = sorted(set(c for c in cut_points if 0 < c < n))
    if not pts:
        return "-"
    lens, prev = [], 0
    for c in pts:
        lens.append(c - prev)
        prev = c
    return ",".join(str(x) for x in lens)


def exhaustive_cuts(n, k):
    """all placements of exactly k cuts in a stream of n bytes"""
    for pts in itertools.combinations(range(1, n), k):
        yield cuts_to_token(pts, n)


def random_cuts(r, n, hot):
    """-> (cuts token, cut kind)"""
    x = r.random()
    if n <= 1:
        return "-", "none"
    small = n <= 3000        # the list-based model is quadratic in (arrivals x frame size)
    if x < 0.12 and small:
        return "x1", "bytewise"
    if x < 0.2 and small:
        return "x%d" % r.choice([2, 3, 5, 7]), "fixed"
    if x < 0.3 and n > RXBUF:
        return "x%d" % r.choice([RXBUF, RXBUF - 1, RXBUF + 1, 2 * RXBUF]), "rxbuf"
    k = r.choice([1, 2, 2, 3, 3, 4, 6, 10])
    pts = set()
    for _ in range(k):
        if hot and r.random() < 0.7:
            pts.add(r.choice(hot))
        else:
            pts.add(r.randrange(1, n))
    if n > RXBUF and r.random() < 0.3:
        base = r.choice(sorted(pts))
        pts.add(base + RXBUF)
    return cuts_to_token(pts, n), "aimed"


def cut_points_of(token, n):
    if token == "-":
        return []
    if token[0] == "x":
        k = max(1, int(token[1:]))
        return list(range(k, n, k))
    out, pos = [], 0
    for t in token.split(","):
        pos += int(t)
        if pos < n:
            out.append(pos)
    return out


def max_rcv(mtu):
    """generator-side copy of coap_session_max_pdu_size_internal (aims sizes at the cap; the
    verdict never depends on it)"""
    if mtu <= 2:
        return 0
    if mtu <= 14:
        return mtu - 2
    if mtu <= 271:
        return mtu - 3
    if mtu <= 65808:
        return mtu - 4
    return mtu - 6


def gen_capfit(r, mtu, d):
    """a request whose declared size (everything after the header) is max_rcv(mtu) + d"""
    target = max_rcv(mtu) + d
    tl = r.choice([0, 2, 8])
    opts = [(11, b"c")]
    fixed = tl + 2 + 1               # token + option 11 "c" + payload marker
    pl = max(1, target - fixed)
    f = gen_wire.py_serialize("tcp", 0, r.choice([2, 3]), 0, gen_wire.rbytes(r, tl), opts, gen_wire.rbytes(r, pl))
    return f


# ------------------------------------------------------------------ WebSocket (server side)

WS_RX = 1472
WS_LINES = [b"Host: localhost", b"Upgrade: websocket", b"Connection: Upgrade",
            b"Sec-WebSocket-Key: AAECAwQFBgcICQoLDA0ODw==", b"Sec-WebSocket-Protocol: coap",
            b"Sec-WebSocket-Version: 13"]
WS_GET = b"GET /.well-known/coap HTTP/1.1"


def ws_frame(payload, mask=None, op=2, lenform=None, fin=0x80):
    """client-to-server frame; mask=None -> unmasked; lenform: 7 / 16 / 64 (non-minimal allowed)"""
    n = len(payload)
    if lenform is None:
        lenform = 7 if n < 126 else 16 if n < 65536 else 64
    mb = 0x80 if mask is not None else 0
    if lenform == 7:
        h = bytes([fin | op, mb | n])
    elif lenform == 16:
        h = bytes([fin | op, mb | 126]) + n.to_bytes(2, "big")
    else:
        h = bytes([fin | op, mb | 127]) + n.to_bytes(8, "big")
    if mask is None:
        return h + payload
    return h + mask + bytes(b ^ mask[i % 4] for i, b in enumerate(payload))


def _case_mix(r, b):
    return bytes((c ^ 0x20) if (65 <= (c & ~0x20) <= 90 and r.random() < 0.5) else c for c in b)


def gen_ws_handshake(r):
    """-> (bytes, kind) ; kinds: ok, ok-variant, longline, bad"""
    x = r.random()
    lines = list(WS_LINES)
    eol = b"\r\n"
    kind = "ok"
    if x < 0.35:
        pass
    elif x < 0.7:
        kind = "ok-variant"
        r.shuffle(lines)
        y = r.random()
        if y < 0.3:
            eol = b"\n"
        if r.random() < 0.4:
            # header names and fixed values are compared case-insensitively
            lines = [(_case_mix(r, l.split(b" ")[0]) + b" " + l.split(b" ", 1)[1]) if not l.startswith(b"Sec-WebSocket-Key") else l
                     for l in lines]
        if r.random() < 0.5:
            # an unknown header of a length aimed at the line-buffer arithmetic (145/146, 158/159)
            ln = r.choice([10, 100, 130, 131, 132, 143, 144, 145, 146, 147, 150, 155, 156])
            name = b"X-Pad: "
            lines.insert(r.randrange(len(lines) + 1), name + b"p" * max(0, ln - len(name)))
        if r.random() < 0.3:
            lines = [l.replace(b": ", b":  \t ", 1) if (r.random() < 0.5 and len(l) < 140) else l for l in lines]
        if r.random() < 0.2:
            lines = [b"Connection: keep-alive, Upgrade" if l.lower().startswith(b"connection:") else l for l in lines]
    elif x < 0.82:
        ln = r.choice([157, 158, 159, 160, 161, 170, 200, 400])
        kind = "longline" if ln >= 160 else "edgeline"
        lines.insert(r.randrange(len(lines) + 1), b"X-Long: " + b"L" * (ln - 8))
    else:
        kind = "bad"
        y = r.random()
        if y < 0.25:
            del lines[r.randrange(len(lines))]
        elif y < 0.45:
            lines.append(r.choice(lines))
        elif y < 0.6:
            i = r.randrange(len(lines))
            lines[i] = lines[i].split(b" ")[0] + b" nonsense"
        elif y < 0.7:
            lines.insert(r.randrange(len(lines)), b"NoSeparatorHere")
        elif y < 0.8:
            return b"GET /other HTTP/1.1" + eol + eol.join(lines) + eol + eol, kind
        elif y < 0.9:
            lines.insert(r.randrange(1, len(lines)), b" folded continuation")
        else:
            lines.insert(r.randrange(len(lines)), b"X-Nul: a\x00b")
    return WS_GET + eol + eol.join(lines) + eol + eol, kind


def gen_ws_msg(r, max_tok=300):
    """a CoAP-over-WebSocket message (no length field) of a predictable kind"""
    x = r.random()
    if x < 0.55:
        code = r.choice([1, 2, 3, 4, 5, 6, 7])
        tl = r.choice([t for t in [0, 0, 1, 4, 8, 12, 13, 20, 269, 300] if t <= max_tok])
        opts = _opts(r, SAFE_REQ_OPTS, r.choice([0, 1, 2, 3]))
        if code == 5 and not any(o[0] == 12 for o in opts):
            opts.append((12, bytes([60])))
        pl = r.choice([0, 0, 1, 5, 100, 110, 117, 118, 119, 120, 121, 122, 123, 124, 125, 126, 200, 1000, 1400])
    elif x < 0.7:
        code = r.choice([65, 68, 69, 132, 160])
        tl = r.choice([0, 2, 8])
        opts = _opts(r, SAFE_RSP_OPTS, r.choice([0, 1]))
        pl = r.choice([0, 3, 125, 126, 500])
    elif x < 0.8:
        code, tl, pl, opts = 226, 0, 0, [(2, b"")]       # 3 bytes: delivered
    elif x < 0.85:
        code, tl, pl, opts = r.choice([226, 227, 0]), 0, 0, []    # 2 bytes: the shortest message
    elif x < 0.95:
        code, tl, pl = 225, 0, 0
        opts = [(2, bytes([0x04, 0x80]))] if r.random() < 0.6 else []
    else:
        code, tl, pl, opts = 227, 0, 0, [(2, b"")]
    return gen_wire.py_serialize("ws", 0, code, 0, gen_wire.rbytes(r, tl), opts, gen_wire.rbytes(r, pl)), code


def gen_ws_stream(r, hs=None, small=False):
    """-> (stream, meta): handshake, 1..5 masked frames, optional tail"""
    hsb, hkind = hs if hs else gen_ws_handshake(r)
    parts = [hsb]
    pos = len(hsb)
    hot = list(range(max(1, pos - 6), pos + 1))
    codes = []
    tail = "none"
    if hkind in ("ok", "ok-variant"):
        n = r.choice([1, 2, 2, 3, 5]) if not small else r.choice([1, 2])
        for i in range(n):
            m, code = gen_ws_msg(r)
            while len(m) > WS_RX or (small and len(m) > 12):
                m, code = gen_ws_msg(r)
            if not small and r.random() < 0.06:
                # a message that fills the receive buffer exactly / lacks one byte
                want = WS_RX - r.choice([0, 0, 1])
                code = r.choice([2, 3])
                m = gen_wire.py_serialize("ws", 0, code, 0, b"", [(11, b"f")], gen_wire.rbytes(r, want - 5))
            lf = None
            if r.random() < 0.15:
                lf = 64 if r.random() < 0.5 else 16
                if lf == 16 and len(m) >= 65536:
                    lf = 64
            f = ws_frame(m, mask=gen_wire.rbytes(r, 4), lenform=lf)
            hl = len(f) - len(m)
            hot.extend(range(pos + 1, pos + hl + 1))
            parts.append(f)
            codes.append(code)        # 2-byte messages (e.g. Ping 00 e2) are messages too
            pos += len(f)
        x = r.random()
        if x < 0.1:
            m, _ = gen_ws_msg(r)
            while len(m) > WS_RX:          # an incomplete frame that is also too big would close
                m, _ = gen_ws_msg(r)
            f = ws_frame(m, mask=gen_wire.rbytes(r, 4))
            cut = r.randrange(1, len(f))
            parts.append(f[:cut])
            tail = "partial"
        elif x < 0.2:
            # oversize declaration, followed by some of its body
            sz = r.choice([1473, 1474, 2000, 65535, 65536, 1 << 31, (1 << 63) + 5] +
                          [(1 << k) + r.choice([0, 3, 100]) for k in (16, 24, 32, 40, 48, 56)])
            lf = 16 if sz < 65536 and r.random() < 0.7 else 64
            h = bytes([0x82, 0x80 | (126 if lf == 16 else 127)]) + sz.to_bytes(2 if lf == 16 else 8, "big") + gen_wire.rbytes(r, 4)
            parts.append(h + gen_wire.rbytes(r, r.choice([0, 0, 1, 50, 99, 100, 101, 200, 1500])))
            hot.extend(range(pos + 1, pos + len(h) + 1))
            tail = "oversize"
        elif x < 0.26:
            parts.append(ws_frame(b"\x00\x01", mask=None))          # unmasked: close 1002
            tail = "unmasked"
        elif x < 0.32:
            parts.append(ws_frame(b"hi!", mask=gen_wire.rbytes(r, 4), op=r.choice([0, 1, 9, 10, 3])))
            tail = "badop"
        elif x < 0.38:
            parts.append(ws_frame(b"\x03\xe8", mask=gen_wire.rbytes(r, 4), op=8))
            tail = "closeframe"
    else:
        tail = hkind
    stream = b"".join(parts)
    closes = tail in ("oversize", "unmasked", "badop", "closeframe", "longline")
    expect = None if tail in ("bad", "edgeline") else (codes, 1 if closes else 0, hkind in ("ok", "ok-variant"))
    return stream, {"hs": hkind, "tail": tail, "hot": [h for h in hot if h < len(stream)],
                    "expect": expect, "hslen": len(hsb)}


# ------------------------------------------------------------------ WebSocket (client side)

WSC_LINES = [b"Upgrade: websocket", b"Connection: Upgrade",
             b"Sec-WebSocket-Accept: Bz3qJYTGdOe8gUSpLosEdiLKDrk=", b"Sec-WebSocket-Protocol: coap"]
WSC_FIRST = b"HTTP/1.1 101 Switching Protocols"


def gen_wsc_handshake(r):
    """server's answer to the client's upgrade request (client key = 00 01 .. 0f)"""
    x = r.random()
    lines = list(WSC_LINES)
    first = WSC_FIRST
    eol = b"\r\n"
    kind = "ok"
    if x < 0.45:
        pass
    elif x < 0.75:
        kind = "ok-variant"
        r.shuffle(lines)
        if r.random() < 0.3:
            eol = b"\n"
        if r.random() < 0.4:
            lines = [(_case_mix(r, l.split(b" ")[0]) + b" " + l.split(b" ", 1)[1]) if not l.startswith(b"Sec-WebSocket-Accept") else l
                     for l in lines]
        if r.random() < 0.4:
            lines.insert(r.randrange(len(lines) + 1), b"Server: " + b"s" * r.choice([3, 60, 120, 135, 145, 148]))
        if r.random() < 0.3:
            first = r.choice([b"HTTP/1.1 101", b"HTTP/1.1   101 OK", b"HTTP/1.1 \t101 Switching Protocols"])
    elif x < 0.85:
        kind = "longline"
        lines.insert(r.randrange(len(lines) + 1), b"X-Long: " + b"L" * (r.choice([160, 161, 200]) - 8))
    else:
        kind = "bad"
        y = r.random()
        if y < 0.2:
            first = r.choice([b"HTTP/1.1 200 OK", b"HTTP/1.0 101 x", b"http/1.1 101 x", b"HTTP/1.1 x101", b"HTTP/1.1", b"HTTP/1.1\t101"])
        elif y < 0.4:
            del lines[r.randrange(len(lines))]
        elif y < 0.6:
            lines.append(r.choice(lines))
        elif y < 0.8:
            lines = [l.replace(b"Bz3q", b"Az3q") for l in lines]
        else:
            lines.insert(r.randrange(len(lines)), b"NoSeparatorHere")
    return first + eol + eol.join(lines) + eol + eol, kind


def gen_wsc_stream(r, hs=None, small=False):
    """-> (stream, meta): response handshake, 1..6 unmasked frames (short ones: several fit into the
    14-byte read-ahead), optional tail"""
    hsb, hkind = hs if hs else gen_wsc_handshake(r)
    parts = [hsb]
    pos = len(hsb)
    hot = list(range(max(1, pos - 6), pos + 1))
    codes = []
    tail = "none"
    if hkind in ("ok", "ok-variant"):
        n = r.choice([1, 2, 3, 4, 6]) if not small else r.choice([2, 3, 4])
        for i in range(n):
            if small or r.random() < 0.5:
                # short messages: 3..7 bytes
                code = r.choice([69, 68, 65, 1, 2, 226, 227])
                tl = r.choice([0, 0, 1, 2])
                if code in (226, 227):
                    m = gen_wire.py_serialize("ws", 0, code, 0, b"", [(2, b"")], b"")
                else:
                    m = gen_wire.py_serialize("ws", 0, code, 0, gen_wire.rbytes(r, tl), [],
                                              gen_wire.rbytes(r, r.choice([0, 1, 2])))
                    if len(m) < 3:
                        m = gen_wire.py_serialize("ws", 0, code, 0, b"\x01", [], b"")
            else:
                # a client session accepts request tokens of at most 8 bytes unless negotiated
                m, code = gen_ws_msg(r, max_tok=8)
                while len(m) > WS_RX:
                    m, code = gen_ws_msg(r, max_tok=8)
            f = ws_frame(m, mask=None, lenform=(16 if (len(m) >= 126 or r.random() < 0.05) else None))
            hl = len(f) - len(m)
            hot.extend(range(pos + 1, pos + hl + 1))
            hot.append(pos + len(f))
            parts.append(f)
            codes.append(code)        # 2-byte messages (e.g. Ping 00 e2) are messages too
            pos += len(f)
        x = r.random()
        if x < 0.1:
            m, _ = gen_ws_msg(r)
            while len(m) > WS_RX:
                m, _ = gen_ws_msg(r)
            f = ws_frame(m, mask=None)
            parts.append(f[:r.randrange(1, len(f))])
            tail = "partial"
        elif x < 0.18:
            sz = r.choice([1473, 2000, 65535, 1 << 31] + [(1 << k) + r.choice([0, 3, 100]) for k in (16, 24, 32, 40, 48, 56)])
            lf = 16 if sz < 65536 else 64
            h = bytes([0x82, 126 if lf == 16 else 127]) + sz.to_bytes(2 if lf == 16 else 8, "big")
            parts.append(h + gen_wire.rbytes(r, r.choice([0, 50, 101, 300])))
            tail = "oversize"
        elif x < 0.24:
            parts.append(ws_frame(b"hi!", mask=None, op=r.choice([0, 1, 9, 10])))
            tail = "badop"
        elif x < 0.3:
            parts.append(ws_frame(b"\x03\xe8", mask=None, op=8))
            tail = "closeframe"
    else:
        tail = hkind
    stream = b"".join(parts)
    closes = tail in ("oversize", "badop", "closeframe", "longline")
    expect = None if tail == "bad" else (codes, 1 if closes else 0, hkind in ("ok", "ok-variant"))
    return stream, {"hs": hkind, "tail": tail, "hot": [h for h in hot if h < len(stream)],
                    "expect": expect, "hslen": len(hsb)}


WSIZE_TARGETS = [124, 125, 126, 127, 128, 65534, 65535, 65536, 65537]


def gen_ws_wsize_stream(r, client, target):
    """handshake, CSM (max message size 8 MiB - 1), GET ?l=<n>: the driver's handler answers with n
    payload bytes so that the library WRITES a WebSocket message of exactly `target` bytes"""
    tl = r.choice([0, 1, 4])
    n = target - 3 - tl
    csm = gen_wire.py_serialize("ws", 0, 225, 0, b"", [(2, bytes([0x7f, 0xff, 0xff]))], b"")
    req = gen_wire.py_serialize("ws", 0, 1, 0, gen_wire.rbytes(r, tl), [(11, b"w"), (15, b"l=%d" % n)], b"")
    if client:
        hs = WSC_FIRST + b"\r\n" + b"\r\n".join(WSC_LINES) + b"\r\n\r\n"
        frames = ws_frame(csm, mask=None) + ws_frame(req, mask=None)
    else:
        hs = WS_GET + b"\r\n" + b"\r\n".join(WS_LINES) + b"\r\n\r\n"
        frames = ws_frame(csm, mask=gen_wire.rbytes(r, 4)) + ws_frame(req, mask=gen_wire.rbytes(r, 4))
    stream = hs + frames
    return stream, {"hs": "ok", "tail": "wsize%d" % target, "hot": [len(hs) + 1, len(hs) + 3, len(stream) - 3],
                    "expect": ([225, 1], 0, True), "hslen": len(hs)}

#!/bin/bash
# try_harmless.sh <patch.diff> <label>: run EVERY claimed check (quick) against a scratch worktree
# of /repo with a behaviour-preserving patch applied; any VIOLATION is a false alarm.
P=$(readlink -f "$1"); L=$2
W=/var/tmp/verif.wt.harm.$L
git -C /repo worktree add -q "$W" HEAD || exit 2
( cd "$W" && git apply "$P" ) || { echo "$L: patch failed"; git -C /repo worktree remove --force "$W"; exit 2; }
cd /verif
for pid in $(python3 -c "import json;print(' '.join(c['property_id'] for c in json.load(open('MANIFEST.json'))['checks']))"); do
  OUT=$(VERIF_REPO=$W timeout 3000 python3 tools/check.py $pid --tier quick 2>&1); RC=$?
  if [ $RC -ne 0 ]; then echo "$L: $pid rc=$RC"; echo "$OUT" | grep -E "VIOLATION|violation detail" | head -4 | cut -c1-300; fi
done
git -C /repo worktree remove --force "$W"
H=$(python3 -c "import hashlib;print(hashlib.md5('$W'.encode()).hexdigest()[:8])")
rm -rf /verif/.build/alt-$H
echo "$L: done"

#!/bin/bash
# The repository's own test suite with the hook guard OFF (plain cmake build of /repo/_build).
set -e
mkdir -p /verif/.build
exec 9>/verif/.build/baseline.lock
flock 9
cd /repo
if [ ! -f _build/build.ninja ]; then
  cmake -G Ninja -B _build -DENABLE_TESTS=ON >/dev/null
fi
cmake --build _build >/dev/null
./_build/testdriver
